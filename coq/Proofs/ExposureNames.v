(* ExposureNames.v — completeness (C07) for the named ports of egress rules: the name is stored in the entry that covers the
   rule, or the entry holds all the port numbers of the protocol.  No axioms. *)
From Coq Require Import List ZArith Bool String Lia ZifyBool.
From NP Require Import IntervalSet IntervalSetProofs ConnSet ConnSetProofs World Eval Spec EvalProofs
     Build Connlist ListProofs WfProofs Exposure ExposureProofs.
Import ListNotations.
Open Scope list_scope.
Open Scope Z_scope.

(* covered on protocol q for a pod that declares nm -> (q, n): the number is in the set, or the name is *)
Definition name_covered (c : connset) (q : proto) (nm : string) (n : Z) : bool :=
  cs_denote c q n || has_name c q nm.

Lemma has_name_union_complete c o q nm n :
  cs_wf c -> cs_wf o -> valid_port n = true ->
  name_covered c q nm n = true \/ name_covered o q nm n = true -> name_covered (cs_union c o) q nm n = true.
Proof.
  intros Hc Ho Hv H. unfold name_covered in *. rewrite cs_union_denote by assumption.
  destruct (cs_all (cs_union c o)) eqn:Ea.
  - rewrite <- cs_union_denote by assumption. rewrite (cs_all_denote _ q n Ea), Hv. reflexivity.
  - rewrite (has_name_union c o q nm Ea).
    destruct H as [H|H]; apply orb_true_iff in H; destruct H as [H|H]; rewrite H; rewrite ?orb_true_r; reflexivity.
Qed.

Lemma rules_conns_rep_names_complete npns r real rules q nm n : forall res c,
  peer_okb real = true -> forallb np_rule_okb rules = true -> cs_wf res -> valid_port n = true ->
  rules_conns_rep npns rules r real false res = Ok c ->
  name_covered res q nm n = true \/ existsb (fun rl => rsel npns r rl && named_rule_ports (nr_ports rl) q nm) rules = true ->
  name_covered c q nm n = true.
Proof.
  induction rules as [|rl t IH]; intros res c Hd Hok Hres Hv H Hcov; cbn [rules_conns_rep] in H.
  - inversion H; subst c. destruct Hcov as [Hcov|Hcov]; [exact Hcov|discriminate Hcov].
  - cbn [forallb] in Hok. apply andb_true_iff in Hok. destruct Hok as [Hr Ht]. cbn [existsb] in Hcov. unfold rsel at 1 in Hcov.
    destruct (rule_selects_rep npns (nr_peers rl) r) as [sel|e]; cbn [bind] in H; [|discriminate H].
    destruct sel; cbn [negb bind] in H.
    + destruct (rule_conns_nodst_ok (nr_ports rl) Hr) as [Hrw _].
      apply (IH _ _ Hd Ht (cs_union_wf _ _ Hres Hrw) Hv H).
      destruct Hcov as [Hcov|Hcov].
      * left. apply has_name_union_complete; try assumption. left. exact Hcov.
      * cbn [andb] in Hcov. apply orb_true_iff in Hcov. destruct Hcov as [Hcov|Hcov]; [|right; exact Hcov].
        left. apply has_name_union_complete; try assumption. right. unfold name_covered. rewrite has_name_rule_nodst, Hcov. apply orb_true_r.
    + apply (IH _ _ Hd Ht Hres Hv H). destruct Hcov as [Hcov|Hcov]; [left; exact Hcov|]. cbn [andb orb] in Hcov. right. exact Hcov.
Qed.

Lemma policy_conns_rep_names_complete np r real pc rl q nm n :
  netpol_okb np = true -> peer_okb real = true ->
  policy_conns_rep np r real false = Ok pc ->
  In rl (np_eg np) -> (forall b, rule_selects_rep (np_ns np) (nr_peers rl) r = Ok b -> b = true) ->
  named_rule_ports (nr_ports rl) q nm = true -> valid_port n = true ->
  name_covered pc q nm n = true.
Proof.
  intros Hok Hd H Hrl Hsel Hnamed Hv. unfold policy_conns_rep in H. unfold name_covered.
  destruct (cs_all (pe_ext (scan_dir np Egress))) eqn:Eext.
  - inversion H; subst pc. rewrite (cs_all_denote _ q n Eext), Hv. reflexivity.
  - destruct (cs_all (pe_cw (scan_dir np Egress))) eqn:Ecw.
    + inversion H; subst pc. rewrite (cs_all_denote _ q n Ecw), Hv. reflexivity.
    + assert (Hr : forallb np_rule_okb (np_eg np) = true).
      { unfold netpol_okb in Hok. apply andb_true_iff in Hok. apply Hok. }
      apply (rules_conns_rep_names_complete (np_ns np) r real (np_eg np) q nm n _ _ Hd Hr (cs_make_wf false) Hv H).
      right. apply existsb_exists. exists rl. split; [exact Hrl|].
      destruct (rules_conns_rep_all_ok _ _ _ _ _ _ _ H rl Hrl) as [b Hb]. unfold rsel. rewrite Hb, (Hsel b Hb), Hnamed. reflexivity.
Qed.

Lemma nps_union_rep_names_complete sel r real hp0 hnsl0 q nm n : forall acc c,
  forallb netpol_okb sel = true -> peer_okb real = true -> satisfies hp0 hnsl0 r -> cs_wf acc -> valid_port n = true ->
  nps_union_rep sel r real false acc = Ok c ->
  (name_covered acc q nm n = true -> name_covered c q nm n = true) /\
  (forall np pc, In np sel -> policy_conns_rep np r real false = Ok pc -> name_covered pc q nm n = true -> name_covered c q nm n = true).
Proof.
  induction sel as [|np t IH]; intros acc c Hok Hd Hsat Hacc Hv H; cbn [nps_union_rep] in H.
  - inversion H; subst c. split; [auto|]. intros np pc [].
  - cbn [forallb] in Hok. apply andb_true_iff in Hok. destruct Hok as [Hnp Ht].
    destruct (policy_conns_rep np r real false) as [pc0|e] eqn:Epc; cbn [bind] in H; [|discriminate H].
    destruct (policy_conns_rep_sound np r real false pc0 hp0 hnsl0 Hnp Hd Hsat Epc) as [Hpcw _].
    destruct (IH _ _ Ht Hd Hsat (cs_union_wf _ _ Hacc Hpcw) Hv H) as [I1 I2]. split.
    + intros Ha. apply I1. apply has_name_union_complete; try assumption. left. exact Ha.
    + intros np' pc [He|Hin] Hpc Hcov.
      * subst np'. rewrite Epc in Hpc. inversion Hpc; subst pc. apply I1. apply has_name_union_complete; try assumption. right. exact Hcov.
      * apply (I2 np' pc Hin Hpc Hcov).
Qed.

Lemma fold_union_names_complete (f : netpol -> connset) sel q nm n : forall acc,
  cs_wf acc -> (forall np, In np sel -> cs_wf (f np)) -> valid_port n = true ->
  (name_covered acc q nm n = true \/ exists np, In np sel /\ name_covered (f np) q nm n = true) ->
  name_covered (fold_left (fun a np => cs_union a (f np)) sel acc) q nm n = true.
Proof.
  induction sel as [|np t IH]; intros acc Hacc Hf Hv H; cbn [fold_left].
  - destruct H as [H|(np & [] & _)]. exact H.
  - assert (Hnp : cs_wf (f np)) by (apply Hf; left; reflexivity).
    apply (IH _ (cs_union_wf _ _ Hacc Hnp) (fun x Hx => Hf x (or_intror Hx)) Hv).
    destruct H as [H|(np' & [He|Hin] & Hc)].
    + left. apply has_name_union_complete; try assumption. left. exact H.
    + subst np'. left. apply has_name_union_complete; try assumption. right. exact Hc.
    + right. exists np'. split; assumption.
Qed.

Lemma cluster_wide_names_complete sel p np rl q nm n :
  forallb netpol_okb sel = true -> In np sel -> np_affects np Egress = true ->
  In rl (np_eg np) -> opens rl = true -> named_rule_ports (nr_ports rl) q nm = true -> valid_port n = true ->
  name_covered (cluster_wide sel p false) q nm n = true.
Proof.
  intros Hok Hnp Haff Hrl Hop Hnamed Hv. unfold cluster_wide.
  assert (Hfw : forall x, In x sel -> cs_wf (pe_cw (scan_dir x Egress))).
  { intros x Hx. rewrite forallb_forall in Hok. destruct (scan_dir_ok x false (Hok x Hx)) as (_ & W2 & _). exact W2. }
  apply (fold_union_names_complete (fun x => pe_cw (scan_dir x Egress)) sel q nm n (cs_make false) (cs_make_wf false) Hfw Hv).
  right. exists np. split; [exact Hnp|]. unfold name_covered.
  destruct (cs_all (pe_cw (scan_dir np Egress))) eqn:Eall; [rewrite (cs_all_denote _ q n Eall), Hv; reflexivity|].
  apply orb_true_iff. right. unfold scan_dir in *. rewrite Haff in *.
  destruct (scan_fold_names (np_eg np) pol_exp0) as [_ N2]. cbn zeta in N2. destruct (N2 Eall) as [_ Hn].
  rewrite Hn. apply orb_true_iff. right. apply existsb_exists. exists rl. split; [exact Hrl|]. rewrite Hop, Hnamed. reflexivity.
Qed.

Lemma sset_mem_in nm l : sset_mem nm l = true -> In nm l.
Proof.
  induction l as [|y t IH]; cbn [sset_mem]; [discriminate|]. intros H. apply orb_true_iff in H. destruct H as [H|H].
  - apply String.eqb_eq in H. left. symmetry. exact H.
  - right. apply IH. exact H.
Qed.

(* a suppressed entry's named ports are covered by the entire-cluster connection too *)
Lemma containedin_names c cw q nm n :
  cs_wf c -> cs_wf cw -> valid_port n = true -> cs_containedin c cw = true ->
  name_covered c q nm n = true -> name_covered cw q nm n = true.
Proof.
  intros Hc Hw Hv Hcont Hcov. unfold name_covered in *. apply orb_true_iff in Hcov. destruct Hcov as [Hd|Hn].
  - rewrite (cs_containedin_sound c cw Hc Hw Hcont q n Hd). reflexivity.
  - unfold cs_containedin in Hcont. destruct (cs_all cw) eqn:Eall; [rewrite (cs_all_denote cw q n Eall), Hv; reflexivity|].
    destruct (cs_all c); [discriminate Hcont|]. rewrite forallb_protos in Hcont. specialize (Hcont q).
    unfold has_name in Hn. destruct (cs_get c q) as [ps|] eqn:Ec; [|discriminate Hn].
    destruct (cs_get cw q) as [ops|] eqn:Eo; [|discriminate Hcont].
    unfold ps_containedin in Hcont. apply andb_true_iff in Hcont. destruct Hcont as [_ Hnames].
    destruct (ps_named ps) as [|n0 ns] eqn:En; [discriminate Hn|]. apply orb_true_iff in Hnames. destruct Hnames as [Hfull|Hall].
    + apply iset_eqb_spec in Hfull. rewrite cs_denote_eq, Eall, Eo, Hv. cbn [opt_mem orb andb]. rewrite Hfull, ifull_mem.
      unfold valid_port in Hv. rewrite Hv. reflexivity.
    + apply orb_true_iff. right. unfold has_name. rewrite Eo. rewrite forallb_forall in Hall. apply Hall. apply sset_mem_in. exact Hn.
Qed.

Lemma name_covered_nonempty c q nm n : name_covered c q nm n = true -> cs_isempty c = false.
Proof.
  intros H. destruct (cs_isempty c) eqn:E; [|reflexivity]. unfold name_covered in H.
  rewrite (cs_isempty_denote c q n E) in H. cbn [orb] in H. apply cs_isempty_spec in E. destruct E as [_ En].
  unfold has_name in H. rewrite En in H. discriminate H.
Qed.

(* C07 for the named ports of egress rules *)
Theorem governing_rule_named_port_is_reported w reps0 keep p nsl d np rl nss pods hp hnsl q nm n :
  forallb netpol_okb (w_nps w) = true -> pod_okb p = true ->
  gen_reps (w_nps w) [] = Ok reps0 ->
  dir_data w p nsl false (filter keep reps0) = Ok (Some d) ->
  In np (w_nps w) -> s_np_governs np p Egress = true ->
  In rl (np_eg np) -> In (NPSel nss pods) (nr_peers rl) ->
  s_np_peer_matches (np_ns np) (NPSel nss pods) (PPod hp hnsl) = true ->
  lookup K8sNsNameLabelKey hnsl = Some (p_ns hp) ->
  named_rule_ports (nr_ports rl) q nm = true -> valid_port n = true ->
  (exists e, In e (xd_entries d) /\
             (xe_cluster e = true \/
              (sel_matches_raw (xe_nssel e) hnsl = true /\ sel_matches_raw (xe_podsel e) (p_labels hp) = true)) /\
             name_covered (xe_conn e) q nm n = true) \/
  (exists r0, In r0 reps0 /\ keep r0 = false /\ satisfies hp hnsl r0 /\
              rep_key_eqb (rep_of (np_ns np) (nss, pods)) r0 = true).
Proof.
  intros Hok Hp Hgen Hd Hnp Hgov Hrl Hpe Hmatch Hname Hnamed Hv.
  unfold dir_data in Hd.
  destruct (selecting_nps (w_nps w) p Egress) as [sel|er] eqn:Hs; cbn [bind] in Hd; [|discriminate Hd].
  pose proof (selecting_nps_ok _ _ _ _ Hs) as Hsel.
  assert (Hnpsel : In np sel) by (rewrite Hsel; apply filter_In; split; assumption).
  destruct sel as [|np0 t0]; [destruct Hnpsel|]. set (sel := np0 :: t0) in *.
  set (cw := cluster_wide sel p false) in *.
  destruct (rep_entries w p nsl cw false (filter keep reps0)) as [es|er] eqn:Ees; cbn [bind] in Hd; [|discriminate Hd].
  assert (Hde : xd_entries d = (if cs_isempty cw then [] else [mkXE true (mkSel [] []) (mkSel [] []) cw]) ++ es).
  { destruct ((if cs_isempty cw then [] else [mkXE true (mkSel [] []) (mkSel [] []) cw]) ++ es) eqn:E; inversion Hd; subst d; reflexivity. }
  assert (Hoksel : forallb netpol_okb sel = true) by (rewrite Hsel; apply forallb_filter; exact Hok).
  assert (Haff : np_affects np Egress = true).
  { unfold s_np_governs in Hgov. apply andb_true_iff in Hgov. destruct Hgov as [Hgov _]. apply andb_true_iff in Hgov.
    rewrite np_affects_spec. apply Hgov. }
  assert (Hcluster : name_covered cw q nm n = true ->
            exists e, In e (xd_entries d) /\
                      (xe_cluster e = true \/ (sel_matches_raw (xe_nssel e) hnsl = true /\ sel_matches_raw (xe_podsel e) (p_labels hp) = true)) /\
                      name_covered (xe_conn e) q nm n = true).
  { intros Hcw. exists (mkXE true (mkSel [] []) (mkSel [] []) cw). rewrite Hde. split; [|split; [left; reflexivity|exact Hcw]].
    apply in_or_app. left. rewrite (name_covered_nonempty cw q nm n Hcw). left. reflexivity. }
  destruct (opens rl) eqn:Eop.
  - left. apply Hcluster. apply (cluster_wide_names_complete sel p np rl q nm n Hoksel Hnpsel Haff Hrl Eop Hnamed Hv).
  - pose proof (rule_pair_collected np false rl nss pods Haff Hrl Eop Hpe) as Hpair.
    destruct (gen_reps_ok (w_nps w) [] reps0 Hgen) as (_ & Cov & Orig).
    destruct (Cov np (nss, pods) Hnp Hpair) as (Vrule & r0 & Hr0 & Hkey).
    assert (Vr0 : rep_valid r0 = true).
    { destruct (Orig r0 Hr0) as [[]|(np' & sp' & Hnp' & Hsp' & He)]. subst r0. apply (Cov np' sp' Hnp' Hsp'). }
    destruct (matching_rep (np_ns np) nss pods r0 hp hnsl Vrule Vr0 Hkey Hmatch Hname) as [Hsat Hselects].
    destruct (keep r0) eqn:Ekeep; [|right; exists r0; repeat split; try assumption; apply Hsat].
    left. assert (Hr0in : In r0 (filter keep reps0)) by (apply filter_In; split; assumption).
    destruct (rep_entries_cover w p nsl cw false _ es r0 Ees Hr0in) as (c & Hc & Hcov).
    assert (Hcden : name_covered c q nm n = true /\ cs_wf c).
    { unfold conns_with_rep in Hc. rewrite Hs in Hc. cbn [bind] in Hc. fold sel in Hc.
      destruct (nps_union_rep sel r0 (PPod p nsl) false (cs_make false)) as [c'|er] eqn:Hu; cbn [bind] in Hc; [|discriminate Hc].
      destruct (nps_union_rep_sound sel r0 (PPod p nsl) false hp hnsl _ _ Hoksel Hp Hsat (cs_make_wf false) Hu) as [Hcw' _].
      destruct (nps_union_rep_names_complete sel r0 (PPod p nsl) hp hnsl q nm n _ _ Hoksel Hp Hsat (cs_make_wf false) Hv Hu) as [_ Hcomp].
      destruct (nps_union_rep_all_ok _ _ _ _ _ _ Hu np Hnpsel) as [pc Hpc].
      assert (Hnpok : netpol_okb np = true) by (rewrite forallb_forall in Hok; apply Hok; exact Hnp).
      assert (Hpcd : name_covered pc q nm n = true).
      { apply (policy_conns_rep_names_complete np r0 (PPod p nsl) pc rl q nm n Hnpok Hp Hpc Hrl); try assumption.
        intros b Hb. unfold rule_selects_rep in Hb. destruct (nr_peers rl) as [|pe0 pt] eqn:Epeers; [destruct Hpe|].
        apply (Hselects (pe0 :: pt) b Hpe Hb). }
      pose proof (Hcomp np pc Hnpsel Hpc Hpcd) as Hc'.
      inversion Hc; subst c. split; [exact Hc'|exact Hcw']. }
    destruct Hcden as [Hcd Hcwf].
    destruct Hcov as [Hcov|[[Hne Hcont]|Hcov]].
    + rewrite (name_covered_nonempty c q nm n Hcd) in Hcov. discriminate Hcov.
    + apply Hcluster. assert (Hcww : cs_wf cw).
      { unfold cw, cluster_wide.
        refine (proj1 (fold_union_ok _ sel (cs_make false) (cs_make_wf false) _)).
        intros x Hx. rewrite forallb_forall in Hoksel. destruct (scan_dir_ok x false (Hoksel x Hx)) as (_ & W2 & _). exact W2. }
      apply (containedin_names c cw q nm n Hcwf Hcww Hv Hcont Hcd).
    + exists (mkXE false (rp_nssel r0) (osel_or_empty (rp_podsel r0)) c). rewrite Hde. split; [apply in_or_app; right; exact Hcov|].
      cbn [xe_cluster xe_nssel xe_podsel xe_conn]. split; [|exact Hcd]. right. destruct Hsat as (S1 & S2 & _).
      split; [exact S1|rewrite osel_or_empty_matches; exact S2].
Qed.
