(* IntervalSet.v — canonical interval sets over Z.
   Mirrors what the repository uses of github.com/np-guard/models/pkg/interval.CanonicalSet
   (ports) and netset.IPBlock (IPv4 addresses as integers): only the *canonical result* of each
   operation is modelled (the canonical form is unique, see Proofs/IntervalSetProofs.v),
   not the library's internal algorithm, which lives outside /repo.
   Executable definitions only; proofs are in Proofs/. *)
From Coq Require Import List ZArith Bool.
Import ListNotations.
Open Scope Z_scope.

Definition ivl  := (Z * Z)%type.      (* closed interval [lo, hi], lo <= hi *)
Definition iset := list ivl.

Definition in_ivl (x : Z) (v : ivl) : bool := (fst v <=? x) && (x <=? snd v).

Fixpoint imem (x : Z) (s : iset) : bool :=
  match s with
  | [] => false
  | v :: t => in_ivl x v || imem x t
  end.

(* lb_canon b s: every interval is non-empty, the first starts at or after b, and consecutive
   intervals are separated by a gap of at least one point (sorted, disjoint, non-adjacent). *)
Fixpoint lb_canon (b : Z) (s : iset) : Prop :=
  match s with
  | [] => True
  | (l, h) :: t => b <= l /\ l <= h /\ lb_canon (h + 2) t
  end.

Definition canon (s : iset) : Prop :=
  match s with
  | [] => True
  | (l, _) :: _ => lb_canon l s
  end.

Fixpoint lb_canonb (b : Z) (s : iset) : bool :=
  match s with
  | [] => true
  | (l, h) :: t => (b <=? l) && (l <=? h) && lb_canonb (h + 2) t
  end.

Definition canonb (s : iset) : bool :=
  match s with
  | [] => true
  | (l, _) :: _ => lb_canonb l s
  end.

(* all points within [lo, hi] *)
Fixpoint withinb (lo hi : Z) (s : iset) : bool :=
  match s with
  | [] => true
  | (l, h) :: t => (lo <=? l) && (h <=? hi) && withinb lo hi t
  end.

(* AddInterval *)
Fixpoint iadd (l h : Z) (s : iset) : iset :=
  match s with
  | [] => [(l, h)]
  | (l', h') :: t =>
      if h + 1 <? l' then (l, h) :: s
      else if h' + 1 <? l then (l', h') :: iadd l h t
      else iadd (Z.min l l') (Z.max h h') t
  end.

(* AddHole *)
Fixpoint ihole (l h : Z) (s : iset) : iset :=
  match s with
  | [] => []
  | (l', h') :: t =>
      if h <? l' then s
      else if h' <? l then (l', h') :: ihole l h t
      else (if l' <? l then [(l', l - 1)] else [])
             ++ (if h <? h' then [(h + 1, h')] else [])
             ++ ihole l h t
  end.

Definition iadd_ivl (v : ivl) (s : iset) : iset :=
  if fst v <=? snd v then iadd (fst v) (snd v) s else s.
Definition ihole_ivl (s : iset) (v : ivl) : iset :=
  if fst v <=? snd v then ihole (fst v) (snd v) s else s.

Definition iunion (a b : iset) : iset := fold_right iadd_ivl a b.
Definition isub   (a b : iset) : iset := fold_left ihole_ivl b a.
Definition iinter (a b : iset) : iset := isub a (isub a b).

Definition iempty (s : iset) : bool := match s with [] => true | _ => false end.
Definition isubset (a b : iset) : bool := iempty (isub a b).

Definition ivl_eqb (u v : ivl) : bool := (fst u =? fst v) && (snd u =? snd v).
Fixpoint iset_eqb (a b : iset) : bool :=
  match a, b with
  | [], [] => true
  | u :: a', v :: b' => ivl_eqb u v && iset_eqb a' b'
  | _, _ => false
  end.

(* canonicalise an arbitrary list of (possibly empty, lo > hi) intervals *)
Definition icanon_of (l : list ivl) : iset := fold_right iadd_ivl [] l.

Definition ifull (lo hi : Z) : iset := [(lo, hi)].
