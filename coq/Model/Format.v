(* Format.v — the output formats of `list` (txt, md, csv, json; without exposure) and of `diff`
   (txt, md, csv), byte for byte, as functions of the analysis result:
     /repo/pkg/netpol/connlist/conns_formatter*.go, /repo/pkg/netpol/diff/diff_formatter*.go,
     common.ConnStrFromConnProperties.
   sort.Strings / sort.Slice are the insertion sort of Proofs/SortGeneric.v (any correct sort gives the
   same list: ssort_is_the_sort).  encoding/csv and encoding/json are modelled on the alphabet the
   analysis can produce (a field is quoted iff it contains a comma or a quote; no JSON escapes are needed).
   dot is not modelled (parsed back by the check).  Executable definitions only. *)
From Coq Require Import List ZArith Bool String Ascii.
From NP Require Import IntervalSet ConnSet World Build Connlist Diff.
Import ListNotations.
Open Scope list_scope.
Open Scope string_scope.

Definition nl : string := String (ascii_of_nat 10) EmptyString.

Definition ip_str (a : Z) : string :=
  Z_str (a / 16777216) ++ "." ++ Z_str ((a / 65536) mod 256) ++ "." ++ Z_str ((a / 256) mod 256) ++ "." ++ Z_str (a mod 256).

Definition rpeer_str (p : rpeer) : string :=
  match p with
  | RW s => s
  | RIP lo hi => ip_str lo ++ "-" ++ ip_str hi
  end.

Record row := mkRow { r_src : string; r_dst : string; r_conn : string }.
Definition row_of (e : rentry) : row := mkRow (rpeer_str (re_src e)) (rpeer_str (re_dst e)) (cs_string (re_conn e)).

(* insertion sort (SortGeneric.isort specialised; kept here so that the model runs without the proofs) *)
Fixpoint sinsert (x : string) (l : list string) : list string :=
  match l with
  | [] => [x]
  | y :: t => if String.leb x y then x :: l else y :: sinsert x t
  end.
Definition strsort (l : list string) : list string := fold_right sinsert [] l.

(* rows ordered by (src, dst, conn) *)
Definition row_leb (a b : row) : bool :=
  if String.eqb (r_src a) (r_src b)
  then (if String.eqb (r_dst a) (r_dst b) then String.leb (r_conn a) (r_conn b) else String.leb (r_dst a) (r_dst b))
  else String.leb (r_src a) (r_src b).
Fixpoint rinsert (x : row) (l : list row) : list row :=
  match l with
  | [] => [x]
  | y :: t => if row_leb x y then x :: l else y :: rinsert x t
  end.
Definition rowsort (l : list row) : list row := fold_right rinsert [] l.

(* ---- list: txt ---- *)
Definition txt_line (r : row) : string := r_src r ++ " => " ++ r_dst r ++ " : " ++ r_conn r.
Definition list_txt (es : list rentry) : string :=
  join nl (strsort (map (fun e => txt_line (row_of e)) es)) ++ nl.

(* ---- list: md ---- *)
Definition md_line (r : row) : string := "| " ++ r_src r ++ " | " ++ r_dst r ++ " | " ++ r_conn r ++ " |".
Definition md_header : string := "| src | dst | conn |" ++ nl ++ "|-----|-----|------|".
Definition list_md (es : list rentry) : string :=
  join nl (md_header :: map md_line (rowsort (map row_of es))) ++ nl.

(* ---- list: csv ---- *)
Fixpoint has_char (c : ascii) (s : string) : bool :=
  match s with EmptyString => false | String x t => Ascii.eqb x c || has_char c t end.
Fixpoint double_quotes (s : string) : string :=
  match s with
  | EmptyString => EmptyString
  | String x t => if Ascii.eqb x """" then String x (String x (double_quotes t)) else String x (double_quotes t)
  end.
Definition csv_field (s : string) : string :=
  if has_char "," s || has_char """" s then """" ++ double_quotes s ++ """" else s.
Definition csv_row (fields : list string) : string := join "," (map csv_field fields) ++ nl.
Definition list_csv (es : list rentry) : string :=
  csv_row ["src"; "dst"; "conn"] ++
  fold_right (fun r acc => csv_row [r_src r; r_dst r; r_conn r] ++ acc) EmptyString (rowsort (map row_of es)).

(* ---- list: json ---- *)
Definition json_obj (r : row) : string :=
  "  {" ++ nl ++ "    ""src"": """ ++ r_src r ++ """," ++ nl ++ "    ""dst"": """ ++ r_dst r ++ """," ++ nl ++
  "    ""conn"": """ ++ r_conn r ++ """" ++ nl ++ "  }".
Definition list_json (es : list rentry) : string :=
  match es with
  | [] => "[]"
  | _ => "[" ++ nl ++ join ("," ++ nl) (map json_obj (rowsort (map row_of es))) ++ nl ++ "]"
  end.

(* ---- diff ---- *)
Definition dtype_str (t : dtype) : string :=
  match t with DUnchanged => "unchanged" | DChanged => "changed" | DAdded => "added" | DRemoved => "removed" end.

Record drow := mkDRow { dr_type : string; dr_src : string; dr_dst : string; dr_c1 : string; dr_c2 : string; dr_info : string }.

Definition diff_info (e : dentry) : string :=
  if de_src_flag e || de_dst_flag e
  then "workload " ++ (if de_src_flag e then rpeer_str (de_src e) else "")
       ++ (if de_src_flag e && de_dst_flag e then " and " else "")
       ++ (if de_dst_flag e then rpeer_str (de_dst e) else "") ++ " " ++ dtype_str (de_type e)
  else "".

Definition drow_of (e : dentry) : drow :=
  mkDRow (dtype_str (de_type e)) (rpeer_str (de_src e)) (rpeer_str (de_dst e))
         (match de_type e with DAdded => noConnsStr | _ => cs_string (de_c1 e) end)
         (match de_type e with DRemoved => noConnsStr | _ => cs_string (de_c2 e) end)
         (diff_info e).

Definition is_ic (e : dentry) : bool := match de_src e with RW s => String.eqb s "{ingress-controller}" | _ => false end.

(* writeDiffLinesOrderedByCategory: changed, added, removed from policies, then the same from the
   ingress-controller; each group sorted as strings *)
Definition diff_lines (line : drow -> string) (d : list dentry) : list string :=
  let grp (t : dtype) (ic : bool) :=
      strsort (map (fun e => line (drow_of e)) (filter (fun e => dtype_eqb (de_type e) t && Bool.eqb (is_ic e) ic) d)) in
  (grp DChanged false ++ grp DAdded false ++ grp DRemoved false ++ grp DChanged true ++ grp DAdded true ++ grp DRemoved true)%list.

Definition diff_is_empty (d : list dentry) : bool :=
  forallb (fun e => dtype_eqb (de_type e) DUnchanged) d.

Definition diff_txt_line (r : drow) : string :=
  "diff-type: " ++ dr_type r ++ ", source: " ++ dr_src r ++ ", destination: " ++ dr_dst r ++ ", dir1: " ++ dr_c1 r ++ ", dir2: " ++ dr_c2 r
  ++ (if String.eqb (dr_info r) "" then "" else ", workloads-diff-info: " ++ dr_info r).
Definition diff_txt (d : list dentry) : string :=
  if diff_is_empty d then "" else join nl ("Connectivity diff:" :: diff_lines diff_txt_line d) ++ nl.

Definition diff_md_line (r : drow) : string :=
  "| " ++ dr_type r ++ " | " ++ dr_src r ++ " | " ++ dr_dst r ++ " | " ++ dr_c1 r ++ " | " ++ dr_c2 r ++ " | " ++ dr_info r ++ " |".
Definition diff_md (d : list dentry) : string :=
  if diff_is_empty d then "" else
  join nl (("| diff-type | source | destination | dir1 | dir2 | workloads-diff-info |" ++ nl ++
            "|-----------|--------|-------------|------|------|---------------------|") :: diff_lines diff_md_line d).

(* the csv lines are built as ;-joined strings, sorted, then split again *)
Definition diff_csv_key (r : drow) : string :=
  dr_type r ++ ";" ++ dr_src r ++ ";" ++ dr_dst r ++ ";" ++ dr_c1 r ++ ";" ++ dr_c2 r ++ ";" ++ dr_info r.
Fixpoint split_semi (s : string) (cur : string) : list string :=
  match s with
  | EmptyString => [cur]
  | String c t => if Ascii.eqb c ";" then cur :: split_semi t EmptyString else split_semi t (cur ++ String c EmptyString)
  end.
Definition diff_csv (d : list dentry) : string :=
  if diff_is_empty d then "" else
  csv_row ["diff-type"; "source"; "destination"; "dir1"; "dir2"; "workloads-diff-info"] ++
  fold_right (fun l acc => csv_row (split_semi l EmptyString) ++ acc) EmptyString (diff_lines diff_csv_key d).

(* ---- list: dot (conns_formatter_dot.go, internal/dotformatting; without exposure) ----
   fmt's %q is the string between double quotes on the alphabet the analysis produces.  The peers are
   the analyzer's peersList (name, namespace, kind as the Peer interface gives them); a peer of an entry
   that is not in that list (the ingress-controller pod) is external and labelled by its string.  Every
   group of lines is sorted by the formatter, so only the SET of visited peers matters: it is taken here
   as the sorted duplicate-free list of their strings. *)
Record dpeer := mkDP { dp_str : string; dp_ext : bool; dp_ip : bool; dp_label : string; dp_ns : string }.

Definition tab : string := String (ascii_of_nat 9) EmptyString.
Definition qq (s : string) : string := """" ++ s ++ """".

Fixpoint dot_lookup (ps : list dpeer) (s : string) : dpeer :=
  match ps with
  | [] => mkDP s true false s ""
  | p :: t => if String.eqb (dp_str p) s then p else dot_lookup t s
  end.

Fixpoint dedup_adj (l : list string) : list string :=
  match l with
  | x :: ((y :: _) as t) => if String.eqb x y then dedup_adj t else x :: dedup_adj t
  | _ => l
  end.

Definition dot_peer_line (p : dpeer) : string :=
  let col := if dp_ip p then "red2" else "blue" in
  tab ++ qq (dp_str p) ++ " [label=" ++ qq (if dp_ext p then dp_str p else dp_label p)
      ++ " color=" ++ qq col ++ " fontcolor=" ++ qq col ++ "]".

Definition dot_edge_line (r : row) : string :=
  tab ++ qq (r_src r) ++ " -> " ++ qq (r_dst r) ++ " [label=" ++ qq (r_conn r)
      ++ " color=" ++ qq "gold2" ++ " fontcolor=" ++ qq "darkgreen" ++ " weight="
      ++ (if String.leb (r_src r) (r_dst r) then "0.5" else "1") ++ "]".

Fixpoint dash_to_underscore (s : string) : string :=
  match s with
  | EmptyString => EmptyString
  | String c t => String (if Ascii.eqb c "-" then "_"%char else c) (dash_to_underscore t)
  end.

Definition dot_ns_group (visited : list dpeer) (ns : string) : list string :=
  [tab ++ "subgraph " ++ qq ("cluster_" ++ dash_to_underscore ns) ++ " {";
   tab ++ tab ++ "color=" ++ qq "black"; tab ++ tab ++ "fontcolor=" ++ qq "black"]
  ++ strsort (map (fun p => tab ++ dot_peer_line p)
                  (filter (fun p => negb (dp_ext p) && String.eqb (dp_ns p) ns) visited))
  ++ [tab ++ tab ++ "label=" ++ qq ns; tab ++ "}"].

Definition dot_strs (es : list rentry) (ps : list dpeer) : list string :=
  (flat_map (fun e => [rpeer_str (re_src e); rpeer_str (re_dst e)]) es
   ++ map dp_str (filter (fun p => negb (dp_ip p)) ps))%list.

Definition dot_render (visited : list dpeer) (edges : list string) : string :=
  let nss := dedup_adj (strsort (map dp_ns (filter (fun p => negb (dp_ext p)) visited))) in
  join nl (["digraph {"] ++ flat_map (dot_ns_group visited) nss
           ++ strsort (map dot_peer_line (filter dp_ext visited))
           ++ edges ++ ["}"])%list.

Definition list_dot (es : list rentry) (ps : list dpeer) : string :=
  dot_render (map (dot_lookup ps) (dedup_adj (strsort (dot_strs es ps))))
             (strsort (map (fun e => dot_edge_line (row_of e)) es)).

(* ---------- correspondence cases ---------- *)
Record fmt_case := mkFmt { fm_id : nat; fm_entries : list rentry;
                           fm_txt : string; fm_md : string; fm_csv : string; fm_json : string }.
(* codes: 1 txt, 2 md, 3 csv, 4 json differs from the model *)
Definition fmt_mismatches (cs : list fmt_case) : list (nat * nat) :=
  flat_map (fun c =>
    ((if String.eqb (fm_txt c) (list_txt (fm_entries c)) then [] else [(fm_id c, 1%nat)]) ++
    (if String.eqb (fm_md c) (list_md (fm_entries c)) then [] else [(fm_id c, 2%nat)]) ++
    (if String.eqb (fm_csv c) (list_csv (fm_entries c)) then [] else [(fm_id c, 3%nat)]) ++
    (if String.eqb (fm_json c) (list_json (fm_entries c)) then [] else [(fm_id c, 4%nat)]))%list) cs.

Record dot_case := mkDot { dc_id : nat; dc_entries : list rentry; dc_peers : list dpeer; dc_dot : string }.
Definition dot_mismatches (cs : list dot_case) : list (nat * nat) :=
  flat_map (fun c => if String.eqb (dc_dot c) (list_dot (dc_entries c) (dc_peers c)) then [] else [(dc_id c, 6%nat)]) cs.

Record dfmt_case := mkDFmt { df_id : nat; df_diff : list dentry; df_txt : string; df_md : string; df_csv : string }.
Definition dfmt_mismatches (cs : list dfmt_case) : list (nat * nat) :=
  flat_map (fun c =>
    ((if String.eqb (df_txt c) (diff_txt (df_diff c)) then [] else [(df_id c, 1%nat)]) ++
    (if String.eqb (df_md c) (diff_md (df_diff c)) then [] else [(df_id c, 2%nat)]) ++
    (if String.eqb (df_csv c) (diff_csv (df_diff c)) then [] else [(df_id c, 3%nat)]))%list) cs.
