(* EvalPointProofs.v — the rule walkers of `eval` (Model/EvalPoint.v, mirror of check_eval.go)
   answer, whenever they answer, what the pointwise Spec says; together with EvalProofs.v this
   gives eval = list on every point.  No axioms. *)
From Coq Require Import List ZArith Bool String Lia ZifyBool.
From NP Require Import IntervalSet ConnSet ConnSetProofs World Eval Spec EvalProofs EvalPoint.
Import ListNotations.
Open Scope list_scope.
Open Scope Z_scope.

Lemma np_ports_contain_ok ports dst pr n : forall b,
  np_ports_contain ports dst pr n = Ok b ->
  b = existsb (fun pp => s_np_port_matches pp dst pr n) ports.
Proof.
  induction ports as [|pp t IH]; intros b H; cbn [np_ports_contain] in H.
  - inversion H; reflexivity.
  - cbn [existsb]. unfold s_np_port_matches at 1.
    destruct (pp_port pp) as [|a|nm] eqn:Hport.
    + rewrite andb_true_r. destruct (np_ports_contain t dst pr n) as [rest|] eqn:Hr; cbn [bind] in H; [|discriminate].
      injection H as <-. rewrite (IH rest eq_refl). reflexivity.
    + unfold get_ports_range in H. rewrite Hport in H. cbn [bind] in H.
      destruct (np_ports_contain t dst pr n) as [rest|] eqn:Hr; cbn [bind] in H; [|discriminate].
      injection H as <-. rewrite (IH rest eq_refl). unfold rule_port_contains. reflexivity.
    + unfold get_ports_range in H. rewrite Hport in H.
      destruct dst as [d nsl|bl]; [|discriminate].
      destruct (pod_named_port (p_ports d) nm) as [[q m]|].
      * destruct (proto_eqb q (pp_proto pp)); cbn [bind] in H;
          (destruct (np_ports_contain t (PPod d nsl) pr n) as [rest|] eqn:Hr; cbn [bind] in H; [|discriminate]);
          injection H as <-; rewrite (IH rest eq_refl); f_equal; unfold rule_port_contains;
          destruct (proto_eqb (pp_proto pp) pr); cbn [andb]; try reflexivity; try lia.
      * cbn [bind] in H. destruct (np_ports_contain t (PPod d nsl) pr n) as [rest|] eqn:Hr; cbn [bind] in H; [|discriminate].
        injection H as <-. rewrite (IH rest eq_refl). f_equal; unfold rule_port_contains;
        destruct (proto_eqb (pp_proto pp) pr); reflexivity.
Qed.

Lemma np_rule_contains_ok ports dst pr n b :
  np_rule_contains ports dst pr n = Ok b -> b = s_np_rule_ports ports dst pr n.
Proof.
  unfold np_rule_contains, s_np_rule_ports. destruct ports; [intros H; inversion H; reflexivity|].
  apply np_ports_contain_ok.
Qed.

Lemma np_rules_allow_ok npns rules other dst pr n : forall b,
  np_rules_allow npns rules other dst pr n = Ok b ->
  b = existsb (fun r => s_np_rule npns r other dst pr n) rules.
Proof.
  induction rules as [|r t IH]; intros b H; cbn [np_rules_allow] in H.
  - inversion H; reflexivity.
  - cbn [existsb]. unfold s_np_rule at 1.
    destruct (np_rule_selects npns (nr_peers r) other) as [sel|] eqn:Hs; cbn [bind] in H; [|discriminate].
    apply np_rule_selects_ok in Hs. rewrite <- Hs.
    destruct sel; cbn [negb andb] in *; [|apply IH; exact H].
    destruct (np_rule_contains (nr_ports r) dst pr n) as [c|] eqn:Hc; cbn [bind] in H; [|discriminate].
    apply np_rule_contains_ok in Hc. rewrite <- Hc.
    destruct (np_rules_allow npns t other dst pr n) as [rest|] eqn:Hr; cbn [bind] in H; [|discriminate].
    injection H as <-. rewrite (IH rest eq_refl). reflexivity.
Qed.

Lemma np_policy_allows_ok np src dst ingress pr n b :
  np_policy_allows np src dst ingress pr n = Ok b -> b = s_np_policy_allows np src dst ingress pr n.
Proof.
  unfold np_policy_allows, s_np_policy_allows. destruct ingress; apply np_rules_allow_ok.
Qed.

Lemma nps_allow_ok sel src dst ingress pr n : forall b,
  nps_allow sel src dst ingress pr n = Ok b ->
  b = existsb (fun np => s_np_policy_allows np src dst ingress pr n) sel.
Proof.
  induction sel as [|np t IH]; intros b H; cbn [nps_allow] in H.
  - inversion H; reflexivity.
  - cbn [existsb].
    destruct (np_policy_allows np src dst ingress pr n) as [a|] eqn:Ha; cbn [bind] in H; [|discriminate].
    apply np_policy_allows_ok in Ha. rewrite <- Ha.
    destruct (nps_allow t src dst ingress pr n) as [rest|] eqn:Hr; cbn [bind] in H; [|discriminate].
    injection H as <-. rewrite (IH rest eq_refl). reflexivity.
Qed.

Lemma np_layer_point_ok w src dst ingress pr n r :
  np_layer_point w src dst ingress pr n = Ok r -> r = s_np_layer w src dst ingress pr n.
Proof.
  unfold np_layer_point, s_np_layer. destruct (if ingress then dst else src) as [p nsl|bl].
  - destruct (selecting_nps (w_nps w) p _) as [sel|] eqn:Hs; cbn [bind]; [|discriminate].
    apply selecting_nps_ok in Hs. rewrite <- Hs. destruct sel as [|np t]; [intros H; inversion H; reflexivity|].
    destruct (nps_allow (np :: t) src dst ingress pr n) as [a|] eqn:Ha; cbn [bind]; [|discriminate].
    apply nps_allow_ok in Ha. intros H; inversion H. rewrite Ha. reflexivity.
  - intros H; inversion H; reflexivity.
Qed.

Lemma admin_ports_contain_ok ports dst pr n : forall b,
  admin_ports_contain ports dst pr n = Ok b ->
  b = existsb (fun ap => s_admin_port_matches ap dst pr n) ports.
Proof.
  induction ports as [|ap t IH]; intros b H; cbn [admin_ports_contain] in H.
  - inversion H; reflexivity.
  - cbn [existsb]. destruct ap as [p a|p lo hi|nm|]; cbn [s_admin_port_matches]; [| | |discriminate].
    + unfold rule_port_contains in H. replace ((a <=? n) && (n <=? a)) with (a =? n) in H by lia.
      destruct (proto_eqb p pr && (a =? n)); [inversion H; reflexivity | apply IH; exact H].
    + unfold rule_port_contains in H. rewrite <- andb_assoc.
      destruct (proto_eqb p pr && ((lo <=? n) && (n <=? hi))); [inversion H; reflexivity | apply IH; exact H].
    + destruct dst as [d nsl|bl]; [|apply IH; exact H].
      destruct (pod_named_port (p_ports d) nm) as [[q m]|]; [|apply IH; exact H].
      unfold rule_port_contains in H. replace ((m <=? n) && (n <=? m)) with (m =? n) in H by lia.
      destruct (proto_eqb q pr && (m =? n)); [inversion H; reflexivity | apply IH; exact H].
Qed.

Definition verdict_of_res (r : rule_res) : verdict :=
  match r with RNotCaptured => VNone | RPass => VPass | RAllow => VAllow | RDeny => VDeny end.

Lemma admin_rules_check_ok rules other dst is_banp pr n : forall r,
  admin_rules_check rules other dst is_banp pr n = Ok r ->
  s_rules_verdict rules other dst pr n = verdict_of_res r /\ (is_banp = true -> r <> RPass).
Proof.
  induction rules as [|ru t IH]; intros r H; cbn [admin_rules_check] in H.
  - inversion H; subst. split; [reflexivity | discriminate].
  - cbn [s_rules_verdict]. unfold s_admin_rule_matches.
    destruct (ar_peers ru) as [|ap0 aps] eqn:Hp; [discriminate|]. rewrite <- Hp in *.
    destruct (admin_peers_select (ar_peers ru) other) as [sel|] eqn:Hs; cbn [bind] in H; [|discriminate].
    apply admin_peers_select_ok in Hs. rewrite <- Hs.
    destruct sel; cbn [negb andb] in *; [|apply IH; exact H].
    destruct (admin_rule_contains (ar_ports ru) dst pr n) as [c|] eqn:Hc; cbn [bind] in H; [|discriminate].
    assert (Hc' : c = match ar_ports ru with None => true | Some l => existsb (fun ap => s_admin_port_matches ap dst pr n) l end).
    { unfold admin_rule_contains in Hc. destruct (ar_ports ru); [apply admin_ports_contain_ok; exact Hc | inversion Hc; reflexivity]. }
    rewrite <- Hc'. destruct c; cbn [negb] in H; [|apply IH; exact H].
    unfold res_of_action in H. destruct (ar_action ru); try discriminate.
    + inversion H; subst. split; [reflexivity | discriminate].
    + inversion H; subst. split; [reflexivity | discriminate].
    + destruct is_banp; [discriminate|]. inversion H; subst. split; [reflexivity | discriminate].
Qed.

Lemma anps_check_ok anps src dst ingress pr n : forall r,
  anps_check anps src dst ingress pr n = Ok r ->
  match s_anps_verdict anps src dst ingress pr n with
  | VAllow => r = Some true
  | VDeny => r = Some false
  | VPass | VNone => r = None
  end.
Proof.
  induction anps as [|a t IH]; intros r H; cbn [anps_check] in H.
  - inversion H; reflexivity.
  - cbn [s_anps_verdict]. set (rules := if ingress then a_in a else a_eg a) in *.
    destruct (admin_selects (a_subject a) rules (if ingress then dst else src)) as [sel|] eqn:Hs; cbn [bind] in H; [|discriminate].
    apply admin_selects_ok in Hs. rewrite <- Hs.
    destruct sel; cbn [negb] in H; [|apply IH; exact H].
    destruct (admin_rules_check rules (if ingress then src else dst) dst false pr n) as [rr|] eqn:Hr; cbn [bind] in H; [|discriminate].
    destruct (admin_rules_check_ok _ _ _ _ _ _ _ Hr) as [Hv _]. rewrite Hv.
    destruct rr; cbn [verdict_of_res]; try (inversion H; reflexivity). apply IH; exact H.
Qed.

Lemma banp_check_ok w src dst ingress pr n b :
  banp_check w src dst ingress pr n = Ok b -> b = s_banp_allows w src dst ingress pr n.
Proof.
  unfold banp_check, s_banp_allows. destruct (w_banp w) as [bp|]; [|intros H; inversion H; reflexivity].
  set (rules := if ingress then b_in bp else b_eg bp).
  destruct (admin_selects (b_subject bp) rules (if ingress then dst else src)) as [sel|] eqn:Hs; cbn [bind]; [|discriminate].
  apply admin_selects_ok in Hs. rewrite <- Hs.
  destruct sel; cbn [negb]; [|intros H; inversion H; reflexivity].
  destruct (admin_rules_check rules (if ingress then src else dst) dst true pr n) as [rr|] eqn:Hr; cbn [bind]; [|discriminate].
  destruct (admin_rules_check_ok _ _ _ _ _ _ _ Hr) as [Hv _]. rewrite Hv.
  destruct rr; cbn [verdict_of_res]; intros H; inversion H; reflexivity.
Qed.

Theorem xgress_allowed_ok w src dst ingress pr n b :
  xgress_allowed w src dst ingress pr n = Ok b -> b = s_dir_allows w src dst ingress pr n.
Proof.
  unfold xgress_allowed, s_dir_allows.
  destruct (anps_check (w_anps w) src dst ingress pr n) as [a|] eqn:Ha; cbn [bind]; [|discriminate].
  apply anps_check_ok in Ha.
  assert (Hrest : a = None ->
          (do np <- np_layer_point w src dst ingress pr n;
           match np with Some b0 => Ok b0 | None => banp_check w src dst ingress pr n end) = Ok b ->
          b = match s_np_layer w src dst ingress pr n with Some b0 => b0 | None => s_banp_allows w src dst ingress pr n end).
  { intros _ H. destruct (np_layer_point w src dst ingress pr n) as [np|] eqn:Hn; cbn [bind] in H; [|discriminate].
    apply np_layer_point_ok in Hn. rewrite <- Hn. destruct np; [inversion H; reflexivity | apply banp_check_ok; exact H]. }
  destruct (s_anps_verdict (w_anps w) src dst ingress pr n); subst a;
    try (intros H; inversion H; reflexivity); apply Hrest; reflexivity.
Qed.

(* eval answers, whenever it answers, exactly what the semantics say *)
Theorem check_allowed_ok w src dst pr n b :
  check_allowed w src dst pr n = Ok b -> b = (pod_to_itself src dst || s_allows w src dst pr n).
Proof.
  unfold check_allowed, s_allows. destruct (pod_to_itself src dst); [intros H; inversion H; reflexivity|]. cbn [orb].
  destruct (xgress_allowed w src dst false pr n) as [eg|] eqn:He; cbn [bind]; [|discriminate].
  apply xgress_allowed_ok in He. rewrite <- He.
  destruct eg; cbn [negb andb]; [apply xgress_allowed_ok | intros H; inversion H; reflexivity].
Qed.

(* eval = list: the answer of the rule walkers is membership in the set the list computes *)
Theorem eval_eq_list w src dst pr n b c :
  peer_okb dst = true -> world_okb w = true -> valid_port n = true ->
  check_allowed w src dst pr n = Ok b -> all_conns w src dst = Ok c ->
  b = cs_denote c pr n.
Proof.
  intros Hd Hw Hv Hb Hc. apply check_allowed_ok in Hb.
  destruct (all_conns_ok _ _ _ _ Hd Hw Hc) as [_ Hden]. rewrite Hden, Hv, Hb. reflexivity.
Qed.

Theorem self_allowed w src dst pr n :
  pod_to_itself src dst = true -> check_allowed w src dst pr n = Ok true.
Proof. unfold check_allowed. intros ->. reflexivity. Qed.
