(* DiffDot.v — the dot output of `diff`, byte for byte (diff_formatter_dot.go, internal/dotformatting), as a function of the
   ConnectivityDiff (all four categories, unchanged included) and of the peers (string, external?, label name[Kind],
   namespace).  Names dir1/dir2.  A node is declared once, coloured by whether the workload is new (green), lost (red) or
   persistent (blue): the formatter takes the colour from the first entry that mentions the peer, and every entry of a new
   (lost) workload is an added (removed) one carrying the flag, so the colour is a function of the peer.  The legend is a
   constant block.  Every group of lines is sorted, so only the set of visited peers matters.  Executable definitions only. *)
From Coq Require Import List ZArith Bool String Ascii.
From NP Require Import IntervalSet ConnSet World Build Connlist Diff Format.
Import ListNotations.
Open Scope list_scope.
Open Scope string_scope.

Definition ref1_name : string := "dir1".

Definition peer_is_new (d : list dentry) (s : string) : bool :=
  existsb (fun e => dtype_eqb (de_type e) DAdded &&
                    ((String.eqb (rpeer_str (de_src e)) s && de_src_flag e) || (String.eqb (rpeer_str (de_dst e)) s && de_dst_flag e))) d.
Definition peer_is_lost (d : list dentry) (s : string) : bool :=
  existsb (fun e => dtype_eqb (de_type e) DRemoved &&
                    ((String.eqb (rpeer_str (de_src e)) s && de_src_flag e) || (String.eqb (rpeer_str (de_dst e)) s && de_dst_flag e))) d.
Definition node_color (d : list dentry) (s : string) : string :=
  if peer_is_new d s then "#008000" else if peer_is_lost d s then "red" else "blue".

Definition ddot_peer_line (d : list dentry) (p : dpeer) : string :=
  let col := node_color d (dp_str p) in
  tab ++ qq (dp_str p) ++ " [label=" ++ qq (if dp_ext p then dp_str p else dp_label p)
      ++ " color=" ++ qq col ++ " fontcolor=" ++ qq col ++ "]".

Definition ddot_edge_line (e : dentry) : string :=
  let r := drow_of e in
  let '(label, col) :=
    match de_type e with
    | DUnchanged => (dr_c1 r, "grey")
    | DChanged => (dr_c2 r ++ " (" ++ ref1_name ++ ": " ++ dr_c1 r ++ ")", "magenta")
    | DRemoved => (dr_c1 r, "red2")
    | DAdded => (dr_c2 r, "#008000")
    end in
  tab ++ qq (dr_src r) ++ " -> " ++ qq (dr_dst r) ++ " [label=" ++ qq label
      ++ " color=" ++ qq col ++ " fontcolor=" ++ qq col ++ " weight="
      ++ (if String.leb (dr_src r) (dr_dst r) then "0.5" else "1") ++ "]".

Definition ddot_ns_group (d : list dentry) (visited : list dpeer) (ns : string) : list string :=
  [tab ++ "subgraph " ++ qq ("cluster_" ++ dash_to_underscore ns) ++ " {";
   tab ++ tab ++ "color=" ++ qq "black"; tab ++ tab ++ "fontcolor=" ++ qq "black"]
  ++ strsort (map (fun p => tab ++ ddot_peer_line d p)
                  (filter (fun p => negb (dp_ext p) && String.eqb (dp_ns p) ns) visited))
  ++ [tab ++ tab ++ "label=" ++ qq ns; tab ++ "}"].

Definition tt2 : string := tab ++ tab.
Definition legend_lines : list string :=
  [tab ++ "nodesep=0.5"; tab ++ "subgraph cluster_legend {"; tt2 ++ "label=" ++ qq "Legend"; tt2 ++ "fontsize = 10"; tt2 ++ "margin=0"]
  ++ map (fun x => tt2 ++ x ++ " [style=invis height=0 width=0]") ["a"; "b"; "c"; "d"; "e"; "f"; "g"; "h"]
  ++ [tt2 ++ "{rank=source a b c d}"; tt2 ++ "{rank=same e f g h}";
      tt2 ++ "a -> b [label=" ++ qq "added connection" ++ ", color=" ++ qq "#008000" ++ " fontcolor=" ++ qq "#008000" ++ " fontsize = 10 arrowsize=0.2]";
      tt2 ++ "c -> d [label=" ++ qq "removed connection" ++ ", color=" ++ qq "red2" ++ " fontcolor=" ++ qq "red2" ++ " fontsize = 10 arrowsize=0.2]";
      tt2 ++ "e -> f [label=" ++ qq "changed connection" ++ ", color=" ++ qq "magenta" ++ " fontcolor=" ++ qq "magenta" ++ " fontsize = 10 arrowsize=0.2]";
      tt2 ++ "g -> h [label=" ++ qq "unchanged connection" ++ ", color=" ++ qq "grey" ++ " fontcolor=" ++ qq "grey" ++ " fontsize = 10 arrowsize=0.2]";
      tt2 ++ "np [label=" ++ qq "new peer" ++ " color=" ++ qq "#008000" ++ " fontcolor=" ++ qq "#008000" ++ " fontsize = 10]";
      tt2 ++ "lp [label=" ++ qq "lost peer" ++ " color=" ++ qq "red" ++ " fontcolor=" ++ qq "red" ++ " fontsize = 10]";
      tt2 ++ "pp [label=" ++ qq "persistent peer" ++ " color=" ++ qq "blue" ++ " fontcolor=" ++ qq "blue" ++ " fontsize = 10]";
      tt2 ++ "{rank=sink np lp pp}"; tt2 ++ "np->lp [style=invis]"; tt2 ++ "lp->pp [style=invis]"; tab ++ "}"].

Definition ddot_strs (d : list dentry) : list string :=
  flat_map (fun e => [rpeer_str (de_src e); rpeer_str (de_dst e)]) d.

Definition diff_dot (d : list dentry) (ps : list dpeer) : string :=
  if diff_is_empty d then "" else
  let visited := map (dot_lookup ps) (dedup_adj (strsort (ddot_strs d))) in
  let nss := dedup_adj (strsort (map dp_ns (filter (fun p => negb (dp_ext p)) visited))) in
  join nl (["digraph {"] ++ flat_map (ddot_ns_group d visited) nss
           ++ strsort (map (ddot_peer_line d) (filter dp_ext visited))
           ++ strsort (map ddot_edge_line (filter (fun e => negb (is_ic e)) d))
           ++ strsort (map ddot_edge_line (filter is_ic d))
           ++ legend_lines ++ ["}"]).

Record ddot_case := mkDDot { dd_id : nat; dd_diff : list dentry; dd_peers : list dpeer; dd_dot : string }.
Definition ddot_mismatches (cs : list ddot_case) : list (nat * nat) :=
  flat_map (fun c => if String.eqb (dd_dot c) (diff_dot (dd_diff c) (dd_peers c)) then [] else [(dd_id c, 6%nat)]) cs.
