# C13 — bad or irrelevant documents are reported and never skew the result.
# Worlds with injected junk: documents of kinds the analysis does not use, resources that fail schema conversion, non-manifest
# and syntactically broken files, at every placement (inside an existing file at a random position for other-kind / schema-bad
# documents, as separate files for broken ones) x {stopOnError off, on} x {list, diff}.  Oracle: the real run on the clean input.
import copy, json, os
from .lib import core, gen, listcorr, meta

OTHER_KIND = [
    {'apiVersion': 'v1', 'kind': 'ConfigMap', 'metadata': {'name': 'cm', 'namespace': 'ns1'}, 'data': {'k': 'v'}},
    {'apiVersion': 'v1', 'kind': 'Secret', 'metadata': {'name': 'sec'}, 'type': 'Opaque'},
    {'apiVersion': 'v1', 'kind': 'ServiceAccount', 'metadata': {'name': 'sa', 'namespace': 'ns2'}},
    {'apiVersion': 'rbac.authorization.k8s.io/v1', 'kind': 'ClusterRole', 'metadata': {'name': 'cr'}, 'rules': []},
    {'apiVersion': 'example.com/v1', 'kind': 'Widget', 'metadata': {'name': 'w'}, 'spec': {'podSelector': {}, 'ingress': []}},
]
SCHEMA_BAD = [
    {'apiVersion': 'apps/v1', 'kind': 'Deployment', 'metadata': {'name': 'bad1', 'namespace': 'ns1'}, 'spec': {'replicas': 'three', 'template': {'metadata': {'labels': {'app': 'q'}}}}},
    {'apiVersion': 'networking.k8s.io/v1', 'kind': 'NetworkPolicy', 'metadata': {'name': 'badnp', 'namespace': 'ns1'}, 'spec': {'podSelector': 'all', 'ingress': 'none'}},
    {'apiVersion': 'v1', 'kind': 'Pod', 'metadata': {'name': 'badpod', 'namespace': 'ns1', 'labels': ['a', 'b']}, 'spec': {'containers': 'x'}},
    {'apiVersion': 'v1', 'kind': 'Service', 'metadata': {'name': 'badsvc', 'namespace': 'ns1'}, 'spec': {'ports': 'http'}},
]
BROKEN_FILES = [('broken1.yaml', 'kind: Deployment\nmetadata: {name: x\n  spec: [unclosed\n'),
                ('broken2.json', '{"kind": "Pod", "metadata": {"name": '),
                ('broken3.yaml', 'a: b: c: d\n\t- x\n'),
                ('notmanifest.yaml', 'just some text that is not a manifest\n'),
                ('list.yaml', '- a\n- b\n')]
IGNORED_FILES = [('README.md', '# not yaml\n'), ('notes.txt', 'kind: Deployment\n')]


def conns_key(o):
    return sorted(json.dumps(e, sort_keys=True) for e in o['conns'])


def main(tier):
    run = core.Run('C13', tier)
    run.cov['rule'] = ('random worlds x junk injection: other-kind documents and schema-bad resources inserted at random document positions of existing files or as separate files, '
                       'syntactically broken / non-manifest files as separate files, files with ignored extensions; each x {stopOnError off, on} x {list, diff}; oracle = the real run on the clean input: '
                       'same connections, a severe entry in Errors() per malformed document or unreadable file, with stop-on-error no partial report; '
                       'non-trivial = clean analysis succeeds with a non-empty report and at least one malformed item was injected; distinct by (scenario, junk set, placement)')
    run.stage_proofs()
    b = core.build_go(['verifapi'], run.log)
    if not b['verifapi'][0]:
        run.proof_ok = False
        run.proof_notes.append('harness verifapi does not build against this tree: ' + b['verifapi'][1][-600:])
        return run.finish()
    n = 400 if tier == 'quick' else 3000
    h = listcorr.Harness()
    try:
        shard, k = 60, 0
        while k < n and len(run.violations) < 3:
            cmds, metas = [], []
            for i in range(min(shard, n - k)):
                cid = k + i
                r = run.rng
                W = gen.gen_world(r, anp=(cid % 5 == 0))
                clean = [m for m, _ in gen.docs(W)]
                r.shuffle(clean)
                dclean = h.dir_for('c%d' % cid)
                gen.write_dir(dclean, clean)
                # junk
                other = r.sample(OTHER_KIND, r.randint(0, 3))
                bad = r.sample(SCHEMA_BAD, r.randint(0, 2)) if r.random() < 0.7 else []
                broken = r.sample(BROKEN_FILES, r.randint(0, 2)) if r.random() < 0.5 else []
                ignored = r.sample(IGNORED_FILES, r.randint(0, 1))
                docs = list(clean)
                pair = list(bad) if len(bad) == 2 and r.random() < 0.6 else []      # two malformed documents in ONE file: both must be reported
                inline = other + ([] if pair else bad)
                r.shuffle(inline)
                separate = []
                for d in inline:
                    if r.random() < 0.6 and docs:
                        docs.insert(r.randrange(len(docs) + 1), d)
                    else:
                        separate.append(d)
                djunk = h.dir_for('j%d' % cid)
                files, i0 = [], 0
                while i0 < len(docs):
                    kk = r.randint(1, 3)
                    files.append(list(range(i0, min(len(docs), i0 + kk))))
                    i0 += kk
                gen.write_dir(djunk, docs, files)
                for si, d in enumerate(separate):
                    with open(os.path.join(djunk, 'zsep%d.yaml' % si), 'w') as f:
                        f.write(json.dumps(d, indent=1) + '\n')
                if pair:
                    with open(os.path.join(djunk, 'zpair.yaml'), 'w') as f:
                        f.write('\n'.join('---\n' + json.dumps(d, indent=1) for d in pair) + '\n')
                for name, text in broken + ignored:
                    sub = os.path.join(djunk, 'sub') if r.random() < 0.3 else djunk
                    os.makedirs(sub, exist_ok=True)
                    with open(os.path.join(sub, name), 'w') as f:
                        f.write(text)
                # a decodable document whose content the analysis rejects (a Service whose selector holds an illegal label value)
                dfatal = h.dir_for('f%d' % cid)
                gen.write_dir(dfatal, clean + [{'apiVersion': 'v1', 'kind': 'Service', 'metadata': {'name': 'svcbad', 'namespace': W['workloads'][0]['ns']},
                                                'spec': {'selector': {'app': 'not a legal value!'}, 'ports': [{'port': 80}]}}])
                cmds += [{'id': 'c', 'cmd': 'list', 'dir': dclean}, {'id': 'j', 'cmd': 'list', 'dir': djunk}, {'id': 'js', 'cmd': 'list', 'dir': djunk, 'stop': True},
                         {'id': 'd', 'cmd': 'diff', 'dir': djunk, 'dir2': dclean}, {'id': 'ds', 'cmd': 'diff', 'dir': djunk, 'dir2': dclean, 'stop': True},
                         {'id': 'cs', 'cmd': 'list', 'dir': dclean, 'stop': True},
                         {'id': 'd2', 'cmd': 'diff', 'dir': dclean, 'dir2': djunk}, {'id': 'd2s', 'cmd': 'diff', 'dir': dclean, 'dir2': djunk, 'stop': True},
                         {'id': 'f', 'cmd': 'list', 'dir': dfatal}]
                metas.append((cid, W, other, bad, broken, ignored))
            outs = h.run(cmds)
            for j, (cid, W, other, bad, broken, ignored) in enumerate(metas):
                oc, oj, ojs, od, ods, ocs, od2, od2s, of = outs[9 * j: 9 * j + 9]
                run.count(1)
                nmal = len(bad) + len(broken)
                run.dist('malformed:%d' % nmal)
                run.dist('other-kind:%d' % len(other))
                payload = {'kind': 'junk', 'world': W, 'other_kind': other, 'schema_bad': bad, 'broken_files': broken, 'ignored_files': ignored,
                           'how': 'the clean manifests of `world` vs the same plus the listed junk documents/files; k8snetpolicy list [--fail] / diff'}
                if any(o['outcome'] == 'panic' for o in (oj, ojs, od, ods, od2, od2s, of)):
                    run.report(None, 'panic-%d' % cid, payload, 'panic on junk input')
                    continue
                if oc['outcome'] != 'ok':
                    # the clean input itself cannot be analysed (fatal): the junk run must not produce a result either
                    if oj['outcome'] == 'ok' and oj['conns']:
                        run.report(None, 'fatal-%d' % cid, dict(payload, clean_error=oc.get('err')), 'a fatal error on the clean input but a report with junk added')
                    continue
                if oc['conns'] and nmal:
                    run.nontrivial([W, other, bad, [x[0] for x in broken]])
                # 1. junk never changes the connections
                if oj['outcome'] != 'ok' or conns_key(oj) != conns_key(oc):
                    run.report(None, 'skew-%d' % cid, dict(payload, clean=oc['conns'], with_junk=oj.get('conns'), error=oj.get('err'), errors=oj['errors']),
                               'adding irrelevant / malformed documents changes the computed connections')
                    continue
                # 2. every malformed document / unreadable file is reported as severe
                sev = [e for e in oj['errors'] if e['sev'] == 'severe']
                if len(sev) < nmal:
                    run.report(None, 'unreported-%d' % cid, dict(payload, errors=oj['errors'], expected_severe=nmal),
                               'a malformed document or unreadable file does not appear in Errors() with severity severe')
                    continue
                if nmal == 0 and any(e['sev'] in ('severe', 'fatal') for e in oj['errors']) and not any(e['sev'] in ('severe', 'fatal') for e in oc['errors']):
                    run.report(None, 'spurious-%d' % cid, dict(payload, errors=oj['errors']), 'documents of unused kinds are reported as errors')
                    continue
                # 3. stop-on-first-error: a severe error yields no connections (empty result or an error), never a partial report
                if nmal and ojs['outcome'] == 'ok' and ojs['conns']:
                    run.report(None, 'partial-%d' % cid, dict(payload, with_stop=ojs['conns'], errors=ojs['errors']), 'stop-on-error with a severe error still returns connections')
                    continue
                # 3b. stop-on-first-error without any severe error changes nothing
                if not any(e['sev'] in ('severe', 'fatal') for e in oc['errors']):
                    if ocs['outcome'] != 'ok' or conns_key(ocs) != conns_key(oc) or any(e['sev'] in ('severe', 'fatal') for e in ocs['errors']):
                        run.report(None, 'stopclean-%d' % cid, dict(payload, clean=oc['conns'], clean_with_stop=ocs.get('conns'), errors=ocs['errors']),
                                   'stop-on-error on an input without any severe error does not give the report of the same input without the option')
                        continue
                # 4. diff(junk, clean) has no change; with stop and a severe error: no diff entries
                if od['outcome'] == 'ok' and not od.get('diff_nil') and any(od['diff'].get(t) for t in ('added', 'removed', 'changed')):
                    run.report(None, 'diffskew-%d' % cid, dict(payload, diff=od['diff']), 'diff between the input with junk and the clean input is not empty')
                    continue
                if od['outcome'] != 'ok':
                    run.report(None, 'difffail-%d' % cid, dict(payload, error=od.get('err')), 'diff fails although only irrelevant / malformed documents were added')
                    continue
                if nmal and ods['outcome'] == 'ok' and not ods.get('diff_nil') and any(ods['diff'].get(t) for t in ('added', 'removed', 'changed', 'unchanged')):
                    run.report(None, 'diffpartial-%d' % cid, dict(payload, diff=ods['diff']), 'diff with stop-on-error and a severe error still returns entries')
                    continue
                # 5. the same with the junk on the second side of the diff
                if od2['outcome'] == 'ok' and not od2.get('diff_nil') and any(od2['diff'].get(t) for t in ('added', 'removed', 'changed')):
                    run.report(None, 'diffskew2-%d' % cid, dict(payload, diff=od2['diff']), 'diff between the clean input and the input with junk is not empty')
                    continue
                if od2['outcome'] != 'ok':
                    run.report(None, 'difffail2-%d' % cid, dict(payload, error=od2.get('err')), 'diff fails although only irrelevant / malformed documents were added to the second directory')
                    continue
                if len([e for e in od2['errors'] if e['sev'] == 'severe']) < nmal:
                    run.report(None, 'diffunreported2-%d' % cid, dict(payload, errors=od2['errors'], expected_severe=nmal),
                               'a malformed document or unreadable file of the second directory does not appear in the diff analyzer\'s Errors() with severity severe')
                    continue
                if nmal and od2s['outcome'] == 'ok' and not od2s.get('diff_nil') and any(od2s['diff'].get(t) for t in ('added', 'removed', 'changed', 'unchanged')):
                    run.report(None, 'diffpartial2-%d' % cid, dict(payload, diff=od2s['diff']), 'diff with stop-on-error and a severe error in the second directory still returns entries')
                    continue
                # 6. a fatal entry in Errors() never comes with connections
                for o_, nm in ((oj, 'junk'), (of, 'rejected-service')):
                    if o_['outcome'] == 'ok' and o_.get('conns') and any(e['sev'] == 'fatal' for e in o_['errors']):
                        run.report(None, 'fatalconns-%d' % cid, dict(payload, which=nm, errors=o_['errors'], conns=o_['conns'][:5]),
                                   'Errors() holds a fatal error but connections were returned without an error')
                        break
            run.cov['traces_validated_against_impl'] += len(metas)
            if k == 0 and metas:
                run.sample({'other_kind': [d['kind'] for d in metas[0][2]], 'schema_bad': [d['kind'] for d in metas[0][3]], 'broken_files': [x[0] for x in metas[0][4]]})
            k += shard
    finally:
        h.close()
    return run.finish()


def replay(payload):
    run = core.Run('C13', 'quick')
    run.stage_proofs()
    run.count(1)
    print('replay: see payload (world + junk lists); rerun the check with the recorded seed to reproduce')
    return run.finish()
