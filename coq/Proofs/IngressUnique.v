(* at most one {ingress-controller} line and at most one blocked-ingress warning per workload *)
From Coq Require Import List ZArith Bool String Lia.
From NP Require Import IntervalSet ConnSet World Eval Build Connlist ReexpressProofs Ingress IngressProofs.
Import ListNotations.
Open Scope list_scope.

Inductive subseq {A} : list A -> list A -> Prop :=
| sub_nil : subseq [] []
| sub_skip x l1 l2 : subseq l1 l2 -> subseq l1 (x :: l2)
| sub_take x l1 l2 : subseq l1 l2 -> subseq (x :: l1) (x :: l2).

Lemma subseq_in {A} (l1 l2 : list A) x : subseq l1 l2 -> In x l1 -> In x l2.
Proof.
  intros Hs. induction Hs as [|y l1 l2 Hs IH|y l1 l2 Hs IH]; intros Hin.
  - destruct Hin.
  - right. apply IH. exact Hin.
  - destruct Hin as [Hin|Hin]; [left; exact Hin|right; apply IH; exact Hin].
Qed.
Lemma subseq_nodup {A} (l1 l2 : list A) : subseq l1 l2 -> NoDup l2 -> NoDup l1.
Proof.
  intros Hs. induction Hs as [|y l1 l2 Hs IH|y l1 l2 Hs IH]; intros Hnd.
  - constructor.
  - inversion Hnd; subst. apply IH. assumption.
  - inversion Hnd as [|z zs Hnotin Hnd']; subst. constructor; [|apply IH; exact Hnd'].
    intros Hin. apply Hnotin. apply (subseq_in _ _ _ Hs Hin).
Qed.
Lemma subseq_refl {A} (l : list A) : subseq l l.
Proof. induction l; constructor; assumption. Qed.

Lemma ing_targets_keys strict wls ia : subseq (map it_key (ing_targets strict wls ia)) (map fst wls).
Proof.
  unfold ing_targets. induction wls as [|e t IH]; cbn [flat_map map]; [constructor|].
  destruct (opt_union (kind_conn (negb strict) ia (ia_ings ia) (fst e)) (kind_conn true ia (ia_routes ia) (fst e))); cbn [app map it_key].
  - apply sub_take. exact IH.
  - apply sub_skip. exact IH.
Qed.

Lemma ingress_lines_keys w focus ts : forall es ws,
  ingress_lines w focus ts = Ok (es, ws) ->
  subseq (map re_dst es) (map (fun t => RW (it_key t)) ts) /\ subseq (map iw_peer ws) (map it_key ts).
Proof.
  induction ts as [|t rest IH]; intros es ws H; cbn [ingress_lines] in H.
  - inversion H; subst. split; constructor.
  - cbn [map]. destruct (include_pair focus ingress_mpeer _).
    + destruct (pod_peer w (it_pod t)) as [dp|e]; cbn [bind] in H; [|discriminate H].
      destruct (all_conns w (ingress_peer w) dp) as [pc|e]; cbn [bind] in H; [|discriminate H].
      destruct (ingress_lines w focus rest) as [[es0 ws0]|e]; cbn [bind fst snd] in H; [|discriminate H].
      destruct (IH es0 ws0 eq_refl) as [I1 I2].
      destruct (cs_isempty (cs_inter (it_conn t) pc)); inversion H; subst es ws; cbn [map re_dst].
      * split; [apply sub_skip; exact I1|]. destruct (it_ings t); cbn [iw_peer]; apply sub_take; exact I2.
      * split; [apply sub_take; exact I1|apply sub_skip; exact I2].
    + destruct (IH es ws H) as [I1 I2]. split; apply sub_skip; assumption.
Qed.

Theorem one_ingress_line_per_workload strict w ios focus es ws :
  ingress_lines w focus (ing_targets strict (workloads_of (w_pods w) []) (analyze (workloads_of (w_pods w) []) ios)) = Ok (es, ws) ->
  NoDup (map re_dst es) /\ NoDup (map iw_peer ws).
Proof.
  intros H. destruct (ingress_lines_keys _ _ _ _ _ H) as [I1 I2].
  pose proof (ing_targets_keys strict (workloads_of (w_pods w) []) (analyze (workloads_of (w_pods w) []) ios)) as K.
  pose proof (one_peer_per_workload (w_pods w)) as Hnd.
  pose proof (subseq_nodup _ _ K Hnd) as Hk.
  split.
  - apply (subseq_nodup _ _ I1). rewrite <- (map_map it_key RW). apply FinFun.Injective_map_NoDup; [|exact Hk].
    intros a b Hab. inversion Hab. reflexivity.
  - apply (subseq_nodup _ _ I2 Hk).
Qed.
