(* DiffDotProofs.v — the dot output of `diff` is a function of the multiset of diff entries and of the set of peers. *)
From Coq Require Import List ZArith Bool String Ascii Lia Permutation.
From NP Require Import IntervalSet ConnSet World Build Connlist Diff Format DiffDot SortGeneric FormatProofs DotProofs.
Import ListNotations.
Open Scope string_scope.

Lemma existsb_perm {A} (f : A -> bool) a b : Permutation a b -> existsb f a = existsb f b.
Proof.
  intros P. induction P as [|x l1 l2 P IH|x y l1|l1 l2 l3 P1 IH1 P2 IH2]; cbn [existsb];
    [reflexivity|rewrite IH; reflexivity|destruct (f x), (f y); reflexivity|congruence].
Qed.

Lemma node_color_perm d d' s : Permutation d d' -> node_color d s = node_color d' s.
Proof. intros P. unfold node_color, peer_is_new, peer_is_lost. rewrite !(existsb_perm _ _ _ P). reflexivity. Qed.

Lemma ddot_peer_line_perm d d' p : Permutation d d' -> ddot_peer_line d p = ddot_peer_line d' p.
Proof. intros P. unfold ddot_peer_line. rewrite (node_color_perm d d' _ P). reflexivity. Qed.

Lemma ddot_ns_group_perm d d' v ns : Permutation d d' -> ddot_ns_group d v ns = ddot_ns_group d' v ns.
Proof.
  intros P. unfold ddot_ns_group. f_equal. f_equal. f_equal. apply map_ext. intros p. rewrite (ddot_peer_line_perm d d' p P). reflexivity.
Qed.

Theorem diff_dot_perm_invariant d d' ps ps' :
  Permutation d d' -> Permutation ps ps' -> NoDup (map dp_str ps) -> diff_dot d ps = diff_dot d' ps'.
Proof.
  intros Pd Pp Hn. unfold diff_dot. rewrite (diff_is_empty_perm d d' Pd). destruct (diff_is_empty d'); [reflexivity|].
  assert (S : strsort (ddot_strs d) = strsort (ddot_strs d')).
  { apply strsort_perm_invariant. unfold ddot_strs. apply flat_map_perm. exact Pd. }
  rewrite S.
  assert (V : map (dot_lookup ps) (dedup_adj (strsort (ddot_strs d'))) = map (dot_lookup ps') (dedup_adj (strsort (ddot_strs d')))).
  { apply map_ext. intros s. apply dot_lookup_perm; assumption. }
  rewrite V. cbn zeta.
  set (visited := map (dot_lookup ps') (dedup_adj (strsort (ddot_strs d')))).
  f_equal. f_equal. f_equal.
  - apply flat_map_ext. intros ns. apply ddot_ns_group_perm. exact Pd.
  - f_equal.
    + f_equal. apply map_ext. intros p. apply ddot_peer_line_perm. exact Pd.
    + f_equal.
      * apply strsort_perm_invariant. apply Permutation_map. apply filter_perm. exact Pd.
      * f_equal. apply strsort_perm_invariant. apply Permutation_map. apply filter_perm. exact Pd.
Qed.

(* the edge lines are exactly the diff entries, unchanged ones included, each once *)
Theorem diff_dot_edges_are_the_entries d :
  Permutation (strsort (map ddot_edge_line (filter (fun e => negb (is_ic e)) d)) ++ strsort (map ddot_edge_line (filter is_ic d)))
              (map ddot_edge_line d).
Proof.
  eapply Permutation_trans; [apply Permutation_app; apply strsort_perm|]. rewrite <- map_app. apply Permutation_map.
  induction d as [|e t IH]; [constructor|]. cbn [filter]. destruct (is_ic e); cbn [negb].
  - apply Permutation_sym. apply Permutation_cons_app. apply Permutation_sym. exact IH.
  - cbn [app]. constructor. exact IH.
Qed.
