(* ReexpressProofs.v — connectivity is per workload (C17): the semantics and the computed connection
   sets look at a pod only through its namespace, labels and container ports, so controller kind,
   replica count and pod names cannot matter; every workload string is one peer.  No axioms. *)
From Coq Require Import List ZArith Bool String Lia.
From NP Require Import IntervalSet ConnSet ConnSetProofs World Eval Spec EvalProofs EvalPoint Build Connlist EngineProofs.
Import ListNotations.
Open Scope list_scope.
Open Scope Z_scope.

Lemma existsb_ext {A} (f g : A -> bool) l : (forall x, f x = g x) -> existsb f l = existsb g l.
Proof. intros H. induction l as [|a t IH]; cbn [existsb]; [reflexivity|]. rewrite H, IH. reflexivity. Qed.

Lemma s_np_peer_matches_vw npns pr x : s_np_peer_matches npns pr (vw x) = s_np_peer_matches npns pr x.
Proof. destruct pr, x; reflexivity. Qed.

Lemma s_np_rule_peers_vw npns peers x : s_np_rule_peers npns peers (vw x) = s_np_rule_peers npns peers x.
Proof. unfold s_np_rule_peers. destruct peers; [reflexivity|]. apply existsb_ext. intros. apply s_np_peer_matches_vw. Qed.

Lemma s_np_port_matches_vw pp x pr n : s_np_port_matches pp (vw x) pr n = s_np_port_matches pp x pr n.
Proof. unfold s_np_port_matches. destruct x; reflexivity. Qed.

Lemma s_np_rule_ports_vw ports x pr n : s_np_rule_ports ports (vw x) pr n = s_np_rule_ports ports x pr n.
Proof. unfold s_np_rule_ports. destruct ports; [reflexivity|]. apply existsb_ext. intros. apply s_np_port_matches_vw. Qed.

Lemma s_np_policy_allows_vw np s d ing pr n :
  s_np_policy_allows np (vw s) (vw d) ing pr n = s_np_policy_allows np s d ing pr n.
Proof.
  unfold s_np_policy_allows. apply existsb_ext. intros r. unfold s_np_rule.
  rewrite if_vw, s_np_rule_peers_vw, s_np_rule_ports_vw. reflexivity.
Qed.

Lemma s_np_layer_vw w s d ing pr n : s_np_layer w (vw s) (vw d) ing pr n = s_np_layer w s d ing pr n.
Proof.
  unfold s_np_layer. rewrite if_vw. destruct (if ing then d else s) as [p l|b]; cbn [vw]; [|reflexivity].
  change (fun np => s_np_governs np (view p) (if ing then Ingress else Egress))
    with (fun np => s_np_governs np p (if ing then Ingress else Egress)).
  destruct (filter _ (w_nps w)); [reflexivity|]. f_equal. apply existsb_ext. intros. apply s_np_policy_allows_vw.
Qed.

Lemma s_admin_peer_matches_vw ap x : s_admin_peer_matches ap (vw x) = s_admin_peer_matches ap x.
Proof. destruct ap, x; reflexivity. Qed.

Lemma s_admin_port_matches_vw ap x pr n : s_admin_port_matches ap (vw x) pr n = s_admin_port_matches ap x pr n.
Proof. destruct ap, x; reflexivity. Qed.

Lemma s_admin_rule_matches_vw r o d pr n : s_admin_rule_matches r (vw o) (vw d) pr n = s_admin_rule_matches r o d pr n.
Proof.
  unfold s_admin_rule_matches.
  rewrite (existsb_ext _ (fun ap => s_admin_peer_matches ap o)) by (intros; apply s_admin_peer_matches_vw).
  destruct (ar_ports r); [|reflexivity].
  rewrite (existsb_ext _ (fun ap => s_admin_port_matches ap d pr n)) by (intros; apply s_admin_port_matches_vw). reflexivity.
Qed.

Lemma s_rules_verdict_cons r t o d pr n :
  s_rules_verdict (r :: t) o d pr n =
  if s_admin_rule_matches r o d pr n then verdict_of (ar_action r) else s_rules_verdict t o d pr n.
Proof. reflexivity. Qed.

Lemma s_rules_verdict_vw rules o d pr n : s_rules_verdict rules (vw o) (vw d) pr n = s_rules_verdict rules o d pr n.
Proof.
  induction rules as [|r t IH]; [reflexivity|].
  rewrite !s_rules_verdict_cons, s_admin_rule_matches_vw, IH. reflexivity.
Qed.

Lemma s_admin_selects_vw subj rules x : s_admin_selects subj rules (vw x) = s_admin_selects subj rules x.
Proof. unfold s_admin_selects. destruct rules; [reflexivity | apply s_admin_peer_matches_vw]. Qed.

Lemma s_anps_verdict_cons a t s d ing pr n :
  s_anps_verdict (a :: t) s d ing pr n =
  let rules := if ing then a_in a else a_eg a in
  let v := if s_admin_selects (a_subject a) rules (if ing then d else s)
           then s_rules_verdict rules (if ing then s else d) d pr n else VNone in
  match v with VNone => s_anps_verdict t s d ing pr n | _ => v end.
Proof. reflexivity. Qed.

Lemma s_anps_verdict_vw anps s d ing pr n : s_anps_verdict anps (vw s) (vw d) ing pr n = s_anps_verdict anps s d ing pr n.
Proof.
  induction anps as [|a t IH]; [reflexivity|].
  rewrite !s_anps_verdict_cons. cbn zeta.
  rewrite !if_vw, s_admin_selects_vw, IH.
  rewrite s_rules_verdict_vw. reflexivity.
Qed.

Lemma s_banp_allows_vw w s d ing pr n : s_banp_allows w (vw s) (vw d) ing pr n = s_banp_allows w s d ing pr n.
Proof.
  unfold s_banp_allows. destruct (w_banp w); [|reflexivity].
  rewrite !if_vw, s_admin_selects_vw, s_rules_verdict_vw. reflexivity.
Qed.

Lemma s_dir_allows_vw w s d ing pr n : s_dir_allows w (vw s) (vw d) ing pr n = s_dir_allows w s d ing pr n.
Proof. unfold s_dir_allows. rewrite s_anps_verdict_vw, s_np_layer_vw, s_banp_allows_vw. reflexivity. Qed.

Lemma s_allows_vw w s d pr n : s_allows w (vw s) (vw d) pr n = s_allows w s d pr n.
Proof. unfold s_allows. rewrite !s_dir_allows_vw. reflexivity. Qed.

(* two pairs of (different) pods that agree on namespace, labels, namespace labels and container ports
   get identical connection sets: replicas, controller kind and pod names do not matter *)
Theorem reexpress_conn_equal w s d s' d' c c' :
  vw s = vw s' -> vw d = vw d' ->
  pod_to_itself s d = false -> pod_to_itself s' d' = false ->
  peer_okb d = true -> peer_okb d' = true -> world_okb w = true ->
  all_conns w s d = Ok c -> all_conns w s' d' = Ok c' -> c = c'.
Proof.
  intros Hs Hd Hn Hn' Hok Hok' Hw Hc Hc'.
  destruct (all_conns_ok _ _ _ _ Hok Hw Hc) as [Hinv Hden].
  destruct (all_conns_ok _ _ _ _ Hok' Hw Hc') as [Hinv' Hden'].
  apply cs_ninv_ext; try assumption. intros pr n.
  rewrite Hden, Hden', Hn, Hn'. cbn [orb].
  rewrite <- (s_allows_vw w s d), <- (s_allows_vw w s' d'), Hs, Hd. reflexivity.
Qed.

(* the pods a workload expands to do not depend on its controller kind or replica count
   except for their names and the kind recorded for the report name *)
Lemma pods_of_workload_view wl p :
  In p (pods_of_workload wl) ->
  view p = mkPod (wl_ns wl) EmptyString (wl_labels wl) (wl_ports wl) EmptyString EmptyString false /\
  p_owner_name p = wl_name wl /\ p_owner_kind p = wl_kind wl /\ p_ns p = wl_ns wl.
Proof.
  unfold pods_of_workload.
  destruct (match wl_replicas wl with Some r => if 1 <? r then 2%nat else 1%nat | None => 1%nat end) as [|[|m]];
    cbn [In]; intros H; repeat (destruct H as [<- | H]); try contradiction; repeat split; reflexivity.
Qed.

Lemma norm_workload_fields wl :
  wl_ns (norm_workload wl) = wl_ns wl /\ wl_name (norm_workload wl) = wl_name wl /\
  wl_labels (norm_workload wl) = wl_labels wl /\ wl_ports (norm_workload wl) = wl_ports wl /\
  wl_kind (norm_workload wl) = wl_kind wl.
Proof. unfold norm_workload. destruct (_ || _); repeat split; reflexivity. Qed.

Theorem workload_pods_same_view wl1 wl2 p1 p2 :
  wl_ns wl1 = wl_ns wl2 -> wl_name wl1 = wl_name wl2 -> wl_labels wl1 = wl_labels wl2 -> wl_ports wl1 = wl_ports wl2 ->
  In p1 (pods_of_workload (norm_workload wl1)) -> In p2 (pods_of_workload (norm_workload wl2)) ->
  view p1 = view p2 /\ p_owner_name p1 = p_owner_name p2 /\ p_ns p1 = p_ns p2.
Proof.
  intros Hns Hnm Hl Hp H1 H2.
  destruct (pods_of_workload_view _ _ H1) as (V1 & O1 & _ & S1).
  destruct (pods_of_workload_view _ _ H2) as (V2 & O2 & _ & S2).
  destruct (norm_workload_fields wl1) as (A1 & B1 & C1 & D1 & _).
  destruct (norm_workload_fields wl2) as (A2 & B2 & C2 & D2 & _).
  rewrite V1, V2, O1, O2, S1, S2, A1, A2, B1, B2, C1, C2, D1, D2, Hns, Hnm, Hl, Hp. auto.
Qed.

Lemma NoDup_snoc {A} (l : list A) x : NoDup l -> ~ In x l -> NoDup (l ++ [x]).
Proof.
  induction l as [|a t IH]; cbn [app]; intros Hnd Hx; [constructor; [intros []|constructor]|].
  inversion Hnd as [|y ys Hnin Hnd']; subst. constructor.
  - intros Hin. apply in_app_or in Hin. destruct Hin as [Hin | [<- | []]]; [contradiction|]. apply Hx. left; reflexivity.
  - apply IH; [exact Hnd'|]. intros Hin. apply Hx. right; exact Hin.
Qed.

(* every workload string is exactly one peer *)
Lemma workloads_of_keys pods : forall acc,
  NoDup (map fst acc) -> NoDup (map fst (workloads_of pods acc)).
Proof.
  induction pods as [|p t IH]; intros acc Hnd; cbn [workloads_of]; [exact Hnd|].
  apply IH.
  destruct (existsb (fun e => String.eqb (fst e) (wl_str p)) acc) eqn:Hex.
  - rewrite map_map.
    assert (E : map (fun x => fst (if String.eqb (fst x) (wl_str p) then (wl_str p, p) else x)) acc = map fst acc).
    { apply map_ext. intros [k q]. cbn [fst]. destruct (String.eqb k (wl_str p)) eqn:Ek; [apply String.eqb_eq in Ek; subst; reflexivity | reflexivity]. }
    rewrite E. exact Hnd.
  - rewrite map_app. cbn [map fst]. apply NoDup_snoc; [exact Hnd|].
    intros Hin. apply in_map_iff in Hin. destruct Hin as ([k q] & Hk & Hin). cbn [fst] in Hk. subst k.
    rewrite <- not_true_iff_false, existsb_exists in Hex. apply Hex. exists (wl_str p, q). split; [exact Hin | apply String.eqb_refl].
Qed.

Theorem one_peer_per_workload pods : NoDup (map fst (workloads_of pods [])).
Proof. apply workloads_of_keys. constructor. Qed.
