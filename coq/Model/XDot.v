(* XDot.v — the dot output of `list --exposure`, byte for byte (conns_formatter_dot.go: addExposureOutputData,
   getXgressExposureEdges, getRepPeerLine, getEntireClusterLine), from the connections, the analyzer's peers and
   ExposedPeers().  Without --focusworkload every exposed workload is one of the peers, so all real peers are placed
   before the first representative one and "the namespace already has a group" does not depend on the order of
   ExposedPeers().  A representative peer is a node named <pod label>_in_<namespace label>, declared once, placed in the
   group of the real namespace of that name if it has one and in a red group of its own otherwise.  Every group of lines is
   sorted by the formatter.  Executable definitions only. *)
From Coq Require Import List ZArith Bool String Ascii.
From NP Require Import IntervalSet ConnSet World Build Connlist Diff Format XFormat.
Import ListNotations.
Open Scope list_scope.
Open Scope string_scope.

(* getRepresentativeNamespaceString / PodString without the txt brackets *)
Definition ns_label (s : xsel) : string :=
  match xs_ml s, xs_me s with
  | [(k, v)], [] => if String.eqb k nsNameKey then v else "namespace with {" ++ sel_string s ++ "}"
  | _, _ => if Nat.eqb (sel_size s) 0 then "all namespaces" else "namespace with {" ++ sel_string s ++ "}"
  end.
Definition pod_label (s : xsel) : string :=
  if Nat.eqb (sel_size s) 0 then "all pods" else "pod with {" ++ sel_string s ++ "}".
Definition rep_node (i : xitem) : string := pod_label (xi_pod i) ++ "_in_" ++ ns_label (xi_ns i).

Definition x_edge_line (ingress : bool) (real rep conn : string) : string :=
  if ingress
  then tab ++ qq rep ++ " -> " ++ qq real ++ " [label=" ++ qq conn ++ " color=" ++ qq "darkorange2" ++ " fontcolor=" ++ qq "darkgreen"
           ++ " weight=1 style=dashed]"
  else tab ++ qq real ++ " -> " ++ qq rep ++ " [label=" ++ qq conn ++ " color=" ++ qq "darkorange4" ++ " fontcolor=" ++ qq "darkgreen"
           ++ " weight=0.5 style=dashed]".

Definition x_edges (ingress : bool) (p : xpeer) : list string :=
  if (if ingress then xp_ing_prot p else xp_eg_prot p)
  then map (fun i => x_edge_line ingress (xp_str p) (if xi_cluster i then "entire-cluster" else rep_node i) (xi_conn i))
           (if ingress then xp_ing p else xp_eg p)
  else [x_edge_line ingress (xp_str p) "entire-cluster" allConnsStr].

(* the representative nodes: (node name, pod label, namespace label) *)
Definition x_items (p : xpeer) : list xitem :=
  ((if xp_ing_prot p then filter (fun i => negb (xi_cluster i)) (xp_ing p) else [])
  ++ (if xp_eg_prot p then filter (fun i => negb (xi_cluster i)) (xp_eg p) else []))%list.
Definition uses_cluster (p : xpeer) : bool :=
  negb (xp_ing_prot p) || negb (xp_eg_prot p) || existsb xi_cluster (xp_ing p) || existsb xi_cluster (xp_eg p).

Definition rep_line (i : xitem) : string :=
  tab ++ qq (rep_node i) ++ " [label=" ++ qq (pod_label (xi_pod i)) ++ " color=" ++ qq "red2" ++ " fontcolor=" ++ qq "red2" ++ "]".
Definition cluster_line : string :=
  tab ++ qq "entire-cluster" ++ " [label=" ++ qq "entire-cluster" ++ " color=" ++ qq "red2" ++ " fontcolor=" ++ qq "red2" ++ " shape=diamond]".

(* one group: real peers of the namespace and the representative nodes whose namespace label is its name *)
Definition xdot_ns_group (color : string) (real_lines rep_lines : list string) (ns : string) : list string :=
  [tab ++ "subgraph " ++ qq ("cluster_" ++ dash_to_underscore ns) ++ " {";
   tab ++ tab ++ "color=" ++ qq color; tab ++ tab ++ "fontcolor=" ++ qq color]
  ++ strsort (map (fun l => tab ++ l) (real_lines ++ rep_lines)%list)
  ++ [tab ++ tab ++ "label=" ++ qq ns; tab ++ "}"].

Definition str_memb (x : string) (l : list string) : bool := existsb (String.eqb x) l.

(* what a representative node contributes: its namespace label and its line; the formatter keeps the first item met for a
   node name *)
Definition node_proj (i : xitem) : string * string := (ns_label (xi_ns i), rep_line i).
Definition node_projs (items : list xitem) : list (string * string) :=
  flat_map (fun n => match find (fun i => String.eqb (rep_node i) n) items with Some i => [node_proj i] | None => [] end)
           (dedup_adj (strsort (map rep_node items))).

Definition xdot_render (visited : list dpeer) (projs : list (string * string)) (cluster : bool) (edges : list string) : string :=
  let real_nss := dedup_adj (strsort (map dp_ns (filter (fun p => negb (dp_ext p)) visited))) in
  let rep_nss := dedup_adj (strsort (map fst (filter (fun q => negb (str_memb (fst q) real_nss)) projs))) in
  let real_of ns := map dot_peer_line (filter (fun p => negb (dp_ext p) && String.eqb (dp_ns p) ns) visited) in
  let reps_of ns := map snd (filter (fun q => String.eqb (fst q) ns) projs) in
  join nl ((["digraph {"]
           ++ flat_map (fun ns => xdot_ns_group "black" (real_of ns) (reps_of ns) ns) real_nss
           ++ flat_map (fun ns => xdot_ns_group "red2" [] (reps_of ns) ns) rep_nss
           ++ strsort (map dot_peer_line (filter dp_ext visited) ++ (if cluster then [cluster_line] else []))%list
           ++ edges ++ ["}"])%list).

Definition x_all_edges (es : list rentry) (xps : list xpeer) : list string :=
  (map (fun e => dot_edge_line (row_of e)) es ++ flat_map (fun p => (x_edges true p ++ x_edges false p)%list) xps)%list.

Definition list_exposure_dot (es : list rentry) (ps : list dpeer) (xps : list xpeer) : string :=
  xdot_render (map (dot_lookup ps) (dedup_adj (strsort (dot_strs es ps))))
              (node_projs (flat_map x_items xps)) (existsb uses_cluster xps) (strsort (x_all_edges es xps)).

(* the node name determines the label and the namespace label (it does unless a label holds "_in_"): then which of several
   items with one node name is met first cannot matter *)
Definition nodes_consistentb (items : list xitem) : bool :=
  forallb (fun i => forallb (fun j => negb (String.eqb (rep_node i) (rep_node j)) ||
                                      (String.eqb (ns_label (xi_ns i)) (ns_label (xi_ns j)) && String.eqb (rep_line i) (rep_line j))) items) items.

Record xdot_case := mkXDot { xd_id : nat; xd_entries : list rentry; xd_peers : list dpeer; xd_xpeers : list xpeer; xd_dot : string }.
(* codes: 6 the dot output differs from the model; 9 two representative items share a node name but not label / namespace *)
Definition xdot_mismatches (cs : list xdot_case) : list (nat * nat) :=
  flat_map (fun c => (if String.eqb (xd_dot c) (list_exposure_dot (xd_entries c) (xd_peers c) (xd_xpeers c)) then [] else [(xd_id c, 6%nat)])
                     ++ (if nodes_consistentb (flat_map x_items (xd_xpeers c)) then [] else [(xd_id c, 9%nat)]))%list cs.
