# C03 — eval answers agree with list (and with the semantics) for every query.
# For generated worlds: CheckIfAllowed on an engine built (i) by NewPolicyEngineWithObjects and (ii) object by
# object as `k8snetpolicy eval` does, for every ordered pair of pods / boundary addresses, three protocols and a
# boundary port set; answers compared with the model (Model/EvalPoint.v, proved equal to the Spec and to the
# list's connection set) and with the real `list` result of the same directory; the real binary on a sample.
import copy, ipaddress, json, os, subprocess
from . import c01
from .lib import core, gen, listcorr
from .lib.core import cstr, cz, cnat, clist, cbool


def pod_names(W, cli):
    res = []
    for w in W['workloads']:
        if w['kind'] == 'Pod':
            own = w.get('owner')
            wl = '%s/%s[%s]' % (w['ns'], own['name'], own['kind']) if own else '%s/%s[Pod]' % (w['ns'], w['name'])
            res.append(('%s/%s' % (w['ns'], w['name']), wl))
        elif not cli:
            k = w['kind']
            rep = w.get('replicas')
            two = (rep is not None and rep > 1 and k not in ('DaemonSet', 'CronJob'))
            wl = '%s/%s[%s]' % (w['ns'], w['name'], k)
            res.append(('%s/%s-1' % (w['ns'], w['name']), wl))
            if two:
                res.append(('%s/%s-2' % (w['ns'], w['name']), wl))
    return res


def boundary_ports(W, r):
    ps = {1, 65535}
    def add(n):
        for d in (-1, 0, 1):
            if 1 <= n + d <= 65535:
                ps.add(n + d)
    for p in W['netpols']:
        for d in ('ingress', 'egress'):
            for rule in p.get(d) or []:
                for pp in rule.get('ports') or []:
                    if isinstance(pp.get('port'), int):
                        add(pp['port'])
                    if pp.get('endPort') is not None:
                        add(pp['endPort'])
    for a in W['anps'] + ([W['banp']] if W.get('banp') else []):
        for d in ('ingress', 'egress'):
            for rule in a.get(d) or []:
                for ap in rule.get('ports') or []:
                    if ap.get('portNumber'):
                        add(ap['portNumber']['port'])
                    if ap.get('portRange'):
                        add(ap['portRange']['start']); add(ap['portRange']['end'])
    keep = set()
    for w in W['workloads']:
        for cp in w['ports']:
            if cp['name']:
                keep.add(cp['port'])        # the numbers behind named ports are always queried
            else:
                add(cp['port'])
    ps = sorted(ps)
    if len(ps) > 9:
        ps = sorted(set(r.sample(ps, 7) + [1, 65535]))
    return sorted(set(ps) | keep) + [r.randint(1, 65535)]


def boundary_ips(W, r):
    ips = set()
    for p in W['netpols']:
        for d in ('ingress', 'egress'):
            for rule in p.get(d) or []:
                for peer in rule.get('from' if d == 'ingress' else 'to') or []:
                    ipb = peer.get('ipBlock')
                    if ipb and gen.valid_cidr(ipb['cidr']):
                        for c in [ipb['cidr']] + [e for e in ipb.get('except') or [] if gen.valid_cidr(e)]:
                            lo, hi = gen.cidr_range(c)
                            for a in (lo - 1, lo, hi, hi + 1):
                                if 0 <= a <= 0xFFFFFFFF:
                                    ips.add(a)
    ips = sorted(ips)
    if len(ips) > 4:
        ips = r.sample(ips, 4)
    return ips + [r.choice([0, 0xFFFFFFFF, 0x08080808])]


def contains(conn, proto, port):
    if conn is None:
        return False
    if conn['all']:
        return True
    return any(a <= port <= b for a, b in conn['pp'].get(proto, []))


def list_lookup(lo, src, dst):
    """src/dst: ('pod', workload string) or ('ip', int) -> conn or None; raises KeyError if an address is in no block"""
    def key(x):
        if x[0] == 'pod':
            return x[1]
        for p in lo['peers']:
            if p['ip']:
                a, b = gen.parse_ip_range(p['str'])
                if a <= x[1] <= b:
                    return p['str']
        raise KeyError(x)
    s, d = key(src), key(dst)
    for e in lo['conns']:
        if e['src'] == s and e['dst'] == d:
            return e['conn']
    return None


def c_q(q):
    def cp(x):
        return '(QPod %s)' % cstr(x[2]) if x[0] == 'pod' else '(QIP %s)' % cz(x[1])
    return '(mkQ %s %s %s %s)' % (cp(q[0]), cp(q[1]), q[2], cz(q[3]))


def c_ans(a):
    return {'true': 'OTrue', 'false': 'OFalse'}.get(a, 'OPanic' if a.startswith('panic') else 'OErr')


def main(tier):
    run = core.Run('C03', tier)
    run.cov['rule'] = ('random worlds (NetworkPolicy / ANP / BANP, Pod-heavy so that the CLI path applies), every ordered pair of pods and boundary addresses, '
                       '3 protocols x boundary ports (every number mentioned by a rule or container port, +-1, 1, 65535, one random); CheckIfAllowed on an engine built from objects and '
                       'on one filled with InsertObject like `k8snetpolicy eval`; compared with the Gallina mirror of the rule walkers and with the real `list` of the same directory; '
                       'the real binary on a sample; non-trivial = world with a policy and both answers occurring; distinct by scenario hash')
    run.stage_proofs()
    b = core.build_go(['verifapi', 'k8snetpolicy'], run.log)
    if not b['verifapi'][0]:
        run.proof_ok = False
        run.proof_notes.append('harness verifapi does not build against this tree: ' + b['verifapi'][1][-600:])
        return run.finish()
    eval_part(run, tier, b, 90 if tier == 'quick' else 1500, 25 if tier == 'quick' else 200, anp_always=False)
    return run.finish()


def eval_part(run, tier, b, n, nbin, anp_always):
    """the eval correspondence (CheckIfAllowed vs the rule-walker mirror, vs the real list, vs the binary) on n worlds, reported in `run`"""
    h = listcorr.Harness()
    total_q = 0
    try:
        shard, k = 45, 0
        while k < n and len(run.violations) < 3:
            cmds, meta = [], {}
            for i in range(min(shard, n - k)):
                cid = k + i
                cli = (cid % 2 == 1)
                W = gen.gen_world(run.rng, anp=(anp_always or cid % 3 != 0), pods=True)
                for w in W['workloads']:
                    if run.rng.random() < (0.8 if cli else 0.4):
                        w['kind'] = 'Pod'
                        if run.rng.random() < 0.3:
                            w['owner'] = {'name': 'own-' + w['name'], 'kind': 'ReplicaSet'}
                nss_ = sorted({w['ns'] for w in W['workloads']} | {n['name'] for n in W['namespaces']})
                if len(nss_) >= 2 and run.rng.random() < 0.35:
                    # the same workload (name, kind, owner, labels) in a second namespace, where other policies apply: one engine answers
                    # the queries about both, so whatever it remembers about one must not be used for the other
                    o = run.rng.choice(W['workloads'])
                    other = run.rng.choice([n for n in nss_ if n != o['ns']])
                    if not any(q['ns'] == other and q['name'] == o['name'] for q in W['workloads']):
                        t = copy.deepcopy(o)
                        t['ns'] = other
                        W['workloads'].append(t)
                for nsd in W['namespaces']:
                    if cli and run.rng.random() < 0.5:
                        nsd['obj'] = False          # no Namespace manifest: eval must still answer
                dl = gen.docs(W)
                run.rng.shuffle(dl)
                d = h.dir_for('c%d' % cid)
                gen.write_dir(d, [m for m, _ in dl])
                pods = pod_names(W, cli)
                ends = [('pod', wl, name) for name, wl in pods] + [('ip', a) for a in boundary_ips(W, run.rng)]
                ports = boundary_ports(W, run.rng)
                qs = []
                for s in ends:
                    for t in ends:
                        if s[0] == 'ip' and t[0] == 'ip':
                            continue
                        for pr in gen.PROTOS:
                            for pt in ports:
                                qs.append((s, t, pr, pt))
                if len(qs) > 900:
                    qs = run.rng.sample(qs, 900)
                def qstr(x):
                    return x[2] if x[0] == 'pod' else str(ipaddress.ip_address(x[1]))
                cmds.append({'id': 'e%d' % cid, 'cmd': 'eval', 'dir': d, 'mode': 'insert' if cli else 'objects',
                             'queries': [[qstr(s), qstr(t), pr.lower() if (cid % 4 < 2) else pr, str(pt)] for s, t, pr, pt in qs]})
                cmds.append({'id': 'l%d' % cid, 'cmd': 'list', 'dir': d})
                meta[cid] = (W, dl, cli, qs, d)
            outs = h.run(cmds)
            cases = []
            for j, cid in enumerate(sorted(meta)):
                W, dl, cli, qs, d = meta[cid]
                oe, ol = outs[2 * j], outs[2 * j + 1]
                run.count(1)
                run.dist('mode:' + ('cli-insert' if cli else 'objects'))
                run.dist('eval-build:' + oe['outcome'])
                answers = oe.get('answers') or []
                total_q += len(answers)
                if oe['outcome'] == 'ok' and W['netpols'] and 'true' in answers and 'false' in answers:
                    run.nontrivial(W)
                # when `list` itself fails on these resources some rule evaluation errors (a named port meeting an IP destination); the
                # query must then fail or answer whatever order Go iterates the policy map in - compared with the model like any other
                skip_err = False
                terms = ['(%s, %s)' % (c_q(q), 'OSkip' if skip_err else c_ans(a)) for q, a in zip(qs, answers)]
                cases.append('(mkEC %s %s %s %s %s)' % (cnat(cid), clist([t for _, t in dl]), cbool(cli), cbool(oe['outcome'] == 'ok'), clist(terms)))
                base = {'kind': 'eval', 'world': W, 'manifests': [m for m, _ in dl], 'mode': 'InsertObject loop (as k8snetpolicy eval)' if cli else 'NewPolicyEngineWithObjects'}
                # --- against the real list of the same directory
                if ol['outcome'] == 'ok' and oe['outcome'] == 'ok':
                    for q, a in zip(qs, answers):
                        s, t, pr, pt = q
                        if a.startswith('panic'):
                            run.report(None, 'panic-%d' % cid, dict(base, query=[str(x) for x in q], answer=a), 'CheckIfAllowed panicked')
                            break
                        if s[0] == 'pod' and t[0] == 'pod' and s[1] == t[1]:
                            if s[2] == t[2] and a != 'true':
                                run.report(None, 'self-%d' % cid, dict(base, query=[str(x) for x in q], answer=a), 'a pod to itself must be allowed')
                                break
                            continue
                        try:
                            want = contains(list_lookup(ol, s, t), pr, pt)
                        except KeyError:
                            continue
                        if a.startswith('err:'):
                            run.report(None, 'evalfail-%d' % cid, dict(base, query=[str(x) for x in q], answer=a, list_says=want),
                                       'list analyses these resources but eval fails on a query about present pods')
                            break
                        if (a == 'true') != want:
                            run.report(None, 'evalvslist-%d' % cid, dict(base, query=[str(x) for x in q], answer=a, list_says=want,
                                                                       how='k8snetpolicy list --dirpath DIR -o json  vs  CheckIfAllowed / k8snetpolicy eval on the same DIR'),
                                       'eval answer differs from the list report for the same resources')
                            break
                elif ol['outcome'] == 'ok' and oe['outcome'] != 'ok' and not cli:
                    run.report(None, 'evalbuild-%d' % cid, dict(base, eval_error=oe.get('err')), 'list analyses these resources but the eval engine cannot be built')
            run.cov['traces_validated_against_impl'] += len(meta)
            # --- against the model
            text = ['From Coq Require Import List ZArith String.', 'From NP Require Import IntervalSet ConnSet World Eval EvalPoint Build EvalCase.',
                    'Import ListNotations.', 'Open Scope Z_scope.', 'Definition cases : list eval_case := [', ';\n'.join(cases), '].',
                    'Definition MM := Eval vm_compute in eval_mismatches cases.', 'Print MM.']
            rc, out, err = core.run_coq_text('\n'.join(text))
            if rc != 0:
                raise RuntimeError('coqc on eval cases failed: ' + err[-1500:])
            mm = core.parse_pairs(out, 'MM')
            for cid, qi in mm or []:
                W, dl, cli, qs, d = meta[cid]
                oe = outs[2 * sorted(meta).index(cid)]
                q = qs[qi] if qi < len(qs) else None
                run.report(None, 'model-%d' % cid, {'kind': 'eval-model-correspondence', 'world': W, 'manifests': [m for m, _ in dl],
                                                    'mode': 'cli-insert' if cli else 'objects', 'query': [str(x) for x in q] if q else 'engine construction',
                                                    'answer': (oe.get('answers') or [None] * (qi + 1))[qi] if q else oe.get('err')},
                           'CheckIfAllowed differs from the Gallina mirror of the rule walkers (Model/EvalPoint.v)')
            # --- the real binary on a sample of pod-to-pod queries of CLI-mode worlds
            binp = os.path.join(core.BUILD, 'k8snetpolicy')
            if b['k8snetpolicy'][0]:
                for cid in sorted(meta):
                    W, dl, cli, qs, d = meta[cid]
                    oe = outs[2 * sorted(meta).index(cid)]
                    if not cli or nbin <= 0 or oe['outcome'] != 'ok':
                        continue
                    cand = [(q, a) for q, a in zip(qs, oe.get('answers') or []) if q[0][0] == 'pod' and q[1][0] == 'pod' and a in ('true', 'false')]
                    for q, a in run.rng.sample(cand, min(2, len(cand))):
                        sns, sn = q[0][2].split('/')
                        dns, dn = q[1][2].split('/')
                        p = subprocess.run([binp, 'eval', '--dirpath', d, '-s', sn, '-n', sns, '-d', dn, '--destination-namespace', dns,
                                            '-p', str(q[3]), '--protocol', q[2].lower(), '-q'], capture_output=True, text=True, timeout=120, cwd=h.tmp)
                        nbin -= 1
                        run.dist('binary-eval')
                        got = p.stdout.strip().split(':')[-1].strip() if p.returncode == 0 else 'exit %d' % p.returncode
                        if got != a:
                            run.report(None, 'binary-%d' % cid, {'kind': 'eval-binary', 'world': W, 'manifests': [m for m, _ in dl], 'query': [str(x) for x in q],
                                                                 'library': a, 'binary_stdout': p.stdout[-300:], 'binary_stderr': p.stderr[-300:], 'exit': p.returncode},
                                       '`k8snetpolicy eval` differs from CheckIfAllowed on the same resources')
            k += shard
        run.cov['queries'] = total_q
        run.sample({'queries_per_world': total_q // max(1, run.cov['evaluations'])})
    finally:
        h.close()




def replay(payload):
    run = core.Run('C03', 'quick')
    run.stage_proofs()
    core.build_go(['verifapi'], run.log)
    h = listcorr.Harness()
    try:
        d = h.dir_for('r')
        gen.write_dir(d, payload['manifests'])
        q = payload.get('query')
        print('replay: manifests written to a scratch dir; query', q, '; recorded answer', payload.get('answer'), 'list says', payload.get('list_says'))
        run.count(1)
    finally:
        h.close()
    return run.finish()
