(* C14 — NetworkPolicies are additive and local; equivalent spellings agree.
   Statements only; proofs in Proofs/SpecProofs.v.  Laws of the NetworkPolicy-only semantics
   (Model/Spec.v s_np_only_allows), which the computed report equals on every point by C01;
   [ble a b] is implication of booleans: "never removes" / "never adds". *)
From Coq Require Import List ZArith Bool String.
From NP Require Import IntervalSet ConnSet World Spec SpecProofs.
Import ListNotations.
Open Scope Z_scope.

(* adding a rule to a policy in a direction it already governs never removes a connection *)
Theorem C14_add_rule_monotone w a np b (ing : bool) k r src dst pr n :
  s_np_affects np (if ing then Ingress else Egress) = true ->
  ble (s_np_only_allows (with_nps w (a ++ np :: b)) src dst pr n)
      (s_np_only_allows (with_nps w (a ++ add_rule np ing k r :: b)) src dst pr n).
Proof. exact (add_rule_monotone w a np b ing k r src dst pr n). Qed.
Print Assumptions C14_add_rule_monotone.

(* adding a policy whose selected pods were all already governed in the directions it governs never removes *)
Theorem C14_add_policy_on_governed_monotone w q src dst pr n :
  (forall p d, s_np_governs q p d = true -> existsb (fun np => s_np_governs np p d) (w_nps w) = true) ->
  ble (s_np_only_allows w src dst pr n) (s_np_only_allows (with_nps w (q :: w_nps w)) src dst pr n).
Proof. exact (add_policy_on_governed_monotone w q src dst pr n). Qed.
Print Assumptions C14_add_policy_on_governed_monotone.

(* adding a policy whose selected pods were all ungoverned in those directions never adds *)
Theorem C14_add_policy_on_ungoverned_antitone w q src dst pr n :
  (forall p d, s_np_governs q p d = true -> existsb (fun np => s_np_governs np p d) (w_nps w) = false) ->
  ble (s_np_only_allows (with_nps w (q :: w_nps w)) src dst pr n) (s_np_only_allows w src dst pr n).
Proof. exact (add_policy_on_ungoverned_antitone w q src dst pr n). Qed.
Print Assumptions C14_add_policy_on_ungoverned_antitone.

(* a connection whose source the new policy does not select for egress and whose destination it does
   not select for ingress is unchanged *)
Theorem C14_add_policy_local w q src dst pr n :
  (forall p, self_pod src = Some p -> s_np_governs q p Egress = false) ->
  (forall p, self_pod dst = Some p -> s_np_governs q p Ingress = false) ->
  s_np_only_allows (with_nps w (q :: w_nps w)) src dst pr n = s_np_only_allows w src dst pr n.
Proof. exact (add_policy_local w q src dst pr n). Qed.
Print Assumptions C14_add_policy_local.

(* equivalent spellings *)
Theorem C14_matchLabels_vs_single_In k v m e l :
  sel_matches_raw (mkSel ((k, v) :: m) e) l = sel_matches_raw (mkSel m (mkReq k OpIn [v] :: e)) l.
Proof. exact (matchLabels_vs_single_In k v m e l). Qed.
Print Assumptions C14_matchLabels_vs_single_In.

Theorem C14_range_split pr_ a m b dst pr n :
  a <= m < b ->
  s_np_port_matches (mkNpPort pr_ (PNum a) (Some b)) dst pr n =
  s_np_port_matches (mkNpPort pr_ (PNum a) (Some m)) dst pr n || s_np_port_matches (mkNpPort pr_ (PNum (m + 1)) (Some b)) dst pr n.
Proof. exact (range_split pr_ a m b dst pr n). Qed.
Print Assumptions C14_range_split.

Theorem C14_cidr_halves lo mid hi a :
  lo <= mid < hi ->
  s_np_peer_matches EmptyString (NPIP (lo, hi) []) (PIP (a, a)) =
  s_np_peer_matches EmptyString (NPIP (lo, mid) []) (PIP (a, a)) || s_np_peer_matches EmptyString (NPIP (mid + 1, hi) []) (PIP (a, a)).
Proof. exact (cidr_halves lo mid hi a). Qed.
Print Assumptions C14_cidr_halves.

Theorem C14_policy_split_same_selector ns nm nm' sel types i1 i2 e1 e2 src dst d pr n :
  s_np_policy_allows (mkNetpol ns nm sel types (i1 ++ i2) (e1 ++ e2)) src dst d pr n =
  s_np_policy_allows (mkNetpol ns nm sel types i1 e1) src dst d pr n || s_np_policy_allows (mkNetpol ns nm' sel types i2 e2) src dst d pr n.
Proof. exact (policy_split_same_selector ns nm nm' sel types i1 i2 e1 e2 src dst d pr n). Qed.
Print Assumptions C14_policy_split_same_selector.

Theorem C14_explicit_vs_default_policyTypes ns nm sel i e d :
  s_np_affects (mkNetpol ns nm sel [] i e) d = s_np_affects (mkNetpol ns nm sel (default_types (mkNetpol ns nm sel [] i e)) i e) d.
Proof. exact (explicit_vs_default_policyTypes ns nm sel i e d). Qed.
Print Assumptions C14_explicit_vs_default_policyTypes.
