(* Exposure.v — exposure analysis (`list --exposure`), NetworkPolicy only (the engine rejects (B)ANPs in this mode):
     /repo/pkg/netpol/eval/resources.go   (AddObjectsForExposureAnalysis, insertNetworkPolicy's pre-scan,
                                           addRepresentativePod, removeRedundantRepresentativePeers via insertPod/insertWorkload)
     /repo/pkg/netpol/eval/exposure.go    (generateRepresentativePeers, removeRepresentativePeersMatchingLabels)
     /repo/pkg/netpol/eval/internal/k8s/representative_selectors.go (SelectorsFullMatch, UniqueKeyFromLabelsSelector)
     /repo/pkg/netpol/eval/internal/k8s/netpol.go (GetPolicyRulesSelectorsAndUpdateExposureClusterWideConns, ruleSelectsPeer and
                                           ruleConnections on representative peers)
     /repo/pkg/netpol/eval/check.go       (getPoliciesSelectingPod's protected flag, determineAllowedConnsPerDirection's
                                           shortcuts, updatePeerXgressClusterWideExposure)
     /repo/pkg/netpol/eval/internal/k8s/pod.go (UpdatePodXgressExposureToEntireClusterData, checkAndConvertNamedPortsInConnection)
     /repo/pkg/netpol/connlist/exposure_map.go, exposure_analysis.go, connlist.go (getConnectionsBetweenPeers with representatives)
   The flags and cluster-wide sets the Go code fills lazily on the Pod objects are computed here directly (they are
   complete before they are read: the first peer of every row and column is an IP block).  Go maps become lists; the
   order of representative peers is not observable (entries are compared as sets).
   Executable definitions only. *)
From Coq Require Import List ZArith Bool String.
From NP Require Import IntervalSet ConnSet World Eval Build Connlist.
Import ListNotations.
Open Scope string_scope.
Open Scope list_scope.
Open Scope Z_scope.

(* ---------- selectors as sorted requirement lists (labels.Selector.Requirements()) ---------- *)
Inductive cop := CEq | CIn | CNotIn | CExists | CNotExists.
Definition cop_eqb (a b : cop) : bool :=
  match a, b with
  | CEq, CEq | CIn, CIn | CNotIn, CNotIn | CExists, CExists | CNotExists, CNotExists => true
  | _, _ => false
  end.
Record creq := mkCReq { cr_key : string; cr_op : cop; cr_vals : list string }.

Fixpoint str_insert (x : string) (l : list string) : list string :=
  match l with
  | [] => [x]
  | y :: t => if String.leb x y then x :: l else y :: str_insert x t
  end.
Definition str_sort (l : list string) : list string := fold_right str_insert [] l.

Fixpoint strs_eqb (a b : list string) : bool :=
  match a, b with
  | [], [] => true
  | x :: a', y :: b' => String.eqb x y && strs_eqb a' b'
  | _, _ => false
  end.
Definition creq_eqb (a b : creq) : bool :=
  String.eqb (cr_key a) (cr_key b) && cop_eqb (cr_op a) (cr_op b) && strs_eqb (cr_vals a) (cr_vals b).
Fixpoint creqs_eqb (a b : list creq) : bool :=
  match a, b with
  | [], [] => true
  | x :: a', y :: b' => creq_eqb x y && creqs_eqb a' b'
  | _, _ => false
  end.

(* Requirement.String() up to the In-with-one-value = Equals identification the Go code applies *)
Definition creq_of_req (r : requirement) : creq :=
  match r_op r with
  | OpIn => match r_vals r with
            | [v] => mkCReq (r_key r) CEq [v]
            | vs => mkCReq (r_key r) CIn (str_sort vs)
            end
  | OpNotIn => mkCReq (r_key r) CNotIn (str_sort (r_vals r))
  | OpExists => mkCReq (r_key r) CExists []
  | OpDoesNotExist => mkCReq (r_key r) CNotExists []
  end.

(* Requirements.Add keeps the list sorted by key (insertion sort: stable) *)
Fixpoint creq_insert (x : creq) (l : list creq) : list creq :=
  match l with
  | [] => [x]
  | y :: t => if String.ltb (cr_key x) (cr_key y) then x :: l else y :: creq_insert x t
  end.
Definition sel_canon (s : selector) : list creq :=
  fold_left (fun acc x => creq_insert x acc)
            (map (fun kv => mkCReq (fst kv) CEq [snd kv]) (s_match s) ++ map creq_of_req (s_exprs s)) [].
Definition osel_canon (s : option selector) : list creq :=
  match s with Some x => sel_canon x | None => [] end.

(* SelectorsFullMatch: the rule's selector is empty, or both have the same requirements *)
Definition full_match (rule : selector) (rep : option selector) : outcome bool :=
  if negb (sel_valid rule) then Err ErrSelector
  else if sel_empty rule then Ok true
  else match rep with
       | Some r => if sel_valid r then Ok (creqs_eqb (sel_canon rule) (sel_canon r)) else Err ErrSelector
       | None => Ok false
       end.

(* ---------- representative peers ---------- *)
Record rep := mkRep { rp_ns : string;                  (* "" or the namespace of the policy whose rule had no namespaceSelector *)
                      rp_nssel : selector;             (* never nil *)
                      rp_podsel : option selector }.

Definition name_sel (ns : string) : selector := mkSel [(K8sNsNameLabelKey, ns)] [].

(* one entry of a rule's from/to list that is not an ipBlock: None = the rule is open to the whole cluster *)
Definition entry_selectors (pr : np_peer) : option (option selector * option selector) :=
  match pr with
  | NPSel nss pods => Some (nss, pods)
  | _ => None
  end.
Definition opens_cluster (nss pods : option selector) : bool :=
  match nss with
  | Some s => sel_empty s && match pods with None => true | Some p => sel_empty p end
  | None => false
  end.

(* ruleConnections(rulePorts, nil): named ports stay names *)
Fixpoint ports_conns_nodst (ports : list np_port) (res : connset) : connset :=
  match ports with
  | [] => res
  | pp :: t =>
      let ps := match pp_port pp with
                | PAll => ps_make true
                | PName nm => ps_add_named (ps_make false) nm
                | PNum n => ps_add_range (ps_make false) n (match pp_end pp with Some e => e | None => n end)
                end in
      ports_conns_nodst t (cs_addconn res (pp_proto pp) ps)
  end.
Definition rule_conns_nodst (ports : list np_port) : connset :=
  match ports with
  | [] => cs_make true
  | _ => ports_conns_nodst ports (cs_make false)
  end.

(* PolicyExposureWithoutSelectors of one direction, and the selector pairs of the rules *)
Record pol_exp := mkPE { pe_ext : connset; pe_cw : connset; pe_sels : list (option selector * option selector) }.

(* getSelectorsAndUpdateExposureClusterWideConns for one rule; the scan of a rule stops (and drops the
   selectors collected from this rule) at the first entry that opens the whole cluster *)
Fixpoint scan_entries (peers : list np_peer) (acc : list (option selector * option selector))
  : option (list (option selector * option selector)) :=
  match peers with
  | [] => Some acc
  | pr :: t =>
      match entry_selectors pr with
      | None => match pr with
                | NPIP _ _ | NPIPBad | NPCombined => scan_entries t acc      (* IPBlock != nil: skipped *)
                | _ => scan_entries t (acc ++ [(None, None)])                 (* no field at all: kept as a (nil, nil) pair *)
                end
      | Some (nss, pods) => if opens_cluster nss pods then None else scan_entries t (acc ++ [(nss, pods)])
      end
  end.

Definition scan_rule (e : pol_exp) (r : np_rule) : pol_exp :=
  match nr_peers r with
  | [] => let c := rule_conns_nodst (nr_ports r) in
          mkPE (cs_union (pe_ext e) c) (cs_union (pe_cw e) c) (pe_sels e)
  | peers => match scan_entries peers [] with
             | None => mkPE (pe_ext e) (cs_union (pe_cw e) (rule_conns_nodst (nr_ports r))) (pe_sels e)
             | Some l => mkPE (pe_ext e) (pe_cw e) (pe_sels e ++ l)
             end
  end.
Definition pol_exp0 : pol_exp := mkPE (cs_make false) (cs_make false) [].
Definition scan_dir (np : netpol) (d : dir) : pol_exp :=
  if np_affects np d then fold_left scan_rule (match d with Ingress => np_in np | Egress => np_eg np end) pol_exp0
  else pol_exp0.

(* addRepresentativePod *)
Definition rep_key_eqb (a b : rep) : bool :=
  creqs_eqb (sel_canon (rp_nssel a)) (sel_canon (rp_nssel b))
  && creqs_eqb (osel_canon (rp_podsel a)) (osel_canon (rp_podsel b)).

Definition osel_valid (s : option selector) : bool := match s with Some x => sel_valid x | None => true end.

Definition add_rep (policy_ns : string) (reps : list rep) (sp : option selector * option selector) : outcome (list rep) :=
  let '(nss, pods) := sp in
  let r := match nss with
           | None => mkRep policy_ns (name_sel policy_ns) pods
           | Some s => mkRep "" s pods
           end in
  if negb (sel_valid (rp_nssel r) && osel_valid pods) then Err ErrSelector
  else if existsb (rep_key_eqb r) reps then Ok reps else Ok (reps ++ [r]).

Fixpoint add_reps (policy_ns : string) (reps : list rep) (l : list (option selector * option selector)) : outcome (list rep) :=
  match l with
  | [] => Ok reps
  | sp :: t => do r <- add_rep policy_ns reps sp; add_reps policy_ns r t
  end.

(* insertNetworkPolicy's exposure part, over the policies in insertion order *)
Fixpoint gen_reps (nps : list netpol) (reps : list rep) : outcome (list rep) :=
  match nps with
  | [] => Ok reps
  | np :: t =>
      do r <- add_reps (np_ns np) reps (pe_sels (scan_dir np Ingress) ++ pe_sels (scan_dir np Egress));
      gen_reps t r
  end.

(* removeRepresentativePeersMatchingLabels *)
Definition rep_refined_by (pod_labels ns_labels : labels) (r : rep) : bool :=
  match rp_podsel r with
  | None => false
  | Some ps =>
      match s_exprs ps, s_exprs (rp_nssel r), s_match (rp_nssel r), s_match ps with
      | [], [], _ :: _, _ :: _ => labels_sub (s_match ps) pod_labels && labels_sub (s_match (rp_nssel r)) ns_labels
      | _, _, _, _ => false
      end
  end.

(* the (pod labels, namespace) pairs that trigger a removal: every Pod document, every workload document *)
Definition trigger_of (o : obj) : list (labels * string) :=
  match o with
  | OPod d => [(pd_labels d, pd_ns d)]
  | OWorkload wl => [(wl_labels wl, wl_ns wl)]
  | _ => []
  end.
Definition ns_labels_of (w : world) (ns : string) : labels :=
  match find_ns ns (w_nss w) with
  | Some n => ns_labels n
  | None => [(K8sNsNameLabelKey, ns)]
  end.
Definition refine_reps (w : world) (os : list obj) (reps : list rep) : list rep :=
  filter (fun r => negb (existsb (fun t => rep_refined_by (fst t) (ns_labels_of w (snd t)) r) (flat_map trigger_of os))) reps.

(* ---------- evaluation against a representative peer ---------- *)
(* ruleSelectsPeer on a representative peer.  [ns_by_selector]: a rule without namespaceSelector is matched against the
   representative's namespace requirement (true, the repaired code) or against its Namespace string (false) *)
Fixpoint peers_select_rep (npns : string) (peers : list np_peer) (r : rep) : outcome bool :=
  match peers with
  | [] => Ok false
  | pr :: t =>
      match pr with
      | NPEmpty | NPCombined => Err ErrRulePeer
      | NPIP _ _ | NPIPBad => peers_select_rep npns t r
      | NPSel nss pods =>
          do nsm <- match nss with
                    | None => full_match (name_sel npns) (Some (rp_nssel r))
                    | Some s => full_match s (Some (rp_nssel r))
                    end;
          if negb nsm then peers_select_rep npns t r
          else do pm <- match pods with
                        | None => Ok true
                        | Some s => full_match s (rp_podsel r)
                        end;
               if pm then Ok true else peers_select_rep npns t r
      end
  end.
Definition rule_selects_rep (npns : string) (peers : list np_peer) (r : rep) : outcome bool :=
  match peers with [] => Ok true | _ => peers_select_rep npns peers r end.

(* the policy's connections in one direction between a real pod and a representative.
   ingress: the representative is the source, ports are resolved on the real destination;
   egress: the representative is the destination, named ports stay names *)
Fixpoint rules_conns_rep (npns : string) (rules : list np_rule) (r : rep) (real : peer) (ingress : bool) (res : connset)
  : outcome connset :=
  match rules with
  | [] => Ok res
  | rl :: t =>
      do sel <- rule_selects_rep npns (nr_peers rl) r;
      if negb sel then rules_conns_rep npns t r real ingress res
      else do rc <- (if ingress then np_rule_conns (nr_ports rl) real else Ok (rule_conns_nodst (nr_ports rl)));
           rules_conns_rep npns t r real ingress (cs_union res rc)
  end.

(* determineAllowedConnsPerDirection with a representative on the other side *)
Definition policy_conns_rep (np : netpol) (r : rep) (real : peer) (ingress : bool) : outcome connset :=
  let e := scan_dir np (if ingress then Ingress else Egress) in
  if cs_all (pe_ext e) then Ok (pe_ext e)
  else if cs_all (pe_cw e) then Ok (pe_cw e)
  else rules_conns_rep (np_ns np) (if ingress then np_in np else np_eg np) r real ingress (cs_make false).

Fixpoint nps_union_rep (sel : list netpol) (r : rep) (real : peer) (ingress : bool) (acc : connset) : outcome connset :=
  match sel with
  | [] => Ok acc
  | np :: t => do c <- policy_conns_rep np r real ingress; nps_union_rep t r real ingress (cs_union acc c)
  end.

(* AllAllowedConnectionsBetweenWorkloadPeers(real, rep) / (rep, real): the representative's own direction is never
   captured (no policy selects it), so the result is the real pod's side (all when no policy selects it there) *)
Definition conns_with_rep (w : world) (p : pod) (nsl : labels) (r : rep) (ingress : bool) : outcome connset :=
  do sel <- selecting_nps (w_nps w) p (if ingress then Ingress else Egress);
  match sel with
  | [] => Ok (cs_make true)
  | _ => do c <- nps_union_rep sel r (PPod p nsl) ingress (cs_make false);
         Ok (if ingress then cs_inter (cs_make true) c else cs_inter c (cs_make true))
  end.

(* ---------- the pod's exposure data ---------- *)
(* checkAndConvertNamedPortsInConnection *)
Definition drop_empty_protocols (c : connset) : connset :=
  cs_map (fun _ mine => match mine with
                        | Some ps => if ps_isempty ps then None else Some ps
                        | None => None
                        end) c.
Definition convert_named (p : pod) (c : connset) : connset :=
  match cs_named_ports c with
  | [] => c
  | named =>
      drop_empty_protocols
        (fold_left (fun acc pn =>
                      fold_left (fun acc2 nm =>
                                   match pod_named_port (p_ports p) nm with
                                   | Some (pr, n) => if proto_eqb pr (fst pn) && negb (n =? NoPort)
                                                     then cs_replace_named acc2 (fst pn) nm n
                                                     else cs_replace_named acc2 (fst pn) nm NoPort
                                   | None => cs_replace_named acc2 (fst pn) nm NoPort
                                   end) (snd pn) acc) named c)
  end.

Definition cluster_wide (sel : list netpol) (p : pod) (ingress : bool) : connset :=
  fold_left (fun acc np =>
               let cw := pe_cw (scan_dir np (if ingress then Ingress else Egress)) in
               cs_union acc (if ingress then convert_named p cw else cw)) sel (cs_make false).

(* ---------- the shortcuts change nothing between real peers: the base report of exposure mode ---------- *)
Definition np_dir_conns_x (np : netpol) (src dst : peer) (ingress : bool) : outcome connset :=
  let e := scan_dir np (if ingress then Ingress else Egress) in
  if cs_all (pe_ext e) then Ok (pe_ext e)
  else if cs_all (pe_cw e) && negb (peer_is_ip (if ingress then src else dst)) then Ok (pe_cw e)
  else np_dir_conns np src dst ingress.

Fixpoint nps_union_conns_x (sel : list netpol) (src dst : peer) (ingress : bool) (acc : connset) : outcome connset :=
  match sel with
  | [] => Ok acc
  | np :: t => do c <- np_dir_conns_x np src dst ingress; nps_union_conns_x t src dst ingress (cs_union acc c)
  end.

Definition np_layer_x (w : world) (src dst : peer) (ingress : bool) : outcome (option connset) :=
  match (if ingress then dst else src) with
  | PIP _ => Ok None
  | PPod p _ =>
      do sel <- selecting_nps (w_nps w) p (if ingress then Ingress else Egress);
      match sel with
      | [] => Ok None
      | _ => do c <- nps_union_conns_x sel src dst ingress (cs_make false); Ok (Some c)
      end
  end.

(* allAllowedXgressConnections when there are no admin policies (exposure mode rejects them) *)
Definition xgress_conns_x (w : world) (src dst : peer) (ingress : bool) : outcome connset :=
  do npc <- np_layer_x w src dst ingress;
  Ok (match npc with Some c => c | None => cs_make true end).

Definition all_conns_x (w : world) (src dst : peer) : outcome connset :=
  if pod_to_itself src dst then Ok (cs_make true)
  else
    do eg <- xgress_conns_x w src dst false;
    if cs_isempty eg then Ok eg
    else do ing <- xgress_conns_x w src dst true;
         Ok (cs_inter eg ing).

Definition pair_conns_x (w : world) (s d : mpeer) : outcome connset :=
  do sp <- eval_peer w s;
  do dp <- eval_peer w d;
  all_conns_x w sp dp.

(* getConnectionsBetweenPeers, the rows between real peers, for any pair evaluation *)
Fixpoint row_conns_g (pc : mpeer -> mpeer -> outcome connset) (s : mpeer) (ds : list mpeer) : outcome (list rentry) :=
  match ds with
  | [] => Ok []
  | d :: t =>
      if include_pair "" s d
      then do c <- pc s d;
           do rest <- row_conns_g pc s t;
           Ok (if cs_isempty c then rest else mkRE (mp_r s) (mp_r d) c :: rest)
      else row_conns_g pc s t
  end.
Fixpoint all_rows_g (pc : mpeer -> mpeer -> outcome connset) (ss ds : list mpeer) : outcome (list rentry) :=
  match ss with
  | [] => Ok []
  | s :: t => do a <- row_conns_g pc s ds; do b <- all_rows_g pc t ds; Ok (a ++ b)
  end.

Definition list_world_g (pc : mpeer -> mpeer -> outcome connset) (w : world) : outcome list_result :=
  match w_pods w with
  | [] => Ok (mkLR [] [] false)
  | _ =>
      if negb (owners_consistent (w_pods w)) then Err (ErrConflict cf_owner_labels)
      else
        do blocks <- referenced_blocks (w_nps w);
        let peers := mpeers_of w (ip_partition blocks) in
        do es <- all_rows_g pc peers peers;
        Ok (mkLR es (map mp_r peers) false)
  end.
Definition list_world_x (w : world) : outcome list_result := list_world_g (pair_conns_x w) w.

(* ---------- exposure entries ---------- *)
Record xentry := mkXE { xe_cluster : bool; xe_nssel : selector; xe_podsel : selector; xe_conn : connset }.
Record xdata := mkXD { xd_protected : bool; xd_entries : list xentry }.
Record xpeer := mkXP { xp_peer : string; xp_in : xdata; xp_eg : xdata }.

Definition osel_or_empty (s : option selector) : selector := match s with Some x => x | None => mkSel [] [] end.

Fixpoint rep_entries (w : world) (p : pod) (nsl : labels) (cw : connset) (ingress : bool) (reps : list rep) : outcome (list xentry) :=
  match reps with
  | [] => Ok []
  | r :: t =>
      do c <- conns_with_rep w p nsl r ingress;
      do rest <- rep_entries w p nsl cw ingress t;
      if cs_isempty c then Ok rest
      else if negb (cs_isempty cw) && cs_containedin c cw then Ok rest
      else Ok (mkXE false (rp_nssel r) (osel_or_empty (rp_podsel r)) c :: rest)
  end.

(* one workload, one direction: None = the workload has no entry in that direction's map *)
Definition dir_data (w : world) (p : pod) (nsl : labels) (ingress : bool) (reps : list rep) : outcome (option xdata) :=
  do sel <- selecting_nps (w_nps w) p (if ingress then Ingress else Egress);
  match sel with
  | [] => Ok (Some (mkXD false []))
  | _ =>
      let cw := cluster_wide sel p ingress in
      do es <- rep_entries w p nsl cw ingress reps;
      let all := (if cs_isempty cw then [] else [mkXE true (mkSel [] []) (mkSel [] []) cw]) ++ es in
      match all with
      | [] => Ok None
      | _ => Ok (Some (mkXD true all))
      end
  end.

Definition default_xdata : xdata := mkXD true [].

Fixpoint exposed_peers (w : world) (reps : list rep) (wls : list (string * pod)) : outcome (list xpeer) :=
  match wls with
  | [] => Ok []
  | (k, p) :: t =>
      do pp <- pod_peer w p;
      let nsl := match pp with PPod _ l => l | PIP _ => [] end in
      do i <- dir_data w p nsl true reps;
      do e <- dir_data w p nsl false reps;
      do rest <- exposed_peers w reps t;
      match i, e with
      | None, None => Ok rest
      | _, _ => Ok (mkXP k (match i with Some x => x | None => default_xdata end)
                             (match e with Some x => x | None => default_xdata end) :: rest)
      end
  end.

(* AddObjectsForExposureAnalysis: policies and namespaces first; (B)ANPs are rejected *)
Definition is_policy_or_ns (o : obj) : bool := match o with ONetpol _ | ONamespace _ => true | _ => false end.
Definition is_admin (o : obj) : bool := match o with OAnp _ | OBanp _ => true | _ => false end.

Record xresult := mkXR { xr_list : list_result; xr_exposed : list xpeer }.

Definition exposure_objs (os : list obj) : outcome xresult :=
  if existsb is_admin os then Err ErrOther
  else
    let os' := filter is_policy_or_ns os ++ filter (fun o => negb (is_policy_or_ns o)) os in
    do w <- build_world os';
    do reps0 <- gen_reps (w_nps w) [];
    let reps := refine_reps w os reps0 in
    do base <- list_world_x w;
    match w_pods w with
    | [] => Ok (mkXR base [])
    | _ => do xs <- exposed_peers w reps (workloads_of (w_pods w) []);
           Ok (mkXR base xs)
    end.

(* ---------- correspondence ---------- *)
Record obs_xentry := mkOXE { oxe_cluster : bool; oxe_nssel : selector; oxe_podsel : selector; oxe_conn : string }.
Record obs_xpeer := mkOXP { oxp_peer : string; oxp_in_prot : bool; oxp_eg_prot : bool;
                            oxp_in : list obs_xentry; oxp_eg : list obs_xentry }.

Definition sel_same (a b : selector) : bool := creqs_eqb (sel_canon a) (sel_canon b).
Definition xentry_matches (o : obs_xentry) (m : xentry) : bool :=
  Bool.eqb (oxe_cluster o) (xe_cluster m) && sel_same (oxe_nssel o) (xe_nssel m) && sel_same (oxe_podsel o) (xe_podsel m)
  && String.eqb (oxe_conn o) (cs_string (xe_conn m)).
Definition xentries_eqb (os : list obs_xentry) (ms : list xentry) : bool :=
  forallb (fun o => existsb (xentry_matches o) ms) os
  && forallb (fun m => existsb (fun o => xentry_matches o m) os) ms
  && Nat.eqb (List.length os) (List.length ms).

Record x_case := mkXC { xc_id : nat; xc_objs : list obj; xc_obs : obs_list; xc_exposed : list obs_xpeer }.

(* 0 agree; 1 ok/err class; 2 entries; 3 peers; 5 panic; 8 the set of exposed peers; 9 a protected flag; 10 an entry list *)
Definition x_peer_code (ms : list xpeer) (o : obs_xpeer) : nat :=
  match find (fun m => String.eqb (xp_peer m) (oxp_peer o)) ms with
  | None => 8%nat
  | Some m =>
      if negb (Bool.eqb (oxp_in_prot o) (xd_protected (xp_in m)) && Bool.eqb (oxp_eg_prot o) (xd_protected (xp_eg m))) then 9%nat
      else if negb (xentries_eqb (oxp_in o) (xd_entries (xp_in m)) && xentries_eqb (oxp_eg o) (xd_entries (xp_eg m))) then 10%nat
      else 0%nat
  end.

Definition x_case_code (c : x_case) : nat :=
  match xc_obs c, exposure_objs (xc_objs c) with
  | ObsPanic, _ => 5%nat
  | ObsErr, Err _ => 0%nat
  | ObsErr, Ok _ => 1%nat
  | ObsOk _ _ _, Err _ => 1%nat
  | ObsOk es ps wn, Ok r =>
      if negb (entries_eqb es (lr_entries (xr_list r))) then 2%nat
      else if negb (rpeers_eqb ps (lr_peers (xr_list r))) then 3%nat
      else if negb (Nat.eqb (List.length (xc_exposed c)) (List.length (xr_exposed r))) then 8%nat
      else fold_left (fun acc o => if Nat.eqb acc 0 then x_peer_code (xr_exposed r) o else acc) (xc_exposed c) 0%nat
  end.

Definition x_mismatches (cs : list x_case) : list (nat * nat) :=
  flat_map (fun c => let k := x_case_code c in if Nat.eqb k 0 then [] else [(xc_id c, k)]) cs.
