# Scenario generators and the two emitters (Kubernetes manifests for the Go side, Gallina terms for
# the model side).  Every random choice comes from the random.Random instance passed in.
# One scenario = a dict; `docs(scn)` turns it into an ordered list of (manifest, coq_obj_term).
import ipaddress, json, os
from .core import cstr, cbool, cz, cnat, clist, copt

PORTS = [1, 79, 80, 81, 82, 443, 8080, 8081, 65534, 65535]
PROTOS = ['TCP', 'UDP', 'SCTP']
KEYS = ['app', 'tier', 'env']
VALS = ['a', 'b', 'c']
NAMES = ['http', 'dns', 'metrics']
NSNAMES = ['ns1', 'ns2', 'ns3', 'default']
WL_KINDS = ['Deployment', 'ReplicaSet', 'StatefulSet', 'DaemonSet', 'Job', 'CronJob', 'ReplicationController', 'Pod']
CIDRS = ['0.0.0.0/0', '10.0.0.0/8', '10.1.0.0/16', '10.1.2.0/24', '10.1.2.3/32', '10.0.0.0/9', '10.128.0.0/9',
         '255.255.255.255/32', '0.0.0.0/1', '128.0.0.0/1', '10.1.2.0/25', '10.1.2.128/25', '0.0.0.0/32', '192.168.0.0/16',
         '127.0.0.1/32', '192.168.49.2/32']   # the last two: the host address of generated workload pods / of the bare Pods below
NSKEY = 'kubernetes.io/metadata.name'


def cidr_range(c):
    n = ipaddress.ip_network(c, strict=False)
    return int(n.network_address), int(n.broadcast_address)


# ---------------------------------------------------------------- selectors
def rsel(r, allow_none=True, empty_p=0.25, keys=KEYS, vals=VALS):
    x = r.random()
    if allow_none and x < 0.2:
        return None
    if x < 0.2 + empty_p:
        return {}
    s = {}
    if r.random() < 0.7:
        # (an empty value is a value: it matches the label set to "", not a missing label)
        s['matchLabels'] = {k: ('' if r.random() < 0.12 else r.choice(vals)) for k in r.sample(keys, r.randint(1, 2))}
    if r.random() < 0.5 or not s:
        ex = []
        for k in r.sample(keys, r.randint(1, 2)):
            op = r.choice(['In', 'NotIn', 'Exists', 'DoesNotExist'])
            e = {'key': k, 'operator': op}
            if op in ('In', 'NotIn'):
                e['values'] = r.sample(vals + ['zz', ''], r.randint(1, 2))
            ex.append(e)
        s['matchExpressions'] = ex
    return s


def ns_sel(r, nss):
    """namespace selector; sometimes by the automatic metadata.name label"""
    if r.random() < 0.3:
        if r.random() < 0.5:
            return {'matchLabels': {NSKEY: r.choice(nss + ['nsX'])}}
        return {'matchExpressions': [{'key': NSKEY, 'operator': r.choice(['In', 'NotIn']), 'values': r.sample(nss + ['nsX'], r.randint(1, 2))}]}
    return rsel(r, allow_none=False)


# ---------------------------------------------------------------- worlds
def gen_world(r, anp=False, big=False, pods=True, multi_kind=True):
    nn = r.randint(1, 3)
    nss = r.sample(NSNAMES, nn)
    W = {'namespaces': [], 'workloads': [], 'netpols': [], 'anps': [], 'banp': None, 'others': []}
    for n in nss:
        W['namespaces'].append({'name': n, 'labels': {k: r.choice(VALS) for k in r.sample(KEYS, r.randint(0, 2))},
                                'obj': r.random() < 0.7})
    for i in range(r.randint(1, 8 if big else 5)):
        ports = []
        used = set()
        for j in range(r.randint(0, 3)):
            nm = r.choice(NAMES + ['', ''])
            if nm in used:
                nm = ''
            used.add(nm)
            ports.append({'port': r.choice(PORTS), 'proto': r.choice(PROTOS), 'name': nm})
            if j == 1 and r.random() < 0.25:
                # one port number under two protocols, each with its own name (dns 53/UDP and dns-tcp 53/TCP)
                other = [q for q in PROTOS if q != ports[0]['proto']]
                ports[1]['port'], ports[1]['proto'] = ports[0]['port'], r.choice(other)
                if not ports[1]['name']:
                    free = [x for x in NAMES if x not in used]
                    if free:
                        ports[1]['name'] = free[0]; used.add(free[0])
        kind = r.choice(WL_KINDS) if multi_kind else 'Deployment'
        if kind == 'Pod' and not pods:
            kind = 'Deployment'
        wl = {'kind': kind, 'ns': r.choice(nss), 'name': 'w%d' % i,
              'labels': {k: ('' if r.random() < 0.06 else r.choice(VALS)) for k in r.sample(KEYS, r.randint(0, 3))}, 'ports': ports,
              'replicas': r.choice([None, 0, 1, 2, 3]), 'owner': None}
        if kind == 'Pod' and r.random() < 0.4:
            wl['owner'] = {'name': 'own%d' % i, 'kind': r.choice(['ReplicaSet', 'StatefulSet', 'Job', 'ReplicationController'])}
            wl['extra_owner'] = r.random() < 0.4
        wl['omit_ns'] = r.random() < 0.5
        # the same name (and kind, owner) may live in two namespaces
        prev = [o for o in W['workloads'] if o['ns'] != wl['ns']]
        if prev and r.random() < 0.2:
            o = r.choice(prev)
            if not any(q['ns'] == wl['ns'] and q['name'] == o['name'] for q in W['workloads']):
                wl['name'], wl['kind'] = o['name'], o['kind']
                wl['owner'] = dict(o['owner']) if o.get('owner') else None
                wl['extra_owner'] = o.get('extra_owner', False)
        W['workloads'].append(wl)

    def npport():
        x = r.random()
        p = {}
        if r.random() < 0.7:
            p['protocol'] = r.choice(PROTOS)
        if x < 0.15:
            return p
        if x < 0.3:
            p['port'] = r.choice(NAMES)
            return p
        a = r.choice(PORTS)
        p['port'] = a
        if r.random() < 0.4:
            p['endPort'] = r.choice([q for q in PORTS if q >= a])
        return p

    def nppeer():
        x = r.random()
        if x < 0.3:
            c = r.choice(CIDRS)
            lo, hi = cidr_range(c)
            ex = [e for e in CIDRS if cidr_range(e)[0] >= lo and cidr_range(e)[1] <= hi and e != c]
            d = {'cidr': c}
            if ex and r.random() < 0.5:
                d['except'] = r.sample(ex, min(len(ex), r.randint(1, 2)))
            return {'ipBlock': d}
        p = {}
        a = ns_sel(r, nss) if r.random() < 0.6 else None
        b = rsel(r)
        if a is None and b is None:
            b = {}
        if a is not None:
            p['namespaceSelector'] = a
        if b is not None:
            p['podSelector'] = b
        return p

    def nprule(d):
        rule = {}
        if r.random() < 0.85:
            rule['from' if d == 'ingress' else 'to'] = [nppeer() for _ in range(r.randint(1, 3))]
        if r.random() < 0.75:
            rule['ports'] = [npport() for _ in range(r.randint(1, 3))]
        return rule

    for i in range(r.randint(0, 6 if big else 4)):
        p = {'ns': r.choice(nss), 'name': 'np%d' % i, 'podSelector': rsel(r, allow_none=False, empty_p=0.35)}
        x = r.random()
        if x < 0.25:
            pass
        elif x < 0.5:
            p['policyTypes'] = ['Ingress']
        elif x < 0.75:
            p['policyTypes'] = ['Egress']
        else:
            p['policyTypes'] = ['Ingress', 'Egress']
        if r.random() < 0.8:
            p['ingress'] = [nprule('ingress') for _ in range(r.randint(0, 2))]
        if r.random() < 0.8:
            p['egress'] = [nprule('egress') for _ in range(r.randint(0, 2))]
        W['netpols'].append(p)

    if r.random() < 0.25 and W['workloads']:
        cover_bias(r, W)

    # mixed-peers bias: one rule whose peers are an ipBlock FIRST and then a pod selector: every entry of the list counts
    if W['workloads'] and r.random() < 0.15:
        w = r.choice(W['workloads'])
        d_ = r.choice(['ingress', 'egress'])
        W['netpols'].append({'ns': w['ns'], 'name': 'npmixedpeers', 'podSelector': {}, 'policyTypes': ['Ingress' if d_ == 'ingress' else 'Egress'],
                             d_: [{'from' if d_ == 'ingress' else 'to': [{'ipBlock': {'cidr': '10.0.0.0/8'}}, {'podSelector': {}}],
                                   'ports': [{'protocol': 'TCP', 'port': r.choice(PORTS)}]}]})
    # label-less bias: a workload without any label facing a rule whose selector only excludes (NotIn / DoesNotExist): it is selected
    if W['workloads'] and r.random() < 0.15:
        w = r.choice(W['workloads'])
        w['labels'] = {}
        tgt = r.choice(W['workloads'])
        ex = r.choice([[{'key': 'app', 'operator': 'NotIn', 'values': ['zz']}], [{'key': 'zone', 'operator': 'DoesNotExist'}],
                       [{'key': 'app', 'operator': 'NotIn', 'values': ['zz']}, {'key': 'zone', 'operator': 'DoesNotExist'}]])
        d_ = r.choice(['ingress', 'egress'])
        W['netpols'].append({'ns': tgt['ns'], 'name': 'npnolabels', 'podSelector': {}, 'policyTypes': ['Ingress' if d_ == 'ingress' else 'Egress'],
                             d_: [{'from' if d_ == 'ingress' else 'to': [{'namespaceSelector': {}, 'podSelector': {'matchExpressions': ex}}],
                                   'ports': [{'protocol': 'TCP', 'port': r.choice(PORTS)}]}]})
    # many-ranges bias: one protocol with four separate ranges towards everybody (printed as a list of more than two items)
    if W['workloads'] and r.random() < 0.2:
        w = r.choice(W['workloads'])
        pr_ = r.choice(PROTOS)
        W['netpols'].append({'ns': w['ns'], 'name': 'npranges', 'podSelector': {}, 'policyTypes': ['Ingress'],
                             'ingress': [{'ports': [{'protocol': pr_, 'port': 79}, {'protocol': pr_, 'port': 81}, {'protocol': pr_, 'port': 443},
                                                    {'protocol': pr_, 'port': 8080, 'endPort': 8081}]}]})
    # named-port bias: a policy whose only ports are names the selected workload declares (resolved on the destination for ingress)
    named = [w for w in W['workloads'] if any(cp['name'] for cp in w['ports'])]
    if named and r.random() < 0.25:
        w = r.choice(named)
        cps = [cp for cp in w['ports'] if cp['name']]
        W['netpols'].append({'ns': w['ns'], 'name': 'npnamed', 'podSelector': {'matchLabels': dict(w['labels'])} if w['labels'] else {},
                             'policyTypes': ['Ingress'],
                             'ingress': [{'from': [{'namespaceSelector': {}}],
                                          # (without `protocol` the entry means TCP, whatever protocol the pod declares the name under)
                                          'ports': [({'port': cp['name']} if r.random() < 0.35 else {'port': cp['name'], 'protocol': cp['proto']}) for cp in cps]}]})
    if anp:
        def asubj():
            if r.random() < 0.5:
                return {'namespaces': ns_sel(r, nss)}
            return {'pods': {'namespaceSelector': ns_sel(r, nss), 'podSelector': rsel(r, allow_none=False)}}

        def aport():
            x = r.random()
            if x < 0.45:
                d = {'port': r.choice(PORTS)}
                if r.random() < 0.8:
                    d['protocol'] = r.choice(PROTOS)
                return {'portNumber': d}
            if x < 0.8:
                a = r.choice(PORTS)
                d = {'start': a, 'end': r.choice([q for q in PORTS if q >= a])}
                if r.random() < 0.8:
                    d['protocol'] = r.choice(PROTOS)
                return {'portRange': d}
            return {'namedPort': r.choice(NAMES)}

        def arule(d, k, banp):
            rule = {'name': 'r%d' % k, 'action': r.choice(['Allow', 'Deny'] if banp else ['Allow', 'Deny', 'Pass'])}
            rule['from' if d == 'ingress' else 'to'] = [asubj() for _ in range(r.randint(1, 2))]
            if r.random() < 0.7:
                # (a present but empty list matches nothing)
                rule['ports'] = [aport() for _ in range(0 if r.random() < 0.1 else r.randint(1, 3))]
            return rule

        prios = r.sample([0, 1, 5, 10, 50, 999, 1000], r.randint(0, 4))
        for i, pr in enumerate(prios):
            a = {'name': 'anp%d' % i, 'priority': pr, 'subject': asubj()}
            if r.random() < 0.8:
                a['ingress'] = [arule('ingress', k, False) for k in range(r.randint(1, 3))]
            if r.random() < 0.8:
                a['egress'] = [arule('egress', k, False) for k in range(r.randint(1, 3))]
            W['anps'].append(a)
        # overlap bias: a second ANP with the same subject / peers / ports as an existing one but other actions and
        # another priority, so that precedence (priority order, rule order, Pass delegation) decides the verdict
        if W['anps'] and r.random() < 0.6:
            import copy as _copy
            src_anp = r.choice(W['anps'])
            twin = _copy.deepcopy(src_anp)
            twin['name'] = 'anpt'
            free = [p for p in [0, 1, 2, 5, 7, 10, 50, 998, 999, 1000] if p not in [a['priority'] for a in W['anps']]]
            twin['priority'] = r.choice(free)
            for dd in ('ingress', 'egress'):
                for rule in twin.get(dd) or []:
                    rule['action'] = r.choice([a for a in ['Allow', 'Deny', 'Pass'] if a != rule['action']])
                    if r.random() < 0.3:
                        rule.pop('ports', None)
                if twin.get(dd) and r.random() < 0.3:
                    r.shuffle(twin[dd])
            W['anps'].insert(r.randrange(len(W['anps']) + 1), twin)
        # layer bias: one coherent precedence stack on the same peers and ports: a higher-precedence ANP that Passes (or
        # decides) X, a lower-precedence ANP deciding X the other way, and optionally a NetworkPolicy / BANP deciding X
        if r.random() < 0.45:
            used = [a['priority'] for a in W['anps']]
            free = [p for p in [0, 1, 2, 3, 5, 7, 10, 20, 50, 100, 500, 998, 999, 1000] if p not in used]
            p1, p2 = sorted(r.sample(free, 2))
            x = [{'portNumber': {'protocol': r.choice(PROTOS), 'port': r.choice(PORTS)}} for _ in range(r.randint(1, 2))]
            if r.random() < 0.3:
                a0 = r.choice(PORTS)
                x = [{'portRange': {'protocol': r.choice(PROTOS), 'start': a0, 'end': r.choice([q for q in PORTS if q >= a0])}}]
            if r.random() < 0.15:
                x = None
            dirs = r.choice([['ingress'], ['egress'], ['ingress', 'egress']])
            subj = {'namespaces': {}}
            def stack_rule(dd, act, nm):
                rl = {'name': nm, 'action': act, 'from' if dd == 'ingress' else 'to': [{'namespaces': {}}]}
                if x is not None:
                    rl['ports'] = [dict(q) for q in x]
                return rl
            acts = r.choice([('Pass', 'Deny'), ('Pass', 'Allow'), ('Deny', 'Allow'), ('Allow', 'Deny'), ('Pass', 'Pass')])
            hi = {'name': 'anph', 'priority': p1, 'subject': subj}
            lo = {'name': 'anpl', 'priority': p2, 'subject': subj}
            for dd in dirs:
                hi[dd] = [stack_rule(dd, acts[0], 'h')]
                lo[dd] = [stack_rule(dd, acts[1], 'l')]
            if r.random() < 0.35:
                acts = ('Deny', 'Allow')
                for dd in dirs:
                    hi[dd][0]['action'], lo[dd][0]['action'] = acts
            shadow = acts[0] != 'Pass' and r.random() < 0.6
            if shadow:
                # the lower policy is completely shadowed: it speaks of one port strictly inside the range the higher one decides
                prs = r.choice(PROTOS)
                for dd in dirs:
                    hi[dd][0]['ports'] = [{'portRange': {'protocol': prs, 'start': 80, 'end': 90}}]
                    lo[dd][0]['ports'] = [{'portNumber': {'protocol': prs, 'port': 85}}] + ([{'portNumber': {'protocol': prs, 'port': 88}}] if r.random() < 0.7 else [])
            pair = [lo, hi]          # given out of priority order
            for a in pair:
                W['anps'].insert(r.randrange(len(W['anps']) + 1), a)
            if shadow and W['workloads']:
                # ... and everything the admin policies leave open is denied by a NetworkPolicy in every namespace
                for nsx in sorted({w['ns'] for w in W['workloads']}):
                    W['netpols'].append({'ns': nsx, 'name': 'npdeny', 'podSelector': {}, 'policyTypes': ['Ingress', 'Egress']})
            elif r.random() < 0.5 and W['workloads']:
                npx = {'ns': r.choice(W['workloads'])['ns'], 'name': 'npstack', 'podSelector': {}, 'policyTypes': ['Ingress', 'Egress']}
                nports = [{'protocol': q['portNumber']['protocol'], 'port': q['portNumber']['port']} for q in (x or []) if 'portNumber' in q]
                for dd in ('ingress', 'egress'):
                    if r.random() < 0.7:
                        rl = {}
                        if nports and r.random() < 0.7:
                            rl['ports'] = nports if r.random() < 0.6 else [{'protocol': 'TCP', 'port': r.choice(PORTS)}]
                        npx[dd] = [rl]
                W['netpols'].append(npx)
        if r.random() < 0.3:
            # named-port bias: a BANP (and sometimes an ANP) rule on a named port; the name must be resolved on the
            # DESTINATION pod, whose declaration usually differs from the source's
            nm = r.choice(NAMES)
            bd = r.choice(['ingress', 'egress'])
            W['banp'] = {'name': 'default', 'subject': {'namespaces': {}},
                         bd: [{'name': 'bn', 'action': r.choice(['Deny', 'Allow']), 'from' if bd == 'ingress' else 'to': [{'namespaces': {}}],
                               'ports': [{'namedPort': nm}]},
                              {'name': 'bn2', 'action': 'Deny', 'from' if bd == 'ingress' else 'to': [{'namespaces': {}}],
                               'ports': [{'namedPort': r.choice(NAMES)}]}]}
            for w in W['workloads']:
                if r.random() < 0.7 and not any(cp['name'] == nm for cp in w['ports']):
                    w['ports'].append({'port': r.choice(PORTS), 'proto': r.choice(PROTOS), 'name': nm})
        elif r.random() < 0.5:
            b = {'name': 'default', 'subject': asubj()}
            if r.random() < 0.8:
                b['ingress'] = [arule('ingress', k, True) for k in range(r.randint(1, 3))]
            if r.random() < 0.8:
                b['egress'] = [arule('egress', k, True) for k in range(r.randint(1, 3))]
            W['banp'] = b
    return W


def cover_bias(r, W):
    """policies whose rules only TOGETHER cover every protocol and port: the per-protocol port space is cut at
    boundary points and the pieces are dealt to several rules / policies selecting the same pods"""
    ns = r.choice(W['workloads'])['ns']
    d = r.choice(['ingress', 'egress'])
    holders = r.randint(2, 3)
    pieces = [[] for _ in range(holders)]
    for proto in PROTOS:
        cuts = sorted(r.sample([q for q in PORTS if q < 65535], r.randint(0, 2)))
        lo = 1
        segs = []
        for c in cuts:
            segs.append((lo, c))
            lo = c + 1
        segs.append((lo, 65535))
        if r.random() < 0.15:
            segs.pop(r.randrange(len(segs)))       # sometimes leave a hole: not the full set
        for a, b in segs:
            tgt = r.sample(range(holders), r.randint(1, holders)) if r.random() < 0.5 else [r.randrange(holders)]
            for t in tgt:
                if (a, b) == (1, 65535) and r.random() < 0.6:
                    pieces[t].append({'protocol': proto})
                elif a == b:
                    pieces[t].append({'protocol': proto, 'port': a})
                else:
                    pieces[t].append({'protocol': proto, 'port': a, 'endPort': b})
    same_policy = r.random() < 0.4
    key = 'from' if d == 'ingress' else 'to'
    rules = []
    for ps in pieces:
        if not ps:
            continue
        r.shuffle(ps)
        rule = {'ports': ps}
        if r.random() < 0.3:
            rule[key] = [{'namespaceSelector': {}}]
        rules.append(rule)
    sel = {} if r.random() < 0.7 else rsel(r, allow_none=False)
    if same_policy:
        W['netpols'].append({'ns': ns, 'name': 'cov0', 'podSelector': sel, 'policyTypes': ['Ingress' if d == 'ingress' else 'Egress'], d: rules})
    else:
        for i, rule in enumerate(rules):
            W['netpols'].append({'ns': ns, 'name': 'cov%d' % i, 'podSelector': sel, 'policyTypes': ['Ingress' if d == 'ingress' else 'Egress'], d: [rule]})


# ---------------------------------------------------------------- manifests
def _cports(ports):
    cps = []
    for p in ports:
        c = {'containerPort': p['port'], 'protocol': p['proto']}
        if p['name']:
            c['name'] = p['name']
            if p['port'] % 2 == 0 and p['port'] <= 55535:
                c['hostPort'] = p['port'] + 10000       # a named port stands for the container port, whatever the host port
        cps.append(c)
    return cps


def workload_manifest(w):
    cps = _cports(w['ports'])
    # the ports of a workload are those of all its containers: with two or more ports, spread them over two containers
    # (the named ones in the first container when there are both kinds)
    first = [q for q in cps if q.get('name')]
    if not first or len(first) == len(cps):
        first = cps[:1]
    containers = [{'name': 'c', 'image': 'x', 'ports': cps}] if len(cps) < 2 else \
                 [{'name': 'c', 'image': 'x', 'ports': first}, {'name': 'c2', 'image': 'x', 'ports': [q for q in cps if q not in first]}]
    tmpl = {'metadata': {'labels': dict(w['labels'])}, 'spec': {'containers': containers}}
    meta = {'name': w['name'], 'namespace': w['ns']}
    if w.get('omit_ns') and w['ns'] == 'default':
        meta = {'name': w['name']}        # the parser puts namespaced objects without a namespace into default
    if w['kind'] != 'Pod':
        # labels of the controller OBJECT say nothing about its pods: those come from the pod template alone
        meta['labels'] = {'app': 'a', 'tier': 'b', 'env': 'c'}
    k = w['kind']
    rep = w.get('replicas')
    if k == 'Pod':
        m = {'apiVersion': 'v1', 'kind': 'Pod', 'metadata': dict(meta, labels=dict(w['labels'])),
             'spec': tmpl['spec'], 'status': {'hostIP': '192.168.49.2', 'podIPs': [{'ip': '10.244.0.5'}]}}
        if w.get('owner'):
            oav = {'ReplicationController': 'v1', 'Job': 'batch/v1', 'CronJob': 'batch/v1'}.get(w['owner']['kind'], 'apps/v1')
            refs = [{'apiVersion': oav, 'kind': w['owner']['kind'], 'name': w['owner']['name'],
                     'uid': 'u-' + w['owner']['name'], 'controller': True}]
            if w.get('extra_owner'):
                # a non-controller owner listed first: it must not become the workload
                refs.insert(0, {'apiVersion': 'v1', 'kind': 'PodGroup', 'name': 'grp-' + w['name'], 'uid': 'g-' + w['name'], 'controller': False})
            m['metadata']['ownerReferences'] = refs
        return m
    if k in ('Deployment', 'ReplicaSet', 'StatefulSet', 'DaemonSet'):
        spec = {'selector': {'matchLabels': dict(w['labels'])}, 'template': tmpl}
        if rep is not None and k != 'DaemonSet':
            spec['replicas'] = rep
        if k == 'StatefulSet':
            spec['serviceName'] = 'svc'
        return {'apiVersion': 'apps/v1', 'kind': k, 'metadata': meta, 'spec': spec}
    if k == 'ReplicationController':
        spec = {'selector': dict(w['labels']), 'template': tmpl}
        if rep is not None:
            spec['replicas'] = rep
        return {'apiVersion': 'v1', 'kind': k, 'metadata': meta, 'spec': spec}
    if k == 'Job':
        spec = {'template': tmpl}
        if rep is not None:
            spec['parallelism'] = rep
        return {'apiVersion': 'batch/v1', 'kind': k, 'metadata': meta, 'spec': spec}
    if k == 'CronJob':
        return {'apiVersion': 'batch/v1', 'kind': k, 'metadata': meta,
                'spec': {'schedule': '* * * * *', 'jobTemplate': {'spec': {'template': tmpl}}}}
    raise ValueError(k)


def netpol_manifest(p):
    spec = {'podSelector': p['podSelector']}
    for k in ('policyTypes', 'ingress', 'egress'):
        if k in p and p[k] is not None:
            spec[k] = p[k]
    meta = {'name': p['name']}
    if p['ns'] is not None:
        meta['namespace'] = p['ns']
    return {'apiVersion': 'networking.k8s.io/v1', 'kind': 'NetworkPolicy', 'metadata': meta, 'spec': spec}


def anp_manifest(a):
    spec = {'priority': a['priority'], 'subject': a['subject']}
    for k in ('ingress', 'egress'):
        if k in a and a[k] is not None:
            spec[k] = a[k]
    return {'apiVersion': 'policy.networking.k8s.io/v1alpha1', 'kind': 'AdminNetworkPolicy', 'metadata': {'name': a['name']}, 'spec': spec}


def banp_manifest(b):
    spec = {'subject': b['subject']}
    for k in ('ingress', 'egress'):
        if k in b and b[k] is not None:
            spec[k] = b[k]
    return {'apiVersion': 'policy.networking.k8s.io/v1alpha1', 'kind': 'BaselineAdminNetworkPolicy',
            'metadata': {'name': b.get('name', 'default')}, 'spec': spec}


def ns_manifest(n):
    return {'apiVersion': 'v1', 'kind': 'Namespace', 'metadata': {'name': n['name'], 'labels': dict(n['labels'])}}


# ---------------------------------------------------------------- Gallina terms
def c_labels(d):
    return clist(['(%s, %s)' % (cstr(k), cstr(v)) for k, v in (d or {}).items()])


OPS = {'In': 'OpIn', 'NotIn': 'OpNotIn', 'Exists': 'OpExists', 'DoesNotExist': 'OpDoesNotExist'}


def c_sel(s):
    s = s or {}
    reqs = ['(mkReq %s %s %s)' % (cstr(e['key']), OPS[e['operator']], clist([cstr(v) for v in e.get('values') or []]))
            for e in s.get('matchExpressions') or []]
    return '(mkSel %s %s)' % (c_labels(s.get('matchLabels')), clist(reqs))


def c_osel(s):
    return 'None' if s is None else '(Some %s)' % c_sel(s)


def c_cports(ports):
    return clist(['(mkCPort %s %s %s)' % (cstr(p['name']), cz(p['port']), p['proto'] or 'TCP') for p in ports])


def c_ivl(c):
    lo, hi = cidr_range(c)
    return '(%s, %s)' % (cz(lo), cz(hi))


def valid_cidr(c):
    try:
        ipaddress.ip_network(c, strict=False)
        return '/' in c
    except ValueError:
        return False


def c_np_peer(p):
    has_sel = 'podSelector' in p or 'namespaceSelector' in p
    ipb = p.get('ipBlock')
    if ipb is not None and has_sel:
        return 'NPCombined'
    if ipb is None and not has_sel:
        return 'NPEmpty'
    if ipb is not None:
        if not valid_cidr(ipb['cidr']) or not all(valid_cidr(e) for e in ipb.get('except') or []):
            return 'NPIPBad'
        return '(NPIP %s %s)' % (c_ivl(ipb['cidr']), clist([c_ivl(e) for e in ipb.get('except') or []]))
    return '(NPSel %s %s)' % (c_osel(p.get('namespaceSelector')), c_osel(p.get('podSelector')))


def c_np_port(pp):
    proto = pp.get('protocol') or 'TCP'
    if 'port' not in pp or pp['port'] is None:
        pv = 'PAll'
    elif isinstance(pp['port'], int):
        pv = '(PNum %s)' % cz(pp['port'])
    else:
        pv = '(PName %s)' % cstr(pp['port'])
    return '(mkNpPort %s %s %s)' % (proto, pv, copt(cz(pp['endPort'])) if pp.get('endPort') is not None else 'None')


def c_np_rule(rule, d):
    peers = rule.get('from' if d == 'ingress' else 'to') or []
    return '(mkNpRule %s %s)' % (clist([c_np_peer(p) for p in peers]), clist([c_np_port(pp) for pp in rule.get('ports') or []]))


def c_netpol(p):
    types = ['Ingress' if t == 'Ingress' else 'Egress' for t in p.get('policyTypes') or []]
    return '(mkNetpol %s %s %s %s %s %s)' % (
        cstr(p['ns'] or ''), cstr(p['name']), c_sel(p['podSelector']), clist(types),
        clist([c_np_rule(x, 'ingress') for x in p.get('ingress') or []]),
        clist([c_np_rule(x, 'egress') for x in p.get('egress') or []]))


def c_admin_peer(s):
    has_ns = s.get('namespaces') is not None
    has_pods = s.get('pods') is not None
    if has_ns == has_pods:
        return 'APBad'
    if has_ns:
        return '(APNamespaces %s)' % c_sel(s['namespaces'])
    return '(APPods %s %s)' % (c_sel(s['pods'].get('namespaceSelector')), c_sel(s['pods'].get('podSelector')))


def c_admin_port(ap):
    n = sum(1 for k in ('portNumber', 'portRange', 'namedPort') if ap.get(k) is not None)
    if n != 1:
        return 'APortBad'
    if ap.get('portNumber') is not None:
        d = ap['portNumber']
        return '(APortNum %s %s)' % (d.get('protocol') or 'TCP', cz(d['port']))
    if ap.get('portRange') is not None:
        d = ap['portRange']
        return '(APortRange %s %s %s)' % (d.get('protocol') or 'TCP', cz(d['start']), cz(d['end']))
    return '(APortNamed %s)' % cstr(ap['namedPort'])


ACTIONS = {'Allow': 'AAllow', 'Deny': 'ADeny', 'Pass': 'APass'}


def c_admin_rule(rule, d):
    peers = rule.get('from' if d == 'ingress' else 'to') or []
    ports = rule.get('ports')
    return '(mkARule %s %s %s %s)' % (cstr(rule.get('name', '')), ACTIONS.get(rule.get('action'), 'AUnknown'),
                                      clist([c_admin_peer(p) for p in peers]),
                                      'None' if ports is None else '(Some %s)' % clist([c_admin_port(x) for x in ports]))


def c_anp(a):
    return '(mkAnp %s %s %s %s %s)' % (cstr(a['name']), cz(a['priority']), c_admin_peer(a['subject']),
                                       clist([c_admin_rule(x, 'ingress') for x in a.get('ingress') or []]),
                                       clist([c_admin_rule(x, 'egress') for x in a.get('egress') or []]))


def c_banp(b):
    return '(mkBanp %s %s %s %s)' % (cstr(b.get('name', 'default')), c_admin_peer(b['subject']),
                                     clist([c_admin_rule(x, 'ingress') for x in b.get('ingress') or []]),
                                     clist([c_admin_rule(x, 'egress') for x in b.get('egress') or []]))


def c_workload(w):
    if w['kind'] == 'Pod':
        own = 'None' if not w.get('owner') else '(Some (%s, %s))' % (cstr(w['owner']['name']), cstr(w['owner']['kind']))
        return '(OPod (mkPodDoc %s %s %s %s %s true))' % (cstr(w['ns']), cstr(w['name']), c_labels(w['labels']), c_cports(w['ports']), own)
    rep = w.get('replicas')
    return '(OWorkload (mkWl %s %s %s %s %s %s))' % (cstr(w['kind']), cstr(w['ns']), cstr(w['name']),
                                                    'None' if rep is None else '(Some %s)' % cz(rep), c_labels(w['labels']), c_cports(w['ports']))


def docs(W):
    """ordered (manifest, coq obj) pairs, canonical order; callers may permute"""
    res = []
    for n in W['namespaces']:
        if n['obj']:
            res.append((ns_manifest(n), '(ONamespace (mkNs %s %s))' % (cstr(n['name']), c_labels(n['labels']))))
    for w in W['workloads']:
        res.append((workload_manifest(w), c_workload(w)))
    for p in W['netpols']:
        res.append((netpol_manifest(p), '(ONetpol %s)' % c_netpol(p)))
    for a in W['anps']:
        res.append((anp_manifest(a), '(OAnp %s)' % c_anp(a)))
    if W.get('banp'):
        res.append((banp_manifest(W['banp']), '(OBanp %s)' % c_banp(W['banp'])))
    for o in W.get('others') or []:
        res.append((o, 'OOther'))
    return res


def write_dir(path, doc_list, files=None):
    """write manifests; files = list of lists of indices (file partition, in order); default one doc per file"""
    os.makedirs(path, exist_ok=True)
    if files is None:
        files = [[i] for i in range(len(doc_list))]
    for k, idxs in enumerate(files):
        with open(os.path.join(path, 'f%03d.yaml' % k), 'w') as f:
            for i in idxs:
                f.write('---\n')
                f.write(json.dumps(doc_list[i], indent=1))
                f.write('\n')


# ---------------------------------------------------------------- observations -> Gallina
def parse_ip_range(s):
    a, b = s.split('-')
    return int(ipaddress.ip_address(a)), int(ipaddress.ip_address(b))


def c_rpeer(s, is_ip=None):
    if is_ip is None:
        is_ip = (not '/' in s) and s[:1].isdigit() and '-' in s
    if is_ip:
        try:
            lo, hi = parse_ip_range(s)
            return '(RIP %s %s)' % (cz(lo), cz(hi))
        except Exception:
            return '(RW %s)' % cstr('<not a single IP range> ' + s)   # fails the C05 checker and the peer comparison
    return '(RW %s)' % cstr(s)


def c_conn(c):
    def f(p):
        if p in c['pp']:
            return '(Some (mkPS %s [] []))' % clist(['(%s, %s)' % (cz(a), cz(b)) for a, b in c['pp'][p]])
        return 'None'
    return '(mkCS %s %s %s %s)' % (cbool(c['all']), f('TCP'), f('UDP'), f('SCTP'))


def c_obs_list(o):
    if o['outcome'] == 'panic':
        return 'ObsPanic'
    if o['outcome'] == 'err':
        return 'ObsErr'
    ipset = {p['str'] for p in o['peers'] if p['ip']}
    es = ['(mkRE %s %s %s)' % (c_rpeer(e['src'], e['src'] in ipset), c_rpeer(e['dst'], e['dst'] in ipset), c_conn(e['conn'])) for e in o['conns']]
    ps = [c_rpeer(p['str'], p['ip']) for p in o['peers']]
    return '(ObsOk %s %s %s)' % (clist(es), clist(ps), cbool(bool(o.get('nil_result'))))
