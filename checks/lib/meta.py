# Metamorphic relations between two `list` runs of the real implementation, decided by the pointwise
# checker reports_rel_b of Model/Connlist.v (evaluated by coqc on the two observed reports).
import copy, re
from . import core, gen, listcorr
from .core import cstr, cnat, clist

REL = {'eq': 0, 'le': 1, 'ge': 2}


def sel_matches(sel, labels):
    if sel is None:
        return True
    for k, v in (sel.get('matchLabels') or {}).items():
        if labels.get(k) != v:
            return False
    for e in sel.get('matchExpressions') or []:
        k, op = e['key'], e['operator']
        if op == 'In' and not (k in labels and labels[k] in e['values']):
            return False
        if op == 'NotIn' and (k in labels and labels[k] in e['values']):
            return False
        if op == 'Exists' and k not in labels:
            return False
        if op == 'DoesNotExist' and k in labels:
            return False
    return True


def wl_string(w):
    if w['kind'] == 'Pod':
        own = w.get('owner')
        return '%s/%s[%s]' % (w['ns'], own['name'], own['kind']) if own else '%s/%s[Pod]' % (w['ns'], w['name'])
    return '%s/%s[%s]' % (w['ns'], w['name'], w['kind'])


def governs(p, d):
    """d in {'ingress','egress'}"""
    t = p.get('policyTypes')
    if t:
        return ('Ingress' if d == 'ingress' else 'Egress') in t
    if d == 'ingress':
        return True
    return len(p.get('egress') or []) > 0


def effective_types(p):
    return [x for x, d in (('Ingress', 'ingress'), ('Egress', 'egress')) if governs(p, d)]


def selected(W, p):
    return [w for w in W['workloads'] if w['ns'] == (p['ns'] or 'default') and sel_matches(p['podSelector'], w['labels'])]


def c_report(o, rename=None):
    """(entries term, peers term) of an ok observation; rename: function on workload strings"""
    ipset = {p['str'] for p in o['peers'] if p['ip']}
    rn = rename or (lambda s: s)
    def rp(s):
        return gen.c_rpeer(s, True) if s in ipset else gen.c_rpeer(rn(s), False)
    es = ['(mkRE %s %s %s)' % (rp(e['src']), rp(e['dst']), gen.c_conn(e['conn'])) for e in o['conns']]
    ps = [rp(p['str']) for p in o['peers']]
    return clist(es), clist(ps)


def coq_rel(cases):
    """cases: list of (id, rel, skip_src, skip_dst, obs1, obs2[, rename]) -> mismatching ids"""
    text = list(listcorr.HEADER)
    text.append('Definition cases : list meta_case := [')
    items = []
    local = []
    for c in cases:
        cid, rel, ss, sd, o1, o2 = c[:6]
        local.append(cid)
        cid = len(local) - 1          # small nat literals only (ids are mapped back below)
        rn0 = c[6] if len(c) > 6 else (lambda s: s)
        # both reports come from the implementation: workload names are consistently replaced by short ids, which only
        # makes the string comparisons inside the checker cheap
        ids = {}
        def rn(s, rn0=rn0, ids=ids):
            s = rn0(s)
            if s not in ids:
                ids[s] = 'w%d' % len(ids)
            return ids[s]
        e1, p1 = c_report(o1, rn)
        e2, p2 = c_report(o2, rn)
        items.append('(mkMC %s %s %s %s %s %s %s %s)' % (cnat(cid), cnat(REL[rel]), clist([cstr(rn(x)) for x in ss]), clist([cstr(rn(x)) for x in sd]), e1, p1, e2, p2))
    text.append(';\n'.join(items))
    text.append('].')
    text.append('Definition MM := Eval vm_compute in meta_mismatches cases.')
    text.append('Print MM.')
    rc, out, err = core.run_coq_text('\n'.join(text))
    if rc != 0:
        raise RuntimeError('coqc on meta cases failed: ' + err[-2000:])
    mm = core.parse_pairs(out, 'MM')
    if mm is None:
        raise RuntimeError('could not parse coqc output: ' + out[-800:])
    return [local[i] for i, _ in mm]


def run_pairs(h, pairs, opts1=None, opts2=None):
    """pairs: list of (id, W1, W2).  Runs list on both; returns {id: (obs1, obs2, docs1, docs2)}"""
    cmds = []
    keep = {}
    for cid, W1, W2 in pairs:
        d1, d2 = gen.docs(W1), gen.docs(W2)
        p1, p2 = h.dir_for('a%d' % cid), h.dir_for('b%d' % cid)
        gen.write_dir(p1, [m for m, _ in d1])
        gen.write_dir(p2, [m for m, _ in d2])
        c1 = {'id': 'a%d' % cid, 'cmd': 'list', 'dir': p1}
        c2 = {'id': 'b%d' % cid, 'cmd': 'list', 'dir': p2}
        c1.update(opts1(cid) if opts1 else {})
        c2.update(opts2(cid) if opts2 else {})
        cmds += [c1, c2]
        keep[cid] = (d1, d2)
    outs = h.run(cmds)
    res = {}
    for j, (cid, W1, W2) in enumerate(pairs):
        res[cid] = (outs[2 * j], outs[2 * j + 1], keep[cid][0], keep[cid][1])
    return res
