(* EvalPoint.v — mirror of the single-connection evaluation used by `eval`
   (/repo/pkg/netpol/eval/check_eval.go CheckIfAllowed and the rule walkers ruleConnsContain,
   anpPortContains, Check{In,E}gressConnAllowed of internal/k8s), which does NOT go through
   connection sets: it walks the rules and stops at the first match.  The verdict cache is
   modelled in Engine.v; here is the computation a cache miss performs.
   Executable definitions only. *)
From Coq Require Import List ZArith Bool String.
From NP Require Import IntervalSet ConnSet World Eval.
Import ListNotations.
Open Scope list_scope.
Open Scope Z_scope.

(* doesRulePortContain *)
Definition rule_port_contains (rproto pr : proto) (range : option (Z * Z)) (n : Z) : bool :=
  proto_eqb rproto pr &&
  match range with None => false | Some (s, e) => (s <=? n) && (n <=? e) end.

(* ruleConnsContain: every entry is examined (an entry that cannot be evaluated is reported whatever its position) *)
Fixpoint np_ports_contain (ports : list np_port) (dst : peer) (pr : proto) (n : Z) : outcome bool :=
  match ports with
  | [] => Ok false
  | pp :: t =>
      match pp_port pp with
      | PAll => do rest <- np_ports_contain t dst pr n; Ok (proto_eqb (pp_proto pp) pr || rest)
      | _ => do r <- get_ports_range pp dst;
             do rest <- np_ports_contain t dst pr n;
             Ok (rule_port_contains (pp_proto pp) pr r n || rest)
      end
  end.

Definition np_rule_contains (ports : list np_port) (dst : peer) (pr : proto) (n : Z) : outcome bool :=
  match ports with [] => Ok true | _ => np_ports_contain ports dst pr n end.

(* IngressAllowedConn / EgressAllowedConn: every rule is examined *)
Fixpoint np_rules_allow (npns : string) (rules : list np_rule) (other dst : peer) (pr : proto) (n : Z)
  : outcome bool :=
  match rules with
  | [] => Ok false
  | r :: t =>
      do sel <- np_rule_selects npns (nr_peers r) other;
      if negb sel then np_rules_allow npns t other dst pr n
      else do c <- np_rule_contains (nr_ports r) dst pr n;
           do rest <- np_rules_allow npns t other dst pr n;
           Ok (c || rest)
  end.

Definition np_policy_allows (np : netpol) (src dst : peer) (ingress : bool) (pr : proto) (n : Z) : outcome bool :=
  if ingress then np_rules_allow (np_ns np) (np_in np) src dst pr n
  else np_rules_allow (np_ns np) (np_eg np) dst dst pr n.

Fixpoint nps_allow (sel : list netpol) (src dst : peer) (ingress : bool) (pr : proto) (n : Z) : outcome bool :=
  match sel with
  | [] => Ok false
  | np :: t => do a <- np_policy_allows np src dst ingress pr n;
               do rest <- nps_allow t src dst ingress pr n;
               Ok (a || rest)
  end.

(* allowedXgressConnectionByNetpols: None = not captured *)
Definition np_layer_point (w : world) (src dst : peer) (ingress : bool) (pr : proto) (n : Z) : outcome (option bool) :=
  match (if ingress then dst else src) with
  | PIP _ => Ok None
  | PPod p _ =>
      do sel <- selecting_nps (w_nps w) p (if ingress then Ingress else Egress);
      match sel with
      | [] => Ok None
      | _ => do a <- nps_allow sel src dst ingress pr n; Ok (Some a)
      end
  end.

(* anpPortContains *)
Fixpoint admin_ports_contain (ports : list admin_port) (dst : peer) (pr : proto) (n : Z) : outcome bool :=
  match ports with
  | [] => Ok false
  | ap :: t =>
      match ap with
      | APortBad => Err ErrAdminPort
      | APortNum p a => if rule_port_contains p pr (Some (a, a)) n then Ok true else admin_ports_contain t dst pr n
      | APortRange p lo hi => if rule_port_contains p pr (Some (lo, hi)) n then Ok true else admin_ports_contain t dst pr n
      | APortNamed nm =>
          match dst with
          | PIP _ => admin_ports_contain t dst pr n
          | PPod d _ =>
              match pod_named_port (p_ports d) nm with
              | Some (q, m) => if rule_port_contains q pr (Some (m, m)) n then Ok true else admin_ports_contain t dst pr n
              | None => admin_ports_contain t dst pr n
              end
          end
      end
  end.

Definition admin_rule_contains (ports : option (list admin_port)) (dst : peer) (pr : proto) (n : Z) : outcome bool :=
  match ports with None => Ok true | Some l => admin_ports_contain l dst pr n end.

Inductive rule_res := RNotCaptured | RPass | RAllow | RDeny.

(* determineConnResByAction *)
Definition res_of_action (a : action) (is_banp : bool) : outcome rule_res :=
  match a with
  | APass => if is_banp then Err ErrAdminAction else Ok RPass
  | AAllow => Ok RAllow
  | ADeny => Ok RDeny
  | AUnknown => Err ErrAdminAction
  end.

(* Check{In,E}gressConnAllowed of an (B)ANP: first capturing rule decides *)
Fixpoint admin_rules_check (rules : list admin_rule) (other dst : peer) (is_banp : bool) (pr : proto) (n : Z)
  : outcome rule_res :=
  match rules with
  | [] => Ok RNotCaptured
  | r :: t =>
      match ar_peers r with
      | [] => Err ErrAdminPeer
      | _ =>
          do sel <- admin_peers_select (ar_peers r) other;
          if negb sel then admin_rules_check t other dst is_banp pr n
          else do c <- admin_rule_contains (ar_ports r) dst pr n;
               if negb c then admin_rules_check t other dst is_banp pr n
               else res_of_action (ar_action r) is_banp
      end
  end.

(* allowedXgressConnectionByAdminNetpols: Some b = decided, None = pass or not captured *)
Fixpoint anps_check (anps : list anp) (src dst : peer) (ingress : bool) (pr : proto) (n : Z) : outcome (option bool) :=
  match anps with
  | [] => Ok None
  | a :: t =>
      let rules := if ingress then a_in a else a_eg a in
      do sel <- admin_selects (a_subject a) rules (if ingress then dst else src);
      if negb sel then anps_check t src dst ingress pr n
      else do r <- admin_rules_check rules (if ingress then src else dst) dst false pr n;
           match r with
           | RNotCaptured => anps_check t src dst ingress pr n
           | RPass => Ok None
           | RAllow => Ok (Some true)
           | RDeny => Ok (Some false)
           end
  end.

(* allowedXgressByBaselineAdminNetpolOrByDefault *)
Definition banp_check (w : world) (src dst : peer) (ingress : bool) (pr : proto) (n : Z) : outcome bool :=
  match w_banp w with
  | None => Ok true
  | Some b =>
      let rules := if ingress then b_in b else b_eg b in
      do sel <- admin_selects (b_subject b) rules (if ingress then dst else src);
      if negb sel then Ok true
      else do r <- admin_rules_check rules (if ingress then src else dst) dst true pr n;
           match r with
           | RNotCaptured => Ok true
           | RAllow => Ok true
           | RDeny => Ok false
           | RPass => Err ErrAdminAction
           end
  end.

(* allowedXgressConnection *)
Definition xgress_allowed (w : world) (src dst : peer) (ingress : bool) (pr : proto) (n : Z) : outcome bool :=
  do a <- anps_check (w_anps w) src dst ingress pr n;
  match a with
  | Some b => Ok b
  | None =>
      do np <- np_layer_point w src dst ingress pr n;
      match np with
      | Some b => Ok b
      | None => banp_check w src dst ingress pr n
      end
  end.

(* CheckIfAllowed on resolved peers (cache miss) *)
Definition check_allowed (w : world) (src dst : peer) (pr : proto) (n : Z) : outcome bool :=
  if pod_to_itself src dst then Ok true
  else do eg <- xgress_allowed w src dst false pr n;
       if negb eg then Ok false
       else xgress_allowed w src dst true pr n.
