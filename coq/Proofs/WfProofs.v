(* WfProofs.v — the boolean well-formedness checker of reports (run on the implementation's own
   output) decides the property it is named after, and the model's own reports satisfy the
   per-entry part of it.  No axioms. *)
From Coq Require Import List ZArith Bool String Lia.
From NP Require Import IntervalSet IntervalSetProofs ConnSet ConnSetProofs World Eval Spec EvalProofs Build Connlist ListProofs.
Import ListNotations.
Open Scope list_scope.
Open Scope Z_scope.

Lemma rpeer_eqb_spec a b : rpeer_eqb a b = true <-> a = b.
Proof.
  destruct a as [s|a1 a2], b as [t|b1 b2]; cbn [rpeer_eqb]; split; intros H; try discriminate.
  - apply String.eqb_eq in H. congruence.
  - inversion H. apply String.eqb_refl.
  - apply andb_true_iff in H. destruct H as [H1 H2]. f_equal; lia.
  - inversion H; subst. rewrite !Z.eqb_refl. reflexivity.
Qed.

(* the canonical-form checker of Connlist.v is the invariant of ConnSetProofs.v *)
Lemma cs_canonb_spec c : cs_canonb c = true <-> cs_ninv c.
Proof.
  rewrite <- cs_ninvb_spec. unfold cs_canonb, cs_ninvb.
  assert (E : forall p, match cs_get c p with
                        | None => true
                        | Some ps => r_ps_wfb ps && negb (iempty (ps_ports ps)) && negb (cs_all c)
                                     && match ps_named ps, ps_excl ps with [], [] => true | _, _ => false end
                        end =
                        match cs_get c p with
                        | None => true
                        | Some ps => ps_wfb ps && ps_numericb ps && negb (iempty (ps_ports ps)) && negb (cs_all c)
                        end).
  { intros p. destruct (cs_get c p) as [ps|]; [|reflexivity].
    unfold r_ps_wfb, ps_wfb, ps_numericb.
    destruct (canonb (ps_ports ps) && withinb minPort maxPort (ps_ports ps)), (negb (iempty (ps_ports ps))), (negb (cs_all c)),
      (ps_named ps), (ps_excl ps); reflexivity. }
  unfold all_protos. cbn [forallb]. rewrite !E. reflexivity.
Qed.

(* ---------- what the checker decides ---------- *)
Definition WF_entry (peers : list rpeer) (e : rentry) : Prop :=
  re_src e <> re_dst e /\
  ~ (rpeer_is_ip (re_src e) = true /\ rpeer_is_ip (re_dst e) = true) /\
  cs_isempty (re_conn e) = false /\
  cs_ninv (re_conn e) /\
  In (re_src e) peers /\ In (re_dst e) peers.

Lemma existsb_rpeer p l : existsb (rpeer_eqb p) l = true <-> In p l.
Proof.
  rewrite existsb_exists. split.
  - intros (x & Hin & He). apply rpeer_eqb_spec in He. subst; exact Hin.
  - intros H. exists p. split; [exact H | apply rpeer_eqb_spec; reflexivity].
Qed.

Lemma entry_okb_spec peers e : entry_okb peers e = true <-> WF_entry peers e.
Proof.
  unfold entry_okb, WF_entry. rewrite !andb_true_iff, !negb_true_iff, cs_canonb_spec, !existsb_rpeer.
  split.
  - intros (((((H1 & H2) & H3) & H4) & H5) & H6).
    split; [intros He; apply rpeer_eqb_spec in He; congruence|].
    split; [intros [Ha Hb]; rewrite Ha, Hb in H2; discriminate|].
    auto.
  - intros (H1 & H2 & H3 & H4 & H5 & H6).
    assert (A : rpeer_eqb (re_src e) (re_dst e) = false).
    { destruct (rpeer_eqb (re_src e) (re_dst e)) eqn:He; [|reflexivity]. apply rpeer_eqb_spec in He. contradiction. }
    assert (B : rpeer_is_ip (re_src e) && rpeer_is_ip (re_dst e) = false).
    { destruct (rpeer_is_ip (re_src e)), (rpeer_is_ip (re_dst e)); try reflexivity. exfalso. apply H2. auto. }
    auto 10.
Qed.

Lemma nodup_keys_spec es :
  nodup_keys es = true <-> NoDup (map (fun e => (re_src e, re_dst e)) es).
Proof.
  induction es as [|e t IH]; cbn [nodup_keys map]; [split; [constructor | reflexivity]|].
  rewrite andb_true_iff, negb_true_iff, IH. split.
  - intros [Hn Ht]. constructor; [|exact Ht]. intros Hin. apply in_map_iff in Hin.
    destruct Hin as (f & Hf & Hin). rewrite <- not_true_iff_false, existsb_exists in Hn. apply Hn.
    exists f. split; [exact Hin|]. inversion Hf. rewrite !(proj2 (rpeer_eqb_spec _ _)) by reflexivity. reflexivity.
  - intros Hnd. inversion Hnd as [|x xs Hnin Hnd']; subst. split; [|exact Hnd'].
    rewrite <- not_true_iff_false, existsb_exists. intros (f & Hin & He). apply Hnin.
    apply andb_true_iff in He. destruct He as [H1 H2]. apply rpeer_eqb_spec in H1, H2.
    apply in_map_iff. exists f. split; [congruence | exact Hin].
Qed.

(* tiles_from lo l: the intervals of l, in order, are non-empty, adjacent, start at lo and end at maxIP *)
Lemma tiles_from_cover l : forall lo a,
  tiles_from lo l = true -> lo <= a <= maxIP ->
  exists v, In v l /\ fst v <= a <= snd v.
Proof.
  induction l as [|[x y] t IH]; intros lo a H Ha; cbn [tiles_from] in H.
  - lia.
  - apply andb_true_iff in H. destruct H as [H Ht]. apply andb_true_iff in H. destruct H as [Hx Hxy].
    destruct (Z_le_gt_dec a y).
    + exists (x, y). split; [left; reflexivity | cbn; lia].
    + destruct (IH (y + 1) a Ht) as (v & Hin & Hv); [lia|]. exists v. split; [right; exact Hin | exact Hv].
Qed.

Lemma tiles_from_disjoint l : forall lo,
  tiles_from lo l = true ->
  (forall v, In v l -> lo <= fst v /\ fst v <= snd v /\ snd v <= maxIP) /\
  (forall l1 u l2 v l3, l = l1 ++ u :: l2 ++ v :: l3 -> snd u < fst v).
Proof.
  induction l as [|[x y] t IH]; intros lo H; cbn [tiles_from] in H.
  - split; [intros ? [] | intros l1 u l2 v l3 E; destruct l1; discriminate].
  - apply andb_true_iff in H. destruct H as [H Ht]. apply andb_true_iff in H. destruct H as [Hx Hxy].
    destruct (IH _ Ht) as [Hb Hd]. split.
    + intros v [<- | Hv]; cbn [fst snd].
      * assert (y <= maxIP).
        { destruct t as [|[x' y'] t']; cbn [tiles_from] in Ht; [lia|].
          destruct (Hb (x', y') (or_introl eq_refl)) as (? & ? & ?). cbn in *. lia. }
        lia.
      * destruct (Hb v Hv) as (? & ? & ?). lia.
    + intros l1 u l2 v l3 E. destruct l1 as [|w l1]; cbn [app] in E; inversion E; subst.
      * assert (Hv : In v (l2 ++ v :: l3)) by (apply in_or_app; right; left; reflexivity).
        destruct (Hb v Hv) as (? & ? & ?). cbn [snd]. lia.
      * eapply Hd. reflexivity.
Qed.

(* the peers part: every address 0..maxIP lies in some IP peer (coverage) *)
Lemma in_insert_ivl v u l : In v (insert_ivl u l) <-> v = u \/ In v l.
Proof.
  induction l as [|w t IH]; cbn [insert_ivl]; [cbn; intuition|].
  destruct (fst u <? fst w); cbn [In]; [intuition|]. rewrite IH. intuition.
Qed.
Lemma in_sort_ivl v l : In v (fold_right insert_ivl [] l) <-> In v l.
Proof.
  induction l as [|u t IH]; cbn [fold_right]; [reflexivity|]. rewrite in_insert_ivl, IH. cbn. intuition.
Qed.

Theorem ip_partition_okb_covers ps a :
  ip_partition_okb ps = true -> 0 <= a <= maxIP ->
  exists lo hi, In (RIP lo hi) ps /\ lo <= a <= hi.
Proof.
  unfold ip_partition_okb. intros H Ha.
  destruct (tiles_from_cover _ 0 a H Ha) as ([lo hi] & Hin & Hv).
  apply (proj1 (in_sort_ivl _ _)) in Hin. unfold ip_peers_of in Hin. apply (proj1 (in_flat_map _ _ _)) in Hin.
  destruct Hin as (p & Hp & Hin). destruct p as [s|x y]; [contradiction|].
  destruct Hin as [E|[]]. inversion E; subst. exists lo, hi. split; [exact Hp | exact Hv].
Qed.

(* ---------- the model's own reports: per-entry well-formedness ---------- *)
Lemma workloads_of_subset pods : forall acc k p,
  In (k, p) (workloads_of pods acc) -> (exists k0, In (k0, p) acc) \/ In p pods.
Proof.
  induction pods as [|q t IH]; intros acc k p H; cbn [workloads_of] in H.
  - left. eauto.
  - apply IH in H. destruct H as [(k0 & H) | H]; [|right; right; exact H].
    destruct (existsb (fun e => String.eqb (fst e) (wl_str q)) acc).
    + apply in_map_iff in H. destruct H as ([k1 p1] & He & Hin). cbn [fst] in He.
      destruct (String.eqb k1 (wl_str q)); inversion He; subst; [right; left; reflexivity | left; eauto].
    + apply in_app_or in H. destruct H as [H | [H | []]]; [left; eauto|]. inversion H; subst. right; left; reflexivity.
Qed.

Theorem list_world_entries_wf w focus hi r :
  list_world w focus hi = Ok r -> world_okb w = true -> forallb pod_okb (w_pods w) = true ->
  forall e, In e (lr_entries r) ->
    re_src e <> re_dst e /\
    ~ (rpeer_is_ip (re_src e) = true /\ rpeer_is_ip (re_dst e) = true) /\
    cs_isempty (re_conn e) = false /\ cs_ninv (re_conn e).
Proof.
  intros H Hw Hpods e He.
  destruct (list_world_entries_sound _ _ _ _ H e He) as (s & d & sp & dp & Hs & Hd & Hinc & Hsrc & Hdst & Hsp & Hdp & Hc & Hne).
  unfold include_pair in Hinc. apply andb_true_iff in Hinc. destruct Hinc as [Hinc _].
  apply andb_true_iff in Hinc. destruct Hinc as [Hip Hneq].
  rewrite Hsrc, Hdst. split; [|split; [|split]].
  - intros E. rewrite E in Hneq. rewrite (proj2 (rpeer_eqb_spec _ _) eq_refl) in Hneq. discriminate.
  - intros [A B]. rewrite A, B in Hip. discriminate.
  - exact Hne.
  - assert (Hdok : peer_okb dp = true).
    { unfold eval_peer in Hdp. destruct (mp_pod d) as [p|] eqn:Hp.
      - unfold pod_peer in Hdp. destruct (find_ns (p_ns p) (w_nss w)); inversion Hdp; subst. cbn [peer_okb].
        unfold mpeers_of in Hd. apply in_app_or in Hd. destruct Hd as [Hd | Hd].
        + apply in_map_iff in Hd. destruct Hd as (b & Hb & _). subst d. discriminate.
        + apply in_map_iff in Hd. destruct Hd as ([k q] & Hq & Hin). subst d. cbn [mp_pod snd] in Hp. inversion Hp; subst q.
          apply workloads_of_subset in Hin. destruct Hin as [(k0 & []) | Hin].
          rewrite forallb_forall in Hpods. apply Hpods; exact Hin.
      - inversion Hdp; subst. reflexivity. }
    apply (all_conns_ok _ _ _ _ Hdok Hw Hc).
Qed.
