(* Proofs about Model/IntervalSet.v: denotation (imem) and canonicity of every operation,
   and uniqueness of the canonical form. No axioms. *)
From Coq Require Import List ZArith Bool Lia ZifyBool.
From NP Require Import IntervalSet.
Import ListNotations.
Open Scope Z_scope.

(* arithmetic over boolean comparisons: unfold in_ivl and let lia (with ZifyBool) finish *)
Ltac ivl_lia := unfold in_ivl in *; cbn [fst snd] in *; lia.

Lemma lb_canon_weaken b b' s : lb_canon b s -> b' <= b -> lb_canon b' s.
Proof.
  destruct s as [|[l h] t]; cbn [lb_canon]; intros Hc Hb.
  - exact I.
  - destruct Hc as (H1 & H2 & H3). split; [lia|]. split; [lia|exact H3].
Qed.

Lemma lb_canonb_spec b s : lb_canonb b s = true <-> lb_canon b s.
Proof.
  revert b. induction s as [|[l h] t IH]; intros b; cbn [lb_canonb lb_canon].
  - split; intros _; [exact I|reflexivity].
  - rewrite !andb_true_iff, IH, !Z.leb_le. tauto.
Qed.

Lemma canonb_spec s : canonb s = true <-> canon s.
Proof.
  destruct s as [|[l h] t]; unfold canonb, canon.
  - split; intros _; [exact I|reflexivity].
  - apply lb_canonb_spec.
Qed.

Lemma canon_lb s : canon s <-> exists b, lb_canon b s.
Proof.
  destruct s as [|[l h] t]; unfold canon.
  - split; [intros _; exists 0; exact I | intros _; exact I].
  - split.
    + intros Hc. exists l. exact Hc.
    + intros [b Hc]. cbn [lb_canon] in *. destruct Hc as (H1 & H2 & H3).
      split; [lia|]. split; [lia|exact H3].
Qed.

Lemma canon_tail v s : canon (v :: s) -> canon s.
Proof.
  intros Hc. apply canon_lb in Hc. destruct Hc as [b Hc]. destruct v as [l h].
  cbn [lb_canon] in Hc. destruct Hc as (_ & _ & H3).
  apply canon_lb. exists (h + 2). exact H3.
Qed.

Lemma imem_lb b s x : lb_canon b s -> imem x s = true -> b <= x.
Proof.
  revert b. induction s as [|[l h] t IH]; intros b Hc Hm; cbn [imem lb_canon] in *.
  - discriminate Hm.
  - destruct Hc as (H1 & H2 & H3). apply orb_true_iff in Hm. destruct Hm as [Hm|Hm].
    + ivl_lia.
    + specialize (IH _ H3 Hm). lia.
Qed.

(* below the bound nothing is a member *)
Lemma imem_below b s x : lb_canon b s -> x < b -> imem x s = false.
Proof.
  intros Hc Hx. destruct (imem x s) eqn:E; [|reflexivity].
  apply (imem_lb _ _ _ Hc) in E. lia.
Qed.

Lemma imem_app x s1 s2 : imem x (s1 ++ s2) = imem x s1 || imem x s2.
Proof.
  induction s1 as [|v t IH]; cbn [app imem].
  - reflexivity.
  - rewrite IH. apply orb_assoc.
Qed.

Lemma iadd_mem b l h s x :
  lb_canon b s -> l <= h -> imem x (iadd l h s) = in_ivl x (l, h) || imem x s.
Proof.
  revert b l h. induction s as [|[l' h'] t IH]; intros b l h Hc Hlh; cbn [iadd imem].
  - reflexivity.
  - cbn [lb_canon] in Hc. destruct Hc as (H1 & H2 & H3).
    destruct (Z.ltb_spec (h + 1) l') as [Hlt|Hge].
    + cbn [imem]. reflexivity.
    + destruct (Z.ltb_spec (h' + 1) l) as [Hlt2|Hge2].
      * cbn [imem]. rewrite (IH _ _ _ H3 Hlh).
        destruct (in_ivl x (l', h')), (in_ivl x (l, h)); reflexivity.
      * assert (Hmm : Z.min l l' <= Z.max h h') by lia.
        rewrite (IH _ _ _ H3 Hmm).
        destruct (imem x t); ivl_lia.
Qed.

Lemma iadd_canon_gen b b' l h s :
  lb_canon b s -> l <= h -> b' <= l -> b' <= b -> lb_canon b' (iadd l h s).
Proof.
  revert b b' l h. induction s as [|[l' h'] t IH]; intros b b' l h Hc Hlh Hbl Hbb; cbn [iadd].
  - cbn [lb_canon]. split; [lia|]. split; [lia|exact I].
  - cbn [lb_canon] in Hc. destruct Hc as (H1 & H2 & H3).
    destruct (Z.ltb_spec (h + 1) l') as [Hlt|Hge].
    + cbn [lb_canon]. split; [lia|]. split; [lia|]. split; [lia|]. split; [lia|exact H3].
    + destruct (Z.ltb_spec (h' + 1) l) as [Hlt2|Hge2].
      * cbn [lb_canon]. split; [lia|]. split; [lia|].
        apply (IH (h' + 2)); [exact H3|lia|lia|lia].
      * apply (IH (h' + 2)); [exact H3|lia|lia|lia].
Qed.

Lemma iadd_canon b l h s :
  lb_canon b s -> l <= h -> lb_canon (Z.min b l) (iadd l h s).
Proof.
  intros Hc Hlh. apply (iadd_canon_gen b); [exact Hc|lia|lia|lia].
Qed.

Lemma ihole_mem b l h s x :
  lb_canon b s -> l <= h -> imem x (ihole l h s) = imem x s && negb (in_ivl x (l, h)).
Proof.
  revert b. induction s as [|[l' h'] t IH]; intros b Hc Hlh; cbn [ihole].
  - reflexivity.
  - pose proof Hc as Hc0. cbn [lb_canon] in Hc. destruct Hc as (H1 & H2 & H3).
    specialize (IH _ H3 Hlh).
    destruct (Z.ltb_spec h l') as [Hlt|Hge].
    + cbn [imem]. destruct (imem x t) eqn:E.
      * apply (imem_lb _ _ _ H3) in E. ivl_lia.
      * ivl_lia.
    + destruct (Z.ltb_spec h' l) as [Hlt2|Hge2].
      * cbn [imem]. rewrite IH. destruct (imem x t); ivl_lia.
      * rewrite !imem_app, IH.
        destruct (Z.ltb_spec l' l) as [Hl|Hl]; destruct (Z.ltb_spec h h') as [Hh|Hh];
          cbn [imem]; destruct (imem x t); ivl_lia.
Qed.

Lemma ihole_canon b l h s :
  lb_canon b s -> l <= h -> lb_canon b (ihole l h s).
Proof.
  revert b. induction s as [|[l' h'] t IH]; intros b Hc Hlh; cbn [ihole].
  - exact I.
  - pose proof Hc as Hc0. cbn [lb_canon] in Hc. destruct Hc as (H1 & H2 & H3).
    specialize (IH _ H3 Hlh).
    destruct (Z.ltb_spec h l') as [Hlt|Hge].
    + exact Hc0.
    + destruct (Z.ltb_spec h' l) as [Hlt2|Hge2].
      * cbn [lb_canon]. split; [lia|]. split; [lia|exact IH].
      * destruct (Z.ltb_spec l' l) as [Hl|Hl]; destruct (Z.ltb_spec h h') as [Hh|Hh];
          cbn [app lb_canon].
        -- split; [lia|]. split; [lia|]. split; [lia|]. split; [lia|exact IH].
        -- split; [lia|]. split; [lia|]. apply (lb_canon_weaken (h' + 2)); [exact IH|lia].
        -- split; [lia|]. split; [lia|exact IH].
        -- apply (lb_canon_weaken (h' + 2)); [exact IH|lia].
Qed.

Lemma iadd_ivl_mem v s x : canon s -> imem x (iadd_ivl v s) = in_ivl x v || imem x s.
Proof.
  intros Hc. apply canon_lb in Hc. destruct Hc as [b Hc]. destruct v as [l h].
  unfold iadd_ivl. cbn [fst snd]. destruct (Z.leb_spec l h) as [Hle|Hgt].
  - apply (iadd_mem b); assumption.
  - destruct (imem x s); ivl_lia.
Qed.

Lemma iadd_ivl_canon v s : canon s -> canon (iadd_ivl v s).
Proof.
  intros Hc. destruct v as [l h]. unfold iadd_ivl. cbn [fst snd].
  destruct (Z.leb_spec l h) as [Hle|Hgt]; [|exact Hc].
  apply canon_lb in Hc. destruct Hc as [b Hc].
  apply canon_lb. exists (Z.min b l). apply iadd_canon; assumption.
Qed.

Lemma ihole_ivl_mem v s x : canon s -> imem x (ihole_ivl s v) = imem x s && negb (in_ivl x v).
Proof.
  intros Hc. apply canon_lb in Hc. destruct Hc as [b Hc]. destruct v as [l h].
  unfold ihole_ivl. cbn [fst snd]. destruct (Z.leb_spec l h) as [Hle|Hgt].
  - apply (ihole_mem b); assumption.
  - destruct (imem x s); ivl_lia.
Qed.

Lemma ihole_ivl_canon v s : canon s -> canon (ihole_ivl s v).
Proof.
  intros Hc. destruct v as [l h]. unfold ihole_ivl. cbn [fst snd].
  destruct (Z.leb_spec l h) as [Hle|Hgt]; [|exact Hc].
  apply canon_lb in Hc. destruct Hc as [b Hc].
  apply canon_lb. exists b. apply ihole_canon; assumption.
Qed.

Lemma iunion_canon_gen a b : canon a -> canon (iunion a b).
Proof.
  intros Hc. induction b as [|v b IH].
  - exact Hc.
  - change (iunion a (v :: b)) with (iadd_ivl v (iunion a b)).
    apply iadd_ivl_canon. exact IH.
Qed.

(* b may be ANY list of intervals (possibly empty ones / unsorted): only a must be canonical *)
Lemma iunion_mem_gen a b x : canon a -> imem x (iunion a b) = imem x a || existsb (in_ivl x) b.
Proof.
  intros Hc. induction b as [|v b IH].
  - cbn [iunion fold_right existsb]. unfold iunion. cbn [fold_right].
    rewrite orb_false_r. reflexivity.
  - change (iunion a (v :: b)) with (iadd_ivl v (iunion a b)).
    rewrite iadd_ivl_mem by (apply iunion_canon_gen; exact Hc).
    rewrite IH. cbn [existsb].
    destruct (in_ivl x v), (imem x a), (existsb (in_ivl x) b); reflexivity.
Qed.

Lemma isub_canon_gen a b : canon a -> canon (isub a b).
Proof.
  revert a. induction b as [|v b IH]; intros a Hc.
  - exact Hc.
  - change (isub a (v :: b)) with (isub (ihole_ivl a v) b).
    apply IH. apply ihole_ivl_canon. exact Hc.
Qed.

Lemma isub_mem_gen a b x : canon a -> imem x (isub a b) = imem x a && negb (existsb (in_ivl x) b).
Proof.
  revert a. induction b as [|v b IH]; intros a Hc.
  - unfold isub. cbn [fold_left existsb negb]. rewrite andb_true_r. reflexivity.
  - change (isub a (v :: b)) with (isub (ihole_ivl a v) b).
    rewrite IH by (apply ihole_ivl_canon; exact Hc).
    rewrite ihole_ivl_mem by exact Hc. cbn [existsb].
    destruct (in_ivl x v), (imem x a), (existsb (in_ivl x) b); reflexivity.
Qed.

Lemma imem_existsb s x : imem x s = existsb (in_ivl x) s.
Proof.
  induction s as [|v t IH]; cbn [imem existsb].
  - reflexivity.
  - rewrite IH. reflexivity.
Qed.

Lemma iunion_mem a b x : canon a -> imem x (iunion a b) = imem x a || imem x b.
Proof.
  intros Hc. rewrite (imem_existsb b). apply iunion_mem_gen. exact Hc.
Qed.

Lemma iunion_canon a b : canon a -> canon (iunion a b).
Proof. apply iunion_canon_gen. Qed.

Lemma isub_mem a b x : canon a -> imem x (isub a b) = imem x a && negb (imem x b).
Proof.
  intros Hc. rewrite (imem_existsb b). apply isub_mem_gen. exact Hc.
Qed.

Lemma isub_canon a b : canon a -> canon (isub a b).
Proof. apply isub_canon_gen. Qed.

Lemma iinter_mem a b x : canon a -> imem x (iinter a b) = imem x a && imem x b.
Proof.
  intros Hc. unfold iinter. rewrite isub_mem by exact Hc. rewrite isub_mem by exact Hc.
  destruct (imem x a), (imem x b); reflexivity.
Qed.

Lemma iinter_canon a b : canon a -> canon (iinter a b).
Proof. intros Hc. unfold iinter. apply isub_canon. exact Hc. Qed.

Lemma iempty_spec s : canon s -> (iempty s = true <-> forall x, imem x s = false).
Proof.
  intros Hc. destruct s as [|[l h] t]; cbn [iempty].
  - split; [intros _ x; reflexivity | intros _; reflexivity].
  - split; [intros Hf; discriminate Hf|].
    intros Hall. specialize (Hall l). cbn [imem] in Hall.
    unfold canon in Hc. cbn [lb_canon] in Hc. destruct Hc as (_ & H2 & _).
    apply orb_false_iff in Hall. destruct Hall as [Hall _]. ivl_lia.
Qed.

Lemma isubset_spec a b :
  canon a -> (isubset a b = true <-> forall x, imem x a = true -> imem x b = true).
Proof.
  intros Hc. unfold isubset.
  rewrite (iempty_spec (isub a b)) by (apply isub_canon; exact Hc).
  split.
  - intros Hall x Hx. specialize (Hall x). rewrite isub_mem in Hall by exact Hc.
    rewrite Hx in Hall. destruct (imem x b); [reflexivity|discriminate Hall].
  - intros Hall x. rewrite isub_mem by exact Hc. specialize (Hall x).
    destruct (imem x a); [|reflexivity]. rewrite Hall by reflexivity. reflexivity.
Qed.

(* uniqueness of the canonical form *)
Lemma canon_ext_lb a : forall b ba bb,
  lb_canon ba a -> lb_canon bb b -> (forall x, imem x a = imem x b) -> a = b.
Proof.
  induction a as [|[l h] t IH]; intros b ba bb Ha Hb Hext.
  - destruct b as [|[l' h'] t']; [reflexivity|].
    cbn [lb_canon] in Hb. destruct Hb as (_ & Hb2 & _).
    specialize (Hext l'). cbn [imem] in Hext. symmetry in Hext.
    apply orb_false_iff in Hext. destruct Hext as [Hext _]. ivl_lia.
  - destruct b as [|[l' h'] t'].
    + cbn [lb_canon] in Ha. destruct Ha as (_ & Ha2 & _).
      specialize (Hext l). cbn [imem] in Hext.
      apply orb_false_iff in Hext. destruct Hext as [Hext _]. ivl_lia.
    + pose proof Ha as Ha0. pose proof Hb as Hb0.
      cbn [lb_canon] in Ha, Hb.
      destruct Ha as (Ha1 & Ha2 & Ha3). destruct Hb as (Hb1 & Hb2 & Hb3).
      assert (Hca : lb_canon l ((l, h) :: t)).
      { cbn [lb_canon]. split; [lia|]. split; [lia|exact Ha3]. }
      assert (Hcb : lb_canon l' ((l', h') :: t')).
      { cbn [lb_canon]. split; [lia|]. split; [lia|exact Hb3]. }
      (* lower bounds agree *)
      assert (Hll : l = l').
      { assert (H1 : l' <= l).
        { apply (imem_lb l' ((l', h') :: t') l Hcb). rewrite <- Hext.
          cbn [imem]. apply orb_true_iff. left. ivl_lia. }
        assert (H2 : l <= l').
        { apply (imem_lb l ((l, h) :: t) l' Hca). rewrite Hext.
          cbn [imem]. apply orb_true_iff. left. ivl_lia. }
        lia. }
      subst l'.
      (* upper bounds agree *)
      assert (Hhh : h = h').
      { assert (H1 : h' <= h).
        { destruct (Z_le_gt_dec h' h) as [Hle|Hgt]; [exact Hle|exfalso].
          pose proof (Hext (h + 1)) as E. cbn [imem] in E.
          rewrite (imem_below (h + 2) t (h + 1) Ha3) in E by lia.
          rewrite orb_false_r in E.
          destruct (imem (h + 1) t'); ivl_lia. }
        assert (H2 : h <= h').
        { destruct (Z_le_gt_dec h h') as [Hle|Hgt]; [exact Hle|exfalso].
          pose proof (Hext (h' + 1)) as E. cbn [imem] in E.
          rewrite (imem_below (h' + 2) t' (h' + 1) Hb3) in E by lia.
          rewrite orb_false_r in E.
          destruct (imem (h' + 1) t); ivl_lia. }
        lia. }
      subst h'.
      f_equal.
      apply (IH t' (h + 2) (h + 2) Ha3 Hb3).
      intros x. destruct (Z_lt_le_dec x (h + 2)) as [Hlt|Hge].
      * rewrite (imem_below (h + 2) t x Ha3 Hlt).
        rewrite (imem_below (h + 2) t' x Hb3 Hlt). reflexivity.
      * pose proof (Hext x) as E. cbn [imem] in E.
        assert (Hf : in_ivl x (l, h) = false) by ivl_lia.
        rewrite Hf in E. cbn [orb] in E. exact E.
Qed.

Lemma canon_ext a b : canon a -> canon b -> (forall x, imem x a = imem x b) -> a = b.
Proof.
  intros Ha Hb Hext. apply canon_lb in Ha. apply canon_lb in Hb.
  destruct Ha as [ba Ha]. destruct Hb as [bb Hb].
  exact (canon_ext_lb a b ba bb Ha Hb Hext).
Qed.

Lemma iset_eqb_spec a b : iset_eqb a b = true <-> a = b.
Proof.
  revert b. induction a as [|[l h] t IH]; intros b; destruct b as [|[l' h'] t']; cbn [iset_eqb].
  - split; intros _; reflexivity.
  - split; intros Hf; discriminate Hf.
  - split; intros Hf; discriminate Hf.
  - unfold ivl_eqb. cbn [fst snd]. rewrite !andb_true_iff, IH, !Z.eqb_eq. split.
    + intros [[H1 H2] H3]. subst. reflexivity.
    + intros Heq. injection Heq as H1 H2 H3. subst. repeat split.
Qed.

Lemma iset_eqb_denote a b :
  canon a -> canon b -> (iset_eqb a b = true <-> forall x, imem x a = imem x b).
Proof.
  intros Ha Hb. rewrite iset_eqb_spec. split.
  - intros Heq x. subst b. reflexivity.
  - intros Hext. apply canon_ext; assumption.
Qed.

Lemma icanon_of_canon l : canon (icanon_of l).
Proof.
  change (icanon_of l) with (iunion [] l). apply iunion_canon_gen. exact I.
Qed.

Lemma icanon_of_mem l x : imem x (icanon_of l) = existsb (in_ivl x) l.
Proof.
  change (icanon_of l) with (iunion [] l). rewrite iunion_mem_gen by exact I.
  cbn [imem orb]. reflexivity.
Qed.

Lemma withinb_sound lo hi s x : withinb lo hi s = true -> imem x s = true -> lo <= x <= hi.
Proof.
  induction s as [|[l h] t IH]; cbn [withinb imem]; intros Hw Hm.
  - discriminate Hm.
  - apply andb_true_iff in Hw. destruct Hw as [Hw1 Hw2].
    apply orb_true_iff in Hm. destruct Hm as [Hm|Hm].
    + ivl_lia.
    + apply IH; assumption.
Qed.

Lemma withinb_complete lo hi s :
  canon s -> (forall x, imem x s = true -> lo <= x <= hi) -> withinb lo hi s = true.
Proof.
  induction s as [|[l h] t IH]; intros Hc Hall; cbn [withinb].
  - reflexivity.
  - assert (Hlh : l <= h).
    { unfold canon in Hc. cbn [lb_canon] in Hc. destruct Hc as (_ & H2 & _). exact H2. }
    assert (Hl : lo <= l <= hi).
    { apply Hall. cbn [imem]. apply orb_true_iff. left. ivl_lia. }
    assert (Hh : lo <= h <= hi).
    { apply Hall. cbn [imem]. apply orb_true_iff. left. ivl_lia. }
    rewrite IH.
    + lia.
    + apply (canon_tail (l, h)). exact Hc.
    + intros x Hx. apply Hall. cbn [imem]. rewrite Hx. apply orb_true_r.
Qed.

(* the one-interval full set *)
Lemma ifull_canon lo hi : lo <= hi -> canon (ifull lo hi).
Proof.
  intros Hle. unfold ifull, canon. cbn [lb_canon]. split; [lia|]. split; [lia|exact I].
Qed.

Lemma ifull_mem lo hi x : imem x (ifull lo hi) = (lo <=? x) && (x <=? hi).
Proof.
  unfold ifull. cbn [imem]. rewrite orb_false_r. reflexivity.
Qed.

(* a canonical set containing every point of [lo,hi] and nothing else is the one-interval set *)
Lemma canon_full_unique lo hi s :
  lo <= hi -> canon s -> (forall x, imem x s = (lo <=? x) && (x <=? hi)) -> s = ifull lo hi.
Proof.
  intros Hle Hc Hall. apply canon_ext.
  - exact Hc.
  - apply ifull_canon. exact Hle.
  - intros x. rewrite ifull_mem. apply Hall.
Qed.
