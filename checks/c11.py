# C11 — connection sets form a correct, canonical set algebra over protocol x port.
# Theorems: coq/Properties/C11.v.  Correspondence: random operation sequences over pools of
# sets run on the real common.ConnectionSet (harness/go/verifalg) and on the Gallina mirror
# (Model/ConnSet.v, Model/AlgCase.v) — full pool state compared after every step — plus the
# verified semantic oracle (sem_check) applied to the implementation's own states.
import json, os, subprocess
from .lib import core
from .lib.core import cstr, cbool, cz, cnat, clist, copt

PORTS = [1, 2, 79, 80, 81, 82, 443, 8080, 65534, 65535]
NAMES = ['http', 'dns', 'metrics']
PROTOS = ['TCP', 'UDP', 'SCTP']
CODES = {1: 'wrong denotation (all operands canonical)', 2: 'named-port containment clause violated',
         3: 'an operand other than the updated one was modified',
         4: 'canonical operands but non-canonical result', 5: 'AddConnection left a non-canonical name-free set',
         6: 'wrong denotation with a non-canonical operand'}


def gen_ps(r, names_p):
    x = r.random()
    if x < 0.22:
        ps = {'all': True, 'ranges': [], 'named': []}
    else:
        rs = []
        for _ in range(r.randint(0, 3) if x > 0.3 else 0):
            a = r.choice(PORTS)
            b = r.choice([q for q in PORTS if q >= a]) if r.random() < 0.5 else a
            if r.random() < 0.05:
                a, b = b + 1, a  # empty interval
            rs.append([a, b])
        if not rs and r.random() < 0.8:
            rs = [[80, 80]]
        ps = {'all': False, 'ranges': rs, 'named': []}
    if r.random() < names_p:
        ps['named'] = r.sample(NAMES, r.randint(1, 2))
    return ps


def gen_case(r, cid, tier):
    n = r.randint(2, 5)
    length = r.randint(6, 40 if tier == 'quick' else 80)
    names_p = r.choice([0.0, 0.0, 0.15, 0.4])
    raw = r.random() < 0.35       # stream B: AddConnection onto anything (non-canonical forms reachable)
    ops = []
    fresh = set()
    if r.random() < 0.2:
        # a named port taken away and given back: (ports minus {name}) united with {name} must not keep the name excluded
        names_p = max(names_p, 0.15)
        p, nm = r.choice(PROTOS), r.choice(NAMES)
        base = r.choice([{'all': True, 'ranges': [], 'named': []}, {'all': False, 'ranges': [[80, 90]], 'named': []}, {'all': False, 'ranges': [[1, 65535]], 'named': [nm]}])
        ops += [{'op': 'new', 'i': 0, 'all': False}, {'op': 'addconn', 'i': 0, 'proto': p, 'ps': base},
                {'op': 'new', 'i': 1, 'all': False}, {'op': 'addconn', 'i': 1, 'proto': p, 'ps': {'all': False, 'ranges': [], 'named': [nm]}},
                {'op': 'sub', 'i': 0, 'j': 1}, {'op': 'union', 'i': 0, 'j': 1}, {'op': 'isall', 'i': 0}, {'op': 'string', 'i': 0}]
        fresh.update([0, 1])
    if n >= 3 and r.random() < 0.15:
        # a copy is a value: re-allowing, in the copy, a named port that the original excludes must leave the original alone
        p, nm = r.choice(PROTOS), r.choice(NAMES)
        ops += [{'op': 'new', 'i': 0, 'all': True}, {'op': 'new', 'i': 1, 'all': False},
                {'op': 'addconn', 'i': 1, 'proto': p, 'ps': {'all': False, 'ranges': [], 'named': [nm]}},
                {'op': 'sub', 'i': 0, 'j': 1}, {'op': 'copy', 'i': 2, 'j': 0}, {'op': 'union', 'i': 2, 'j': 1},
                {'op': 'string', 'i': 0}, {'op': 'equal', 'i': 0, 'j': 2}]
        fresh.discard(0); fresh.add(1); fresh.discard(2)
    if r.random() < 0.15:
        # two sets that differ only in the NAME of their one named port are different sets
        p = r.choice(PROTOS)
        n1, n2 = r.sample(NAMES, 2)
        ops += [{'op': 'new', 'i': 0, 'all': False}, {'op': 'addconn', 'i': 0, 'proto': p, 'ps': {'all': False, 'ranges': [[80, 80]], 'named': [n1]}},
                {'op': 'new', 'i': 1, 'all': False}, {'op': 'addconn', 'i': 1, 'proto': p, 'ps': {'all': False, 'ranges': [[80, 80]], 'named': [n2]}},
                {'op': 'equal', 'i': 0, 'j': 1}, {'op': 'containedin', 'i': 0, 'j': 1}, {'op': 'containedin', 'i': 1, 'j': 0}]
        fresh.update([0, 1])
    if r.random() < 0.2:
        # aliasing: the full set intersected with a set must not share that set's port sets - updating the result afterwards must
        # leave the operand alone (the whole pool is compared after every step)
        p = r.choice(PROTOS)
        ops += [{'op': 'new', 'i': 0, 'all': True}, {'op': 'new', 'i': 1, 'all': False}, {'op': 'addconn', 'i': 1, 'proto': p, 'ps': {'all': False, 'ranges': [[80, 90]], 'named': []}},
                {'op': 'inter', 'i': 0, 'j': 1}, {'op': 'addconn', 'i': 0, 'proto': p, 'ps': {'all': False, 'ranges': [[443, 443]], 'named': []}},
                {'op': 'string', 'i': 1}, {'op': 'equal', 'i': 0, 'j': 1}]
        fresh.discard(0); fresh.add(1)
    if r.random() < 0.2:
        # a set with a named port is contained only in a set with that name or with every port number: nearly every number is not enough
        p, nm = r.choice(PROTOS), r.choice(NAMES)
        big = r.choice([[[1, 999], [1001, 65535]], [[1, 65534]], [[2, 65535]], [[1, 80], [82, 65535]], [[1, 65535]]])
        ops += [{'op': 'new', 'i': 0, 'all': False}, {'op': 'addconn', 'i': 0, 'proto': p, 'ps': {'all': False, 'ranges': [[80, 80]], 'named': [nm]}},
                {'op': 'new', 'i': 1, 'all': False}, {'op': 'addconn', 'i': 1, 'proto': p, 'ps': {'all': False, 'ranges': big, 'named': []}},
                {'op': 'containedin', 'i': 0, 'j': 1}, {'op': 'containedin', 'i': 1, 'j': 0}, {'op': 'equal', 'i': 0, 'j': 1}]
        fresh.update([0, 1])
    for _ in range(length):
        x = r.random()
        i = r.randrange(n)
        j = r.choice([k for k in range(n) if k != i])
        if x < 0.10:
            ops.append({'op': 'new', 'i': i, 'all': r.random() < 0.4}); fresh.add(i) if not ops[-1]['all'] else fresh.discard(i)
            if ops[-1]['all'] and not raw:
                fresh.discard(i)
        elif x < 0.32:
            if not raw and i not in fresh:
                # the way rule sets are built in the repo: fresh empty set, then AddConnection calls
                ops.append({'op': 'new', 'i': i, 'all': False}); fresh.add(i)
            p = r.choice(PROTOS)
            if r.random() < 0.25 and not raw:
                # protocol-only triples are frequent in rule sets; keep full3 rare outside stream B
                pass
            ops.append({'op': 'addconn', 'i': i, 'proto': p, 'ps': gen_ps(r, names_p)})
        elif x < 0.34:
            ops.append({'op': 'alltcp', 'i': i}); fresh.discard(i)
        elif x < 0.46:
            ops.append({'op': 'union', 'i': i, 'j': j}); fresh.discard(i)
        elif x < 0.56:
            ops.append({'op': 'inter', 'i': i, 'j': j}); fresh.discard(i)
        elif x < 0.68:
            ops.append({'op': 'sub', 'i': i, 'j': j}); fresh.discard(i)
        elif x < 0.73:
            ops.append({'op': 'copy', 'i': i, 'j': j}); fresh.discard(i)
        elif x < 0.79:
            ops.append({'op': 'equal', 'i': i, 'j': j})
        elif x < 0.86:
            ops.append({'op': 'containedin', 'i': i, 'j': j})
        elif x < 0.89:
            ops.append({'op': 'isempty', 'i': i})
        elif x < 0.91:
            ops.append({'op': 'isall', 'i': i})
        elif x < 0.95:
            ops.append({'op': 'contains', 'i': i, 'proto': r.choice(PROTOS), 'port': r.choice(PORTS + [3, 100, 65000])})
        elif x < 0.98:
            ops.append({'op': r.choice(['string', 'propstring']), 'i': i})
        else:
            ops.append({'op': 'replace', 'i': i, 'proto': r.choice(PROTOS), 'name': r.choice(NAMES),
                        'num': r.choice([-1, 80, 8080])})
    return {'id': str(cid), 'pool': n, 'ops': ops, 'raw': raw}


def emit_ps(ps):
    return '(mkPS %s %s %s)' % (clist(['(%s, %s)' % (cz(a), cz(b)) for a, b in ps['ports']]),
                                clist([cstr(s) for s in ps['named']]), clist([cstr(s) for s in ps['excl']]))


def emit_cs(st):
    f = lambda p: copt(emit_ps(st['protos'][p])) if p in st['protos'] else 'None'
    return '(mkCS %s %s %s %s)' % (cbool(st['all']), f('TCP'), f('UDP'), f('SCTP'))


def emit_op(o):
    k = o['op']
    i = cnat(o['i'])
    j = cnat(o.get('j', 0))
    if k == 'new': return '(ONew %s %s)' % (i, cbool(o['all']))
    if k == 'alltcp': return '(OAllTcp %s)' % i
    if k == 'addconn':
        ps = o['ps']
        return '(OAddConn %s %s %s %s %s)' % (i, o['proto'], cbool(ps['all']),
                                             clist(['(%s, %s)' % (cz(a), cz(b)) for a, b in ps['ranges']]),
                                             clist([cstr(s) for s in ps['named']]))
    if k == 'union': return '(OUnion %s %s)' % (i, j)
    if k == 'inter': return '(OInter %s %s)' % (i, j)
    if k == 'sub': return '(OSub %s %s)' % (i, j)
    if k == 'copy': return '(OCopy %s %s)' % (i, j)
    if k == 'equal': return '(OEqual %s %s)' % (i, j)
    if k == 'containedin': return '(OContainedIn %s %s)' % (i, j)
    if k == 'isempty': return '(OIsEmpty %s)' % i
    if k == 'isall': return '(OIsAll %s)' % i
    if k == 'contains': return '(OContains %s %s %s)' % (i, o['proto'], cz(o['port']))
    if k == 'string': return '(OString %s)' % i
    if k == 'propstring': return '(OPropString %s)' % i
    if k == 'replace': return '(OReplace %s %s %s %s)' % (i, o['proto'], cstr(o['name']), cz(o['num']))
    raise ValueError(k)


def emit_out(x):
    if x is None: return 'RNone'
    if isinstance(x, bool): return '(RBool %s)' % cbool(x)
    return '(RStr %s)' % cstr(x)


def emit_case(c, obs):
    steps = ['(%s, %s)' % (clist([emit_cs(s) for s in st['pool']]), emit_out(st['out'])) for st in obs['steps']]
    return '(mkAlg %s %s %s %s)' % (cnat(int(c['id'])), cnat(c['pool']), clist([emit_op(o) for o in c['ops']]), clist(steps))


def run_go(cases):
    inp = '\n'.join(json.dumps(c) for c in cases) + '\n'
    p = subprocess.run([os.path.join(core.BUILD, 'verifalg')], input=inp, capture_output=True, text=True, timeout=600)
    if p.returncode != 0:
        raise RuntimeError('verifalg failed: ' + p.stderr[-500:])
    return [json.loads(l) for l in p.stdout.splitlines() if l.strip()]


def run_model(cases, observed):
    text = ['From Coq Require Import List ZArith String.', 'From NP Require Import IntervalSet ConnSet AlgCase.',
            'Import ListNotations.', 'Open Scope Z_scope.', 'Definition cases : list alg_case := [']
    text.append(';\n'.join(emit_case(c, o) for c, o in zip(cases, observed)))
    text.append('].')
    text.append('Definition MM := Eval vm_compute in alg_mismatches cases.')
    text.append('Definition SF := Eval vm_compute in alg_sem_failures cases.')
    text.append('Print MM.\nPrint SF.')
    rc, out, err = core.run_coq_text('\n'.join(text))
    if rc != 0:
        raise RuntimeError('coqc on cases failed: ' + err[-1500:])
    mm = core.parse_pairs(out, 'MM')
    sf = core.parse_pairs(out, 'SF')
    if mm is None or sf is None:
        raise RuntimeError('could not parse coqc output: ' + out[-800:])
    return mm, sf


def classify(code):
    if code in (5, 6):
        return 'c11-addconn-noncanonical'
    if code == 2:
        return 'c11-named-containment'
    return None


SHRINK_BUDGET = [60]


def shrink(case, pred):
    """delta-debugging style removal of operations while the failure persists (bounded budget)"""
    ops = list(case['ops'])
    chunk = max(1, len(ops) // 2)
    while chunk >= 1 and SHRINK_BUDGET[0] > 0:
        k = 0
        progressed = False
        while k < len(ops) and SHRINK_BUDGET[0] > 0:
            cand = dict(case, ops=ops[:k] + ops[k + chunk:])
            SHRINK_BUDGET[0] -= 1
            ok = False
            try:
                ok = bool(cand['ops']) and pred(cand)
            except Exception:
                ok = False
            if ok:
                ops = cand['ops']; progressed = True
            else:
                k += chunk
        if chunk == 1 and not progressed:
            break
        chunk = max(1, chunk // 2) if chunk > 1 else (1 if progressed else 0)
    return dict(case, ops=ops)


def fails(case, want=None):
    obs = run_go([case])
    # a harness-level panic is a failure by itself
    if any(st.get('panic') for st in obs[0]['steps']):
        return True
    mm, sf = run_model([case], obs)
    if want == 'mm':
        return bool(mm)
    if isinstance(want, int):
        return any(c == want for _, _, c in sf)
    return bool(mm) or bool(sf)


def evaluate(run, cases):
    observed = run_go(cases)
    run.count(len(cases))
    run.cov['traces_validated_against_impl'] += len(cases)
    byid = {int(c['id']): c for c in cases}
    obsid = {int(o['id']): o for o in observed}
    for c, o in zip(cases, observed):
        kinds = sorted(set(op['op'] for op in c['ops']))
        for op in c['ops']:
            run.dist('op:' + op['op'])
        run.dist('len<=10' if len(c['ops']) <= 10 else 'len<=40' if len(c['ops']) <= 40 else 'len>40')
        run.dist('stream:' + ('raw' if c['raw'] else 'rule-like'))
        if len([k for k in kinds if k in ('union', 'inter', 'sub')]) >= 2:
            run.nontrivial(c['ops'])
        for st in o['steps']:
            if st.get('panic'):
                run.report(None, 'panic-%s' % c['id'], {'case': c, 'panic': st['panic']}, 'panic in algebra op')
            if st.get('operand_modified'):
                run.report(None, 'operand-%s' % c['id'], {'case': c}, 'operand modified by a binary operation')
    mm, sf = run_model(cases, observed)
    for cid, k in mm:
        c = byid[cid]
        small = shrink(c, lambda x: fails(x, 'mm'))
        run.report(None, 'corr-%d' % cid, {'kind': 'correspondence', 'case': small, 'step_in_original': k,
                                           'what': 'Go ConnectionSet state/answer differs from the Gallina mirror (Model/ConnSet.v)',
                                           'observed': run_go([small])[0]},
                   'model/implementation disagreement at step %d' % k)
    done = set()
    for cid, k, code in sf:
        fid = classify(code)
        if (cid, code) in done:
            continue
        done.add((cid, code))
        c = byid[cid]
        payload = {'kind': 'semantic', 'code': code, 'meaning': CODES.get(code, '?'), 'case': c, 'step': k}
        f = run.findings.get(fid) if fid else None
        if not (f and f.get('status') == 'known'):
            small = shrink(c, lambda x: fails(x, code))
            payload['case'] = small
            payload['observed'] = run_go([small])[0]
        run.report(fid, 'sem-%d-%d' % (cid, code), payload, CODES.get(code, '?'))


def corpus_cases():
    d = os.path.join(core.VERIF, 'corpus', 'C11')
    res = []
    if os.path.isdir(d):
        for f in sorted(os.listdir(d)):
            if f.endswith('.json'):
                res.append(json.load(open(os.path.join(d, f))))
    return res


def main(tier):
    run = core.Run('C11', tier)
    run.cov['rule'] = ('random operation sequences (New/AddConnection/Union/Intersection/Subtract/Copy/Replace + every query) over pools of 2-5 '
                       'ConnectionSets from boundary-heavy port intervals, 3 protocols, named ports; executed on the real Go type and on the Gallina mirror, '
                       'full pool state compared after every step, plus the verified semantic oracle on the Go states; '
                       'non-trivial = sequence uses at least two of Union/Intersection/Subtract; distinct by op list hash')
    run.stage_proofs()
    b = core.build_go(['verifalg'], run.log)
    if not b['verifalg'][0]:
        run.proof_ok = False
        run.proof_notes.append('hook harness verifalg does not build against this tree: ' + b['verifalg'][1][-600:])
        return run.finish()
    n = 400 if tier == 'quick' else 6000
    cases = []
    for k, c in enumerate(corpus_cases()):
        c = dict(c, id=str(9000 + k)); cases.append(c)
    cases += [gen_case(run.rng, i, tier) for i in range(n)]
    run.sample({'pool': cases[-1]['pool'], 'ops': cases[-1]['ops'][:8]})
    shard = 300
    for s in range(0, len(cases), shard):
        evaluate(run, cases[s:s + shard])
        if len(run.violations) >= 5:
            break
    return run.finish()


def replay(payload):
    run = core.Run('C11', 'quick')
    run.stage_proofs()
    core.build_go(['verifalg'], run.log)
    c = dict(payload['case'], id='1')
    evaluate(run, [c])
    return run.finish()
