#!/bin/bash
# run_seeded.sh [ID...] : for every seeded mutant (default all): apply it to a scratch git worktree of /repo, run the quick check
# of its property against that worktree (VERIF_REPO), and record the outcome in seeded/<id>/meta.json ("verified").
# /repo itself is never touched; evidence/ and replays/ of these runs go to a scratch directory (VERIF_OUT).
export GOFLAGS=-mod=mod GOPROXY=off GOSUMDB=off GOTOOLCHAIN=local VERIF_NOSHRINK=1
WT=${SEED_WT:-/tmp/seedrepo}
export VERIF_REPO=$WT VERIF_BUILD=/verif/build/$(basename $WT) VERIF_OUT=${SEED_OUT:-/tmp/seedout}
cd /verif
mkdir -p $VERIF_BUILD $VERIF_OUT
git -C /repo worktree remove --force $WT 2>/dev/null; git -C /repo worktree prune
git -C /repo worktree add --detach $WT HEAD -f >/dev/null 2>&1 || { echo "cannot create worktree"; exit 2; }
ids="$@"; [ -z "$ids" ] && ids=$(ls seeded)
head=$(git -C /repo rev-parse --short HEAD)
for spec in $ids; do
  id=${spec%%:*}; prop=${id%%-*}
  case $spec in *:*) prop=${spec##*:};; esac     # ID:Cxx runs the check of another property against the mutant
  git -C $WT checkout -q -- . ; git -C $WT clean -fdq
  if ! git -C $WT apply --check /verif/seeded/$id/patch.diff 2>/dev/null; then
    echo "$id DOES-NOT-APPLY"; python3 tools/seeded_meta.py $id $head "" "" ; continue
  fi
  git -C $WT apply /verif/seeded/$id/patch.diff
  rm -rf $VERIF_OUT/replays/$prop
  out=$(python3 checks/check.py $prop quick 2>&1); rc=$?
  nv=$(echo "$out" | grep -c '^VIOLATION')
  first=$(echo "$out" | grep '^VIOLATION' | head -1 | sed 's/.*replay=//; s/ .*//')
  echo "$id check=$prop rc=$rc violations=$nv $first"
  python3 tools/seeded_meta.py $id $head $rc "$first" $prop
done
git -C /repo worktree remove --force $WT; git -C /repo worktree prune
rm -rf $VERIF_OUT
