(* OrderProofs.v — the connections between two peers do not depend on the order in which the NetworkPolicies (and pods,
   namespaces) were read: with the canonical form of C11 and the refinement of C01/C02, any two successful evaluations over
   permuted policy lists return the identical set (C08, analysis part).  No axioms. *)
From Coq Require Import List ZArith Bool String Permutation.
From NP Require Import IntervalSet ConnSet ConnSetProofs World Eval Spec EvalProofs.
Import ListNotations.
Open Scope list_scope.
Open Scope Z_scope.

Lemma existsb_perm {A} (f : A -> bool) l l' : Permutation l l' -> existsb f l = existsb f l'.
Proof.
  induction 1 as [|x l l' _ IH|x y l|l l' l'' _ IH1 _ IH2]; cbn [existsb].
  - reflexivity.
  - rewrite IH. reflexivity.
  - destruct (f x), (f y); reflexivity.
  - rewrite IH1. exact IH2.
Qed.
Lemma filter_perm {A} (f : A -> bool) l l' : Permutation l l' -> Permutation (filter f l) (filter f l').
Proof.
  induction 1 as [|x l l' _ IH|x y l|l l' l'' _ IH1 _ IH2]; cbn [filter].
  - constructor.
  - destruct (f x); [constructor|]; exact IH.
  - destruct (f x), (f y); try apply Permutation_refl. apply perm_swap.
  - eapply Permutation_trans; eassumption.
Qed.

Definition same_but_policies (w w' : world) : Prop :=
  Permutation (w_nps w) (w_nps w') /\ w_anps w = w_anps w' /\ w_banp w = w_banp w'.

Lemma s_np_layer_perm w w' src dst ingress pr n :
  same_but_policies w w' -> s_np_layer w src dst ingress pr n = s_np_layer w' src dst ingress pr n.
Proof.
  intros (Hp & _ & _). unfold s_np_layer. destruct (if ingress then dst else src) as [p nsl|b]; [|reflexivity].
  set (f := fun np => s_np_governs np p (if ingress then Ingress else Egress)).
  pose proof (filter_perm f _ _ Hp) as Hf.
  destruct (filter f (w_nps w)) as [|a t] eqn:E1; destruct (filter f (w_nps w')) as [|a' t'] eqn:E2.
  - reflexivity.
  - apply Permutation_nil in Hf. discriminate Hf.
  - apply Permutation_sym, Permutation_nil in Hf. discriminate Hf.
  - f_equal. apply existsb_perm. exact Hf.
Qed.

Lemma s_allows_perm w w' src dst pr n :
  same_but_policies w w' -> s_allows w src dst pr n = s_allows w' src dst pr n.
Proof.
  intros H. pose proof H as (_ & Ha & Hb). unfold s_allows, s_dir_allows, s_banp_allows.
  rewrite !(s_np_layer_perm w w' src dst _ pr n H), Ha, Hb. reflexivity.
Qed.

(* two successful evaluations over permuted policy lists return the identical connection set *)
Theorem connection_independent_of_policy_order w w' src dst c c' :
  same_but_policies w w' -> peer_okb dst = true -> world_okb w = true -> world_okb w' = true ->
  all_conns w src dst = Ok c -> all_conns w' src dst = Ok c' -> c = c'.
Proof.
  intros Hs Hd Hw Hw' H H'.
  destruct (all_conns_ok w src dst c Hd Hw H) as [Hn Hden].
  destruct (all_conns_ok w' src dst c' Hd Hw' H') as [Hn' Hden'].
  apply (cs_ninv_ext c c' Hn Hn'). intros p n. rewrite Hden, Hden', (s_allows_perm w w' src dst p n Hs). reflexivity.
Qed.

(* ---------- also the order of rules, of the peers and ports inside a rule, and of policyTypes ---------- *)
Definition rule_equiv (r r' : np_rule) : Prop :=
  Permutation (nr_peers r) (nr_peers r') /\ Permutation (nr_ports r) (nr_ports r').
Definition rules_equiv (l l' : list np_rule) : Prop := exists m, Permutation l m /\ Forall2 rule_equiv m l'.
Definition netpol_equiv (np np' : netpol) : Prop :=
  np_ns np = np_ns np' /\ np_sel np = np_sel np' /\ Permutation (np_types np) (np_types np') /\
  rules_equiv (np_in np) (np_in np') /\ rules_equiv (np_eg np) (np_eg np').
Definition world_equiv (w w' : world) : Prop :=
  (exists m, Permutation (w_nps w) m /\ Forall2 netpol_equiv m (w_nps w')) /\ w_anps w = w_anps w' /\ w_banp w = w_banp w'.

Lemma perm_nil_iff {A} (l l' : list A) : Permutation l l' -> (l = [] <-> l' = []).
Proof.
  intros H. split; intros E; subst.
  - apply Permutation_nil in H. exact H.
  - apply Permutation_sym, Permutation_nil in H. exact H.
Qed.

Lemma existsb_forall2 {A} (R : A -> A -> Prop) (f g : A -> bool) l l' :
  Forall2 R l l' -> (forall x y, R x y -> f x = g y) -> existsb f l = existsb g l'.
Proof. intros H Hfg. induction H as [|x y l l' Hxy _ IH]; cbn [existsb]; [reflexivity|]. rewrite (Hfg x y Hxy), IH. reflexivity. Qed.

Lemma rule_equiv_same npns r r' other dst pr n : rule_equiv r r' -> s_np_rule npns r other dst pr n = s_np_rule npns r' other dst pr n.
Proof.
  intros [Hp Hq]. unfold s_np_rule, s_np_rule_peers, s_np_rule_ports.
  pose proof (perm_nil_iff _ _ Hp) as Np. pose proof (perm_nil_iff _ _ Hq) as Nq.
  f_equal.
  - destruct (nr_peers r) as [|a t] eqn:E1; destruct (nr_peers r') as [|a' t'] eqn:E2; try reflexivity.
    + destruct Np as [Np _]. discriminate (Np eq_refl).
    + destruct Np as [_ Np]. discriminate (Np eq_refl).
    + apply existsb_perm. exact Hp.
  - destruct (nr_ports r) as [|a t] eqn:E1; destruct (nr_ports r') as [|a' t'] eqn:E2; try reflexivity.
    + destruct Nq as [Nq _]. discriminate (Nq eq_refl).
    + destruct Nq as [_ Nq]. discriminate (Nq eq_refl).
    + apply existsb_perm. exact Hq.
Qed.

Lemma rules_equiv_same npns l l' other dst pr n :
  rules_equiv l l' -> existsb (fun r => s_np_rule npns r other dst pr n) l = existsb (fun r => s_np_rule npns r other dst pr n) l'.
Proof.
  intros (m & Hp & Hf). rewrite (existsb_perm _ _ _ Hp). apply (existsb_forall2 rule_equiv _ _ _ _ Hf).
  intros x y Hxy. apply rule_equiv_same. exact Hxy.
Qed.

Lemma rules_equiv_nil l l' : rules_equiv l l' -> (l = [] <-> l' = []).
Proof.
  intros (m & Hp & Hf). rewrite (perm_nil_iff _ _ Hp). split; intros E; subst; inversion Hf; reflexivity.
Qed.

Lemma netpol_equiv_governs np np' p d : netpol_equiv np np' -> s_np_governs np p d = s_np_governs np' p d.
Proof.
  intros (Hns & Hsel & Ht & _ & Heg). unfold s_np_governs, s_np_affects. rewrite Hns, Hsel. f_equal. f_equal.
  pose proof (perm_nil_iff _ _ Ht) as Nt.
  destruct (np_types np) as [|a t] eqn:E1; destruct (np_types np') as [|a' t'] eqn:E2.
  - destruct d; [reflexivity|]. pose proof (rules_equiv_nil _ _ Heg) as Ne.
    destruct (np_eg np) as [|x xs]; destruct (np_eg np') as [|y ys]; try reflexivity.
    + destruct Ne as [Ne _]. discriminate (Ne eq_refl).
    + destruct Ne as [_ Ne]. discriminate (Ne eq_refl).
  - destruct Nt as [Nt _]. discriminate (Nt eq_refl).
  - destruct Nt as [_ Nt]. discriminate (Nt eq_refl).
  - apply existsb_perm. exact Ht.
Qed.

Lemma netpol_equiv_allows np np' src dst ingress pr n :
  netpol_equiv np np' -> s_np_policy_allows np src dst ingress pr n = s_np_policy_allows np' src dst ingress pr n.
Proof.
  intros (Hns & _ & _ & Hin & Heg). unfold s_np_policy_allows. rewrite Hns. destruct ingress; apply rules_equiv_same; assumption.
Qed.

Lemma filter_forall2 (f g : netpol -> bool) l l' :
  Forall2 netpol_equiv l l' -> (forall x y, netpol_equiv x y -> f x = g y) -> Forall2 netpol_equiv (filter f l) (filter g l').
Proof.
  intros H Hfg. induction H as [|x y l l' Hxy _ IH]; cbn [filter]; [constructor|].
  rewrite (Hfg x y Hxy). destruct (g y); [constructor; assumption|exact IH].
Qed.

Lemma s_np_layer_equiv w w' src dst ingress pr n :
  world_equiv w w' -> s_np_layer w src dst ingress pr n = s_np_layer w' src dst ingress pr n.
Proof.
  intros ((m & Hp & Hf) & _ & _). unfold s_np_layer. destruct (if ingress then dst else src) as [p nsl|b]; [|reflexivity].
  set (d := if ingress then Ingress else Egress).
  set (f := fun np => s_np_governs np p d).
  pose proof (filter_perm f _ _ Hp) as Hfp.
  pose proof (filter_forall2 f f m (w_nps w') Hf (fun x y Hxy => netpol_equiv_governs x y p d Hxy)) as Hff.
  assert (Hex : existsb (fun np => s_np_policy_allows np src dst ingress pr n) (filter f (w_nps w))
                = existsb (fun np => s_np_policy_allows np src dst ingress pr n) (filter f (w_nps w'))).
  { rewrite (existsb_perm _ _ _ Hfp). apply (existsb_forall2 netpol_equiv _ _ _ _ Hff).
    intros x y Hxy. apply netpol_equiv_allows. exact Hxy. }
  assert (Hnil : filter f (w_nps w) = [] <-> filter f (w_nps w') = []).
  { rewrite (perm_nil_iff _ _ Hfp). split; intros E; rewrite E in Hff; inversion Hff; reflexivity. }
  destruct (filter f (w_nps w)) as [|a t] eqn:E1; destruct (filter f (w_nps w')) as [|a' t'] eqn:E2.
  - reflexivity.
  - destruct Hnil as [Hn _]. discriminate (Hn eq_refl).
  - destruct Hnil as [_ Hn]. discriminate (Hn eq_refl).
  - f_equal. exact Hex.
Qed.

(* C08, analysis part: the same resources written with documents, rules, peers, ports and policyTypes in another order give the
   identical connection set for every pair of peers *)
Theorem connection_independent_of_written_order w w' src dst c c' :
  world_equiv w w' -> peer_okb dst = true -> world_okb w = true -> world_okb w' = true ->
  all_conns w src dst = Ok c -> all_conns w' src dst = Ok c' -> c = c'.
Proof.
  intros Hs Hd Hw Hw' H H'.
  destruct (all_conns_ok w src dst c Hd Hw H) as [Hn Hden].
  destruct (all_conns_ok w' src dst c' Hd Hw' H') as [Hn' Hden'].
  apply (cs_ninv_ext c c' Hn Hn'). intros p n. rewrite Hden, Hden'. f_equal. f_equal.
  pose proof Hs as (_ & Ha & Hb). unfold s_allows, s_dir_allows, s_banp_allows.
  rewrite !(s_np_layer_equiv w w' src dst _ p n Hs), Ha, Hb. reflexivity.
Qed.
