(* ModelPrintable.v — the reports of the model are inside the domain on which the rendering is injective:
   workload names built from blank-free namespace / name / kind strings and the blocks of the IPv4 partition. *)
From Coq Require Import List ZArith Bool String Ascii Lia Permutation.
From NP Require Import IntervalSet ConnSet IntervalSetProofs ConnSetProofs World Eval Build Connlist Diff Format
     EvalProofs ListProofs WfProofs PartitionProofs PartitionTiles StrInj ConnInj RowInj.
Import ListNotations.
Open Scope string_scope.

Definition pod_plain (p : pod) : Prop :=
  all_chars plain (p_ns p) = true /\ all_chars plain (p_name p) = true /\
  all_chars plain (p_owner_name p) = true /\ all_chars plain (p_owner_kind p) = true.

Lemma all_chars_false_app_r f a b : all_chars f b = false -> all_chars f (a ++ b) = false.
Proof. intros H. rewrite all_chars_app, H. apply andb_false_r. Qed.

Lemma wl_str_ok p : pod_plain p -> name_ok (wl_str p).
Proof.
  intros (H1 & H2 & H3 & H4). unfold name_ok, wl_str, wl_name_of, wl_kind_of.
  destruct (p_fake p).
  - split.
    + rewrite !all_chars_app, H2. reflexivity.
    + reflexivity.
  - split.
    + rewrite !all_chars_app, H1. destruct (String.eqb (p_owner_name p) ""), (String.eqb (p_owner_kind p) "");
        rewrite ?H2, ?H3, ?H4; reflexivity.
    + apply all_chars_false_app_r. reflexivity.
Qed.

Lemma workloads_of_keyed pods : forall acc,
  (forall k p, In (k, p) acc -> k = wl_str p) -> forall k p, In (k, p) (workloads_of pods acc) -> k = wl_str p.
Proof.
  induction pods as [|q t IH]; intros acc Hacc k p H; cbn [workloads_of] in H; [exact (Hacc k p H)|].
  apply (IH _) in H; [exact H|]. clear H k p. intros k p H.
  destruct (existsb (fun e => String.eqb (fst e) (wl_str q)) acc).
  - apply in_map_iff in H. destruct H as ([k0 p0] & E & Hin). cbn [fst] in E.
    destruct (String.eqb k0 (wl_str q)); [injection E as <- <-; reflexivity|]. injection E as <- <-. exact (Hacc _ _ Hin).
  - apply in_app_or in H. destruct H as [H|[H|[]]]; [exact (Hacc _ _ H)|]. injection H as <- <-. reflexivity.
Qed.

Lemma blocks_of_cuts_shape cuts : ssorted cuts ->
  forall P, In P (blocks_of_cuts cuts) -> In (fst P) cuts /\ exists b, In b cuts /\ fst P < b /\ snd P = b - 1.
Proof.
  induction cuts as [|a [|b t] IH]; intros Hs P H; try (cbn in H; contradiction).
  rewrite blocks_of_cuts_cons2 in H. destruct Hs as [Ha Hs]. destruct H as [<-|H].
  - cbn [fst snd]. split; [left; reflexivity|]. exists b. split; [right; left; reflexivity|]. split; [apply Ha; left; reflexivity|reflexivity].
  - destruct (IH Hs P H) as (I1 & c & I2 & I3 & I4). split; [right; exact I1|]. exists c. split; [right; exact I2|]. tauto.
Qed.

Lemma partition_blocks_nonneg blocks : blocks_in_range blocks ->
  forall P, In P (ip_partition blocks) -> 0 <= fst P /\ 0 <= snd P.
Proof.
  intros Hr P H. unfold ip_partition in H.
  assert (Hs0 : ssorted [0; maxIP + 1]).
  { cbn [ssorted In]. split; [intros z [Hz|[]]; subst z; unfold maxIP; lia|]. split; [intros z []|exact Logic.I]. }
  destruct (cuts_fold_props blocks [0; maxIP + 1] Hs0) as (C1 & C2 & _). cbn zeta in *.
  set (cuts := fold_left (fun acc b => zinsert (fst b) (zinsert (snd b + 1) acc)) blocks [0; maxIP + 1]) in *.
  assert (Hbound : forall y, In y cuts -> 0 <= y).
  { intros y Hy. destruct (cuts_fold_origin blocks _ y Hy) as [H0|(b & Hb & Hyb)].
    - destruct H0 as [H0|[H0|[]]]; subst y; unfold maxIP; lia.
    - destruct (Hr b Hb) as [H1 H2]. destruct Hyb; subst y; lia. }
  destruct (blocks_of_cuts_shape cuts C1 P H) as (I1 & b & I2 & I3 & I4).
  pose proof (Hbound _ I1). lia.
Qed.

Theorem model_report_printable w focus hi r :
  list_world w focus hi = Ok r -> world_okb w = true -> forallb pod_okb (w_pods w) = true ->
  Forall pod_plain (w_pods w) ->
  (forall bl, referenced_blocks (w_nps w) = Ok bl -> blocks_in_range bl) ->
  Forall entry_ok (lr_entries r).
Proof.
  intros H Hw Hpods Hplain Hrange. apply Forall_forall. intros e He.
  destruct (list_world_entries_wf w focus hi r H Hw Hpods e He) as (_ & _ & _ & Hn).
  destruct (list_world_entries_sound _ _ _ _ H e He) as (s & d & sp & dp & Hs & Hd & _ & Hsrc & Hdst & _).
  assert (P : forall m, In m (mpeers_of w (ip_partition_of w)) -> peer_ok (mp_r m)).
  { intros m Hm. unfold mpeers_of in Hm. apply in_app_or in Hm. destruct Hm as [Hm|Hm].
    - apply in_map_iff in Hm. destruct Hm as (b & <- & Hb). cbn [mp_r peer_ok].
      unfold ip_partition_of in Hb. destruct (referenced_blocks (w_nps w)) as [bl|] eqn:E; [|destruct Hb].
      exact (partition_blocks_nonneg bl (Hrange bl eq_refl) b Hb).
    - apply in_map_iff in Hm. destruct Hm as ([k p] & <- & Hin). cbn [mp_r peer_ok fst].
      pose proof (workloads_of_keyed (w_pods w) [] ltac:(intros ? ? []) k p Hin) as ->.
      apply wl_str_ok. destruct (workloads_of_subset _ _ _ _ Hin) as [(k0 & [])|Hp].
      rewrite Forall_forall in Hplain. exact (Hplain p Hp). }
  unfold entry_ok. rewrite Hsrc, Hdst. split; [exact (P s Hs)|]. split; [exact (P d Hd)|exact Hn].
Qed.

(* hence: two model reports that print alike (in any of the four formats) are the same report *)
Corollary model_reports_print_differently w1 w2 f1 f2 h1 h2 r1 r2 :
  list_world w1 f1 h1 = Ok r1 -> world_okb w1 = true -> forallb pod_okb (w_pods w1) = true -> Forall pod_plain (w_pods w1) ->
  (forall bl, referenced_blocks (w_nps w1) = Ok bl -> blocks_in_range bl) ->
  list_world w2 f2 h2 = Ok r2 -> world_okb w2 = true -> forallb pod_okb (w_pods w2) = true -> Forall pod_plain (w_pods w2) ->
  (forall bl, referenced_blocks (w_nps w2) = Ok bl -> blocks_in_range bl) ->
  list_txt (lr_entries r1) = list_txt (lr_entries r2) \/ list_md (lr_entries r1) = list_md (lr_entries r2) \/
  list_csv (lr_entries r1) = list_csv (lr_entries r2) \/ list_json (lr_entries r1) = list_json (lr_entries r2) ->
  Permutation (lr_entries r1) (lr_entries r2).
Proof.
  intros A1 A2 A3 A4 A5 B1 B2 B3 B4 B5 H.
  pose proof (model_report_printable _ _ _ _ A1 A2 A3 A4 A5) as P1.
  pose proof (model_report_printable _ _ _ _ B1 B2 B3 B4 B5) as P2.
  destruct H as [H|[H|[H|H]]]; [apply list_txt_inj|apply list_md_inj|apply list_csv_inj|apply list_json_inj]; assumption.
Qed.
