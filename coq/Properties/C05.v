(* C05 — the connectivity report is a well-formed, canonical relation.
   Statements only; proofs in Proofs/WfProofs.v (and ConnSetProofs.v for the canonical form).
   The boolean checker [wf_report_b] (Model/Connlist.v) is run by the check on EVERY report the
   implementation produces; the theorems below say what a `true` answer means, for reports of
   any size, and that the model's own reports satisfy the per-entry clauses. *)
From Coq Require Import List ZArith Bool String.
From NP Require Import IntervalSet IntervalSetProofs ConnSet ConnSetProofs World Eval Spec EvalProofs Build Connlist ListProofs WfProofs PartitionProofs PartitionTiles.
Import ListNotations.
Open Scope Z_scope.

(* at most one entry per ordered (src, dst) pair *)
Theorem C05_checker_one_entry_per_pair es :
  nodup_keys es = true <-> NoDup (map (fun e => (re_src e, re_dst e)) es).
Proof. exact (nodup_keys_spec es). Qed.
Print Assumptions C05_checker_one_entry_per_pair.

(* never a peer with itself, never two IP peers, never an empty connection, canonical connection,
   both ends are listed peers *)
Theorem C05_checker_entry peers e : entry_okb peers e = true <-> WF_entry peers e.
Proof. exact (entry_okb_spec peers e). Qed.
Print Assumptions C05_checker_entry.

(* the canonical form the checker tests is the invariant of C11: ranges sorted, disjoint,
   non-adjacent, within 1..65535, no empty stored port set, and ... *)
Theorem C05_checker_canonical c : cs_canonb c = true <-> cs_ninv c.
Proof. exact (cs_canonb_spec c). Qed.
Print Assumptions C05_checker_canonical.

(* ... 'all protocols and ports' is flagged as such, never spelled as three full ranges *)
Theorem C05_canonical_all_is_flagged c :
  cs_ninv c -> ((forall p n, valid_port n = true -> cs_denote c p n = true) <-> cs_all c = true).
Proof. exact (cs_allowall_canonical c). Qed.
Print Assumptions C05_canonical_all_is_flagged.

(* IP peers: sorted by lower bound they are non-empty single ranges that tile 0.0.0.0-255.255.255.255
   exactly: every address belongs to a peer ... *)
Theorem C05_checker_partition_covers ps a :
  ip_partition_okb ps = true -> 0 <= a <= maxIP ->
  exists lo hi, In (RIP lo hi) ps /\ lo <= a <= hi.
Proof. exact (ip_partition_okb_covers ps a). Qed.
Print Assumptions C05_checker_partition_covers.

(* ... and the ranges are pairwise disjoint and within bounds *)
Theorem C05_checker_partition_disjoint l lo :
  tiles_from lo l = true ->
  (forall v, In v l -> lo <= fst v /\ fst v <= snd v /\ snd v <= maxIP) /\
  (forall l1 u l2 v l3, l = l1 ++ u :: l2 ++ v :: l3 -> snd u < fst v).
Proof. exact (tiles_from_disjoint l lo). Qed.
Print Assumptions C05_checker_partition_disjoint.

(* the model's own report: every entry is between two different peers, not two IP peers,
   non-empty and canonical — for any world, with ANP/BANP or not *)
Theorem C05_model_entries_wf w focus hi r :
  list_world w focus hi = Ok r -> world_okb w = true -> forallb pod_okb (w_pods w) = true ->
  forall e, In e (lr_entries r) ->
    re_src e <> re_dst e /\
    ~ (rpeer_is_ip (re_src e) = true /\ rpeer_is_ip (re_dst e) = true) /\
    cs_isempty (re_conn e) = false /\ cs_ninv (re_conn e).
Proof. exact (list_world_entries_wf w focus hi r). Qed.
Print Assumptions C05_model_entries_wf.

(* the IP peers of every model report tile the address space: the partition part of the checker accepts them, whatever
   IPv4 ranges the rules mention *)
Theorem C05_model_peers_tile w blocks :
  blocks_in_range blocks -> ip_partition_okb (map mp_r (mpeers_of w (ip_partition blocks))) = true.
Proof. exact (model_peers_partition_ok w blocks). Qed.
Print Assumptions C05_model_peers_tile.
