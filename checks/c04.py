# C04 — diff is pointwise exact with respect to the two connectivity reports.
# Pairs of manifest sets (policy edits, added/removed workloads, different ipBlock layouts) through the real `diff` and
# the real `list` of both sides; the Coq-evaluated checker diff_exact_b (Model/Diff.v) decides, for every pair of points
# (all workloads of both sides x first / one-past-last addresses of every IP range named anywhere), that the diff has
# no covering entry when both sides have none and otherwise exactly one, of the right type, carrying both connections and
# the right new/lost flags.  diff(A,A) must be empty and diff(B,A) the swap of diff(A,B).
import copy
from . import c14
from .lib import core, gen, listcorr, meta
from .lib.core import cstr, cnat, clist, cbool

TYPES = {'unchanged': 'DUnchanged', 'changed': 'DChanged', 'added': 'DAdded', 'removed': 'DRemoved'}


SIBLINGS = [('10.1.2.0/25', '10.1.2.128/25'), ('10.0.0.0/9', '10.128.0.0/9'), ('0.0.0.0/1', '128.0.0.0/1'), ('10.0.0.0/24', '10.0.1.0/24'),
            ('10.1.2.3/32', '10.1.2.4/32'), ('192.168.0.0/16', '192.169.0.0/16')]
KIND_SWAP = {'Deployment': 'StatefulSet', 'StatefulSet': 'Deployment', 'ReplicaSet': 'DaemonSet', 'DaemonSet': 'ReplicaSet', 'Job': 'CronJob',
             'CronJob': 'Job', 'ReplicationController': 'Deployment'}


def edit_world(r, W):
    x = r.random()
    W2 = copy.deepcopy(W)
    y = r.random()
    if y < 0.12 and W['workloads']:
        # the same connection moves from one IP range to a disjoint one (both sides get the policy; only the CIDR differs)
        w = r.choice(W['workloads'])
        a, b = r.choice(SIBLINGS)
        if r.random() < 0.5:
            a, b = b, a
        d = r.choice(['ingress', 'egress'])
        key = 'from' if d == 'ingress' else 'to'
        port = {'protocol': 'TCP', 'port': r.choice(gen.PORTS)}
        def pol(c):
            return {'ns': w['ns'], 'name': 'moved', 'podSelector': {'matchLabels': dict(w['labels'])} if w['labels'] else {},
                    'policyTypes': ['Ingress' if d == 'ingress' else 'Egress'], d: [{key: [{'ipBlock': {'cidr': c}}], 'ports': [port]}]}
        W['netpols'].append(pol(a))
        W2 = copy.deepcopy(W)
        W2['netpols'][-1] = pol(b)
        return W2, 'ipBlock moved to a disjoint range'
    if 0.22 <= y < 0.34 and W['workloads']:
        # two workloads appear (or disappear) together, so that there are entries both of whose ends are new (lost); long names now and then
        long_ = 'x' * 44 if r.random() < 0.4 else ''
        nsx = r.choice(W['workloads'])['ns']
        pair = []
        for nm in ('wnewa' + long_, 'wnewb' + long_):
            nw = gen.gen_world(r)['workloads'][0]
            nw['name'], nw['ns'], nw['owner'] = nm, nsx, None
            if nw['kind'] == 'Pod':
                nw['kind'] = 'Deployment'
            pair.append(nw)
        if r.random() < 0.5:
            W2['workloads'] += pair
            return W2, 'two workloads added'
        W['workloads'] += copy.deepcopy(pair)
        return W2, 'two workloads removed'
    if y < 0.22:
        cands = [i for i, w in enumerate(W2['workloads']) if w['kind'] in KIND_SWAP]
        if cands:
            i = r.choice(cands)
            W2['workloads'][i]['kind'] = KIND_SWAP[W2['workloads'][i]['kind']]
            return W2, 'workload kind changed (same namespace and name)'
    if x < 0.45:
        for _ in range(20):
            e = c14.apply_edit(r, W, r.choice(c14.EDITS))
            if e is not None:
                return e[0], 'policy edit: ' + e[4]
    if x < 0.6 and len(W2['workloads']) > 1:
        w = W2['workloads'].pop(r.randrange(len(W2['workloads'])))
        return W2, 'workload %s/%s removed' % (w['ns'], w['name'])
    if x < 0.75:
        nw = gen.gen_world(r)['workloads'][0]
        nw['name'] = 'wnew'
        nw['ns'] = r.choice(W2['workloads'])['ns'] if W2['workloads'] else 'ns1'
        if W2['workloads'] and r.random() < 0.5:
            # a twin: same name and kind as an existing workload, in another namespace
            tw = r.choice(W2['workloads'])
            others = sorted({w['ns'] for w in W2['workloads']} - {tw['ns']}) or ['nstwin']
            nw['name'], nw['kind'], nw['ns'] = tw['name'], tw['kind'], r.choice(others)
            if any(w['ns'] == nw['ns'] and w['name'] == nw['name'] for w in W2['workloads']):
                nw['name'] = 'wnew'
        W2['workloads'].append(nw)
        return W2, 'workload %s/%s added' % (nw['ns'], nw['name'])
    if x < 0.9:
        # change the ipBlock layout: another CIDR in some rule, so that the two partitions differ
        locs = [peer for p in W2['netpols'] for d, key in (('ingress', 'from'), ('egress', 'to')) for rule in (p.get(d) or []) for peer in (rule.get(key) or []) if peer.get('ipBlock')]
        if locs:
            peer = r.choice(locs)
            peer['ipBlock'] = {'cidr': r.choice(gen.CIDRS)}
            return W2, 'ipBlock replaced'
    other = gen.gen_world(r)
    W2['netpols'] = other['netpols']
    for p in W2['netpols']:
        p['ns'] = r.choice(W2['workloads'])['ns'] if W2['workloads'] else p['ns']
    return W2, 'all policies replaced'


def short_namer():
    ids = {}
    def rn(s):
        if s not in ids:
            ids[s] = 'w%d' % len(ids) if s != '{ingress-controller}' else s
        return ids[s]
    return rn


def is_ip_str(s):
    return s[:1].isdigit() and '-' in s and '/' not in s


def c_rp(s, rn):
    return gen.c_rpeer(s, True) if is_ip_str(s) else gen.c_rpeer(rn(s), False)


def c_list_report(o, rn):
    es = clist(['(mkRE %s %s %s)' % (c_rp(e['src'], rn), c_rp(e['dst'], rn), gen.c_conn(e['conn'])) for e in o['conns']])
    ps = clist([c_rp(p['str'], rn) for p in o['peers']])
    return es, ps


def c_diff(od, rn):
    items = []
    for t in ('added', 'removed', 'changed', 'unchanged'):
        for e in od['diff'].get(t) or []:
            items.append('(mkDE %s %s %s %s %s %s %s)' % (c_rp(e['src'], rn), c_rp(e['dst'], rn), gen.c_conn(e['c1']), gen.c_conn(e['c2']),
                                                        TYPES[e['type']], cbool(e['src_new_or_lost']), cbool(e['dst_new_or_lost'])))
    return clist(items)


def canon_diff(od, swap=False):
    res = []
    for t in ('added', 'removed', 'changed', 'unchanged'):
        for e in od['diff'].get(t) or []:
            ty, c1, c2 = e['type'], e['c1'], e['c2']
            if swap:
                ty = {'added': 'removed', 'removed': 'added'}.get(ty, ty)
                c1, c2 = c2, c1
            res.append((e['src'], e['dst'], ty, str(sorted(c1['pp'].items())) + str(c1['all']), str(sorted(c2['pp'].items())) + str(c2['all']),
                        e['src_new_or_lost'], e['dst_new_or_lost']))
    return sorted(res)


def main(tier):
    run = core.Run('C04', tier)
    run.cov['rule'] = ('pairs (world, edited world): policy edits, workloads added/removed, ipBlock layouts changed so that the two IP partitions differ, all policies replaced; the real `diff` and the real '
                       '`list` of both sides; pointwise exactness decided by the Coq-evaluated checker diff_exact_b over all workloads x boundary addresses; diff(A,A) empty; diff(B,A) = swap(diff(A,B)); '
                       'non-trivial = both lists succeed, the diff is not empty and at least one side has an IP range with a partial connection; distinct by scenario-pair hash')
    run.stage_proofs()
    b = core.build_go(['verifapi'], run.log)
    if not b['verifapi'][0]:
        run.proof_ok = False
        run.proof_notes.append('harness verifapi does not build against this tree: ' + b['verifapi'][1][-600:])
        return run.finish()
    n = 150 if tier == 'quick' else 4000
    h = listcorr.Harness()
    try:
        shard, k = 75, 0
        while k < n and len(run.violations) < 3:
            cmds, metas = [], []
            for i in range(min(shard, n - k)):
                cid = k + i
                W = gen.gen_world(run.rng, anp=(cid % 5 == 0))
                W2, how = edit_world(run.rng, W)
                d1, d2 = gen.docs(W), gen.docs(W2)
                p1, p2 = h.dir_for('a%d' % cid), h.dir_for('b%d' % cid)
                gen.write_dir(p1, [m for m, _ in d1])
                gen.write_dir(p2, [m for m, _ in d2])
                cmds += [{'id': 'l1', 'cmd': 'list', 'dir': p1}, {'id': 'l2', 'cmd': 'list', 'dir': p2},
                         {'id': 'd12', 'cmd': 'diff', 'dir': p1, 'dir2': p2}, {'id': 'd21', 'cmd': 'diff', 'dir': p2, 'dir2': p1},
                         {'id': 'd11', 'cmd': 'diff', 'dir': p1, 'dir2': p1}]
                metas.append((cid, W, W2, how, d1, d2))
                run.dist('edit:' + how.split(':')[0].split(' ')[0])
            outs = h.run(cmds)
            cases, info = [], {}
            for j, (cid, W, W2, how, d1, d2) in enumerate(metas):
                l1, l2, d12, d21, d11 = outs[5 * j: 5 * j + 5]
                run.count(1)
                payload = {'kind': 'diff', 'edit': how, 'world1': W, 'world2': W2, 'manifests1': [m for m, _ in d1], 'manifests2': [m for m, _ in d2],
                           'how': 'k8snetpolicy diff --dir1 DIR1 --dir2 DIR2 -o csv  vs  k8snetpolicy list on each'}
                if 'panic' in (d12['outcome'], d21['outcome'], d11['outcome']):
                    run.report(None, 'panic-%d' % cid, payload, 'diff panicked')
                    continue
                if l1['outcome'] != 'ok' or l2['outcome'] != 'ok':
                    if d12['outcome'] == 'ok' and not d12.get('diff_nil') and (l1['outcome'] == 'err' or l2['outcome'] == 'err'):
                        run.report(None, 'nofail-%d' % cid, dict(payload, list1=l1.get('err'), list2=l2.get('err')), 'diff produced a result although list fails on one side')
                    continue
                if d12['outcome'] != 'ok' or d12.get('diff_nil'):
                    run.report(None, 'diff-fails-%d' % cid, dict(payload, diff_error=d12.get('err')), 'both lists succeed but diff fails')
                    continue
                if d11['outcome'] == 'ok' and not d11.get('diff_nil') and any(d11['diff'].get(t) for t in ('added', 'removed', 'changed')):
                    run.report(None, 'self-%d' % cid, dict(payload, diff_AA=d11['diff']), 'diff(A,A) is not empty')
                    continue
                if d21['outcome'] == 'ok' and not d21.get('diff_nil') and canon_diff(d12) != canon_diff(d21, swap=True):
                    run.report(None, 'swap-%d' % cid, dict(payload, diff_AB=d12['diff'], diff_BA=d21['diff']), 'diff(B,A) is not diff(A,B) with added/removed and the two sides swapped')
                    continue
                rn = short_namer()
                e1, ps1 = c_list_report(l1, rn)
                e2, ps2 = c_list_report(l2, rn)
                cases.append('(mkDC %s %s %s %s %s %s)' % (cnat(cid), e1, ps1, e2, ps2, c_diff(d12, rn)))
                info[cid] = (payload, l1, l2, d12)
                nonempty = any(d12['diff'].get(t) for t in ('added', 'removed', 'changed'))
                ip_partial = any((is_ip_str(e['src']) or is_ip_str(e['dst'])) and not e['conn']['all'] for e in l1['conns'] + l2['conns'])
                if nonempty and ip_partial:
                    run.nontrivial([W, W2])
            run.cov['traces_validated_against_impl'] += len(metas)
            if k == 0 and metas:
                run.sample({'edit': metas[0][3], 'world1': metas[0][1]})
            text = ['From Coq Require Import List ZArith String.', 'From NP Require Import IntervalSet ConnSet World Build Connlist Diff.',
                    'Import ListNotations.', 'Open Scope Z_scope.', 'Definition cases : list diff_case := [', ';\n'.join(cases), '].',
                    'Definition MM := Eval vm_compute in diff_codes cases.', 'Print MM.']
            rc, out, err = core.run_coq_text('\n'.join(text))
            if rc != 0:
                raise RuntimeError('coqc on diff cases failed: ' + err[-1500:])
            for cid, code in (core.parse_pairs(out, 'MM') or [])[:6]:
                payload, l1, l2, d12 = info[cid]
                if code == 1:
                    run.report(None, 'exact-%d' % cid, dict(payload, list1=l1['conns'], list2=l2['conns'], diff=d12['diff']),
                               'the diff is not pointwise exact with respect to the two list reports')
                else:
                    run.report(None, 'model-%d' % cid, dict(payload, list1=l1['conns'], list2=l2['conns'], diff=d12['diff']),
                               'the diff differs from the Gallina mirror of diff.go (Model/Diff.v diff_model)')
            k += shard
    finally:
        h.close()
    return run.finish()


def replay(payload):
    run = core.Run('C04', 'quick')
    run.stage_proofs()
    core.build_go(['verifapi'], run.log)
    h = listcorr.Harness()
    try:
        p1, p2 = h.dir_for('a'), h.dir_for('b')
        gen.write_dir(p1, payload['manifests1'])
        gen.write_dir(p2, payload['manifests2'])
        l1, l2, d12 = h.run([{'id': 'l1', 'cmd': 'list', 'dir': p1}, {'id': 'l2', 'cmd': 'list', 'dir': p2}, {'id': 'd', 'cmd': 'diff', 'dir': p1, 'dir2': p2}])
        run.count(1)
        if l1['outcome'] == 'ok' and l2['outcome'] == 'ok' and d12['outcome'] == 'ok' and not d12.get('diff_nil'):
            rn = short_namer()
            e1, ps1 = c_list_report(l1, rn)
            e2, ps2 = c_list_report(l2, rn)
            text = ['From Coq Require Import List ZArith String.', 'From NP Require Import IntervalSet ConnSet World Build Connlist Diff.',
                    'Import ListNotations.', 'Open Scope Z_scope.', 'Definition cases : list diff_case := [(mkDC 1%%nat %s %s %s %s %s)].' % (e1, ps1, e2, ps2, c_diff(d12, rn)),
                    'Definition MM := Eval vm_compute in diff_codes cases.', 'Print MM.']
            rc, out, err = core.run_coq_text('\n'.join(text))
            if core.parse_pairs(out, 'MM'):
                run.report(None, 'replay', payload, 'diff not pointwise exact')
    finally:
        h.close()
    return run.finish()
