(* TotalProofs.v — no optional field read by the modelled sites can make the analysis panic, for every
   combination of present / absent fields (C12, structured part).  No axioms. *)
From Coq Require Import List ZArith Bool String.
From NP Require Import Total.
Import ListNotations.

Lemma pod_owner_total refs : no_panic (pod_owner refs) = true.
Proof. induction refs as [|r t IH]; cbn [pod_owner]; [reflexivity|]. destruct (or_controller r) as [[|]|]; [reflexivity | exact IH | exact IH]. Qed.

Lemma rc_template_total {T} (t : option T) : no_panic (rc_template t) = true.
Proof. destruct t; reflexivity. Qed.

Lemma rule_services_total r : no_panic (rule_services r) = true.
Proof. unfold rule_services. destruct (ir_http r); reflexivity. Qed.

Lemma ingress_services_total db rules : no_panic (ingress_services db rules) = true.
Proof.
  induction rules as [|r t IH]; cbn [ingress_services]; [reflexivity|].
  pose proof (rule_services_total r) as Hr.
  destruct (rule_services r), (ingress_services db t); cbn in *; try reflexivity; discriminate.
Qed.

(* every structured input whose host address is an IPv4 address or absent is read without a panic *)
Theorem analysis_total_partial i :
  (si_hostip i = HAbsent \/ exists a, si_hostip i = HIPv4 a) -> read_input i = true.
Proof.
  intros H. unfold read_input.
  rewrite pod_owner_total, rc_template_total, ingress_services_total. cbn [andb].
  destruct H as [-> | [a ->]]; reflexivity.
Qed.

(* the full statement is false of the code as it is: the finding *)
Theorem analysis_total_refuted : exists i, read_input i = false.
Proof. exists (mkSI [] None None None [] None HIPv6). reflexivity. Qed.

(* the repaired defects: what the code did before the fix: commits *)
Example pod_owner_unguarded_panics :
  no_panic (pod_owner_unguarded [mkORef "ReplicaSet" "rs" None]) = false /\
  no_panic (pod_owner [mkORef "ReplicaSet" "rs" None]) = true.
Proof. split; reflexivity. Qed.
Example rc_template_unguarded_panics : no_panic (@rc_template_unguarded unit None) = false /\ no_panic (@rc_template unit None) = true.
Proof. split; reflexivity. Qed.
Example rule_services_unguarded_panics :
  no_panic (rule_services_unguarded (mkIRule None)) = false /\ no_panic (rule_services (mkIRule None)) = true.
Proof. split; reflexivity. Qed.
