(* C12 — analysis is total: any input yields a result or an error, never a crash.  (partial)
   Statements only; proofs in Proofs/TotalProofs.v, model Model/Total.v: the sites where the analysis
   reads an optional field of a decoded manifest, with an explicit Panic outcome for dereferencing an
   absent value.  Proved: for EVERY combination of present / absent optional fields (ownerReferences
   with or without controller, workloads with or without template / replicas, Ingress rules with or
   without http / backend service / default backend, Route with or without port) no modelled site panics,
   provided status.hostIP is an IPv4 address or absent.  Not covered by any theorem: arbitrary bytes, the
   third-party decoders, and sites the model does not list — those are covered by the fault enumeration of
   the check (every JSON path x every mutation through all four commands). *)
From Coq Require Import List ZArith Bool String.
From NP Require Import Total TotalProofs.
Import ListNotations.

Theorem C12_structured_inputs_never_panic i :
  (si_hostip i = HAbsent \/ exists a, si_hostip i = HIPv4 a) -> read_input i = true.
Proof. exact (analysis_total_partial i). Qed.
Print Assumptions C12_structured_inputs_never_panic.

(* the full statement fails on the code as it is (known finding c12-hostip-panic) *)
Theorem C12_total_refuted : exists i, read_input i = false.
Proof. exact analysis_total_refuted. Qed.
Print Assumptions C12_total_refuted.

Theorem C12_pod_owner_total refs : no_panic (pod_owner refs) = true.
Proof. exact (pod_owner_total refs). Qed.
Print Assumptions C12_pod_owner_total.

Theorem C12_ingress_services_total db rules : no_panic (ingress_services db rules) = true.
Proof. exact (ingress_services_total db rules). Qed.
Print Assumptions C12_ingress_services_total.
