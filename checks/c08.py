# C08 — output is deterministic and independent of the order of the input.
# Every world is analysed several times per format: unchanged (Go randomises map iteration per run), with the documents
# reordered, re-partitioned into files (several documents per file / one per file), and with the semantically unordered
# lists inside NetworkPolicies permuted (rules, peers, ports, policyTypes).  All outputs of one
# world and format must be byte-identical.  list: txt json csv md dot (+ exposure on/off), diff: txt csv md dot.
import copy, re, ipaddress
from . import c03, c04, c10
from .lib import core, gen, listcorr

LIST_FORMATS = ['txt', 'json', 'csv', 'md', 'dot']
DIFF_FORMATS = ['txt', 'csv', 'md', 'dot']


def permute_policy(r, p):
    q = copy.deepcopy(p)
    if q.get('policyTypes'):
        r.shuffle(q['policyTypes'])
    def shuffle_sel(s):
        # the property speaks of rules and peers; the values of a selector expression are echoed by the exposure output in the order
        # they were written, so they are NOT permuted (that would demand more than the property states); a map has no order anyway
        if s and s.get('matchLabels'):
            items = list(s['matchLabels'].items())
            r.shuffle(items)
            s['matchLabels'] = dict(items)
    shuffle_sel(q.get('podSelector'))
    for d, key in (('ingress', 'from'), ('egress', 'to')):
        rules = q.get(d)
        if rules:
            r.shuffle(rules)
            for rule in rules:
                if rule.get(key):
                    r.shuffle(rule[key])
                    for peer in rule[key]:
                        shuffle_sel(peer.get('podSelector'))
                        shuffle_sel(peer.get('namespaceSelector'))
                        if peer.get('ipBlock') and peer['ipBlock'].get('except'):
                            r.shuffle(peer['ipBlock']['except'])
                if rule.get('ports'):
                    r.shuffle(rule['ports'])
    return q


def bias_world(r, W, anp):
    """inputs whose rendering depends on several map-ordered collections at once"""
    if anp and r.random() < 0.5 and W['workloads']:
        # the ports of one (B)ANP rule are a set: a named port that some destination does not define, written among numbered ports
        free = [p for p in (3, 4, 6, 7, 20) if p not in [a['priority'] for a in W['anps']]]
        d = r.choice(['ingress', 'egress'])
        ports = [{'namedPort': r.choice(gen.NAMES + ['nosuch'])}, {'portNumber': {'port': r.choice(gen.PORTS), 'protocol': 'TCP'}},
                 {'portRange': {'start': 1, 'end': 100, 'protocol': r.choice(['TCP', 'UDP'])}}]
        rule = {'name': 'rmix', 'action': r.choice(['Deny', 'Deny', 'Allow']), 'from' if d == 'ingress' else 'to': [{'namespaces': {}}], 'ports': ports}
        if free:
            W['anps'].insert(r.randrange(len(W['anps']) + 1), {'name': 'anpmix', 'priority': free[0], 'subject': {'namespaces': {}}, d: [rule]})
    if not anp and r.random() < 0.35 and W['workloads']:
        # several named ports of one protocol towards peers that are not in the input: they stay names in the exposure output
        w = r.choice(W['workloads'])
        d = r.choice(['ingress', 'egress'])
        key = 'from' if d == 'ingress' else 'to'
        names = r.sample(['http', 'dns', 'metrics', 'web', 'admin', 'grpc'], r.randint(3, 5))
        peer = r.choice([{'namespaceSelector': {}}, {'podSelector': {'matchLabels': {'role': 'x'}}},
                         {'namespaceSelector': {'matchLabels': {'team': 'y'}}, 'podSelector': {}}])
        proto = r.choice(['TCP', 'UDP'])
        W['netpols'].append({'ns': w['ns'], 'name': 'named3', 'podSelector': {}, 'policyTypes': ['Ingress' if d == 'ingress' else 'Egress'],
                             d: [{key: [peer], 'ports': [{'protocol': proto, 'port': nm} for nm in names]}]})
    if not anp and r.random() < 0.12 and W['workloads']:
        # one selector spelled in two ways by two policies (they share a representative peer)
        w = r.choice(W['workloads'])
        nsx = r.choice(['nsq', w['ns']])
        for i, sel in enumerate([{'matchExpressions': [{'key': gen.NSKEY, 'operator': 'In', 'values': [nsx]}]}, {'matchLabels': {gen.NSKEY: nsx}}]):
            W['netpols'].append({'ns': w['ns'], 'name': 'spell%d' % i, 'podSelector': {}, 'policyTypes': ['Egress'],
                                 'egress': [{'to': [{'namespaceSelector': sel}], 'ports': [{'port': 1 + i}]}]})
    if not anp and r.random() < 0.2 and W['workloads']:
        # several policies that together open all three protocols to the entire cluster, one of them through a named port, next to a
        # selector rule without ports: whether the union is recognised as 'All Connections' must not depend on the order they are met in
        w = r.choice(W['workloads'])
        d = r.choice(['ingress', 'egress'])
        key = 'from' if d == 'ingress' else 'to'
        pt = ['Ingress' if d == 'ingress' else 'Egress']
        nm = r.choice([c['name'] for c in w['ports'] if c['name']] + ['http'])
        for i, ports in enumerate([[{'protocol': 'TCP', 'port': 1, 'endPort': 65535}], [{'protocol': 'UDP', 'port': 1, 'endPort': 65535}],
                                   [{'protocol': 'SCTP', 'port': 1, 'endPort': 65535}], [{'protocol': r.choice(gen.PROTOS), 'port': nm}]]):
            W['netpols'].append({'ns': w['ns'], 'name': 'full%d' % i, 'podSelector': {}, 'policyTypes': pt, d: [{key: [{'namespaceSelector': {}}], 'ports': ports}]})
        W['netpols'].append({'ns': w['ns'], 'name': 'full9', 'podSelector': {}, 'policyTypes': pt, d: [{key: [{'podSelector': {'matchLabels': {'role': 'q'}}}]}]})
    if not anp and r.random() < 0.25 and W['workloads']:
        # two policies select one workload: one already allows everything (all addresses, no ports), the other opens some ports to the
        # whole cluster - the cluster-wide exposure must be recorded whichever of the two the map yields first
        w = r.choice(W['workloads'])
        d = r.choice(['ingress', 'egress'])
        key = 'from' if d == 'ingress' else 'to'
        pt = ['Ingress' if d == 'ingress' else 'Egress']
        sel = {'matchLabels': dict(w['labels'])} if w['labels'] else {}
        W['netpols'].append({'ns': w['ns'], 'name': 'allip', 'podSelector': sel, 'policyTypes': pt, d: [{key: [{'ipBlock': {'cidr': '0.0.0.0/0'}}]}]})
        W['netpols'].append({'ns': w['ns'], 'name': 'allns', 'podSelector': sel, 'policyTypes': pt,
                             d: [{key: [{'namespaceSelector': {}}], 'ports': [{'protocol': 'TCP', 'port': r.choice(gen.PORTS)}]}]})
        if d == 'egress' and r.random() < 0.6:
            # ... and a third one names a port towards addresses, which cannot be resolved: every command must fail, or answer, whichever
            # policy, rule or port entry is met first
            W['netpols'].append({'ns': w['ns'], 'name': 'namedip', 'podSelector': sel, 'policyTypes': pt,
                                 'egress': [{'to': [{'ipBlock': {'cidr': '10.0.0.0/8'}}], 'ports': [{'port': 80}, {'port': 'http'}]},
                                            {'to': [{'ipBlock': {'cidr': '10.0.0.0/8'}}]}]})
    if not anp and r.random() < 0.2 and W['workloads']:
        # two policies open ports to the whole cluster, one for every workload of the namespace and one for a single workload: what the
        # second adds must stay with that workload whichever policy the map yields first (no set may be shared between them)
        w = r.choice(W['workloads'])
        if not w['labels']:
            w['labels'] = {'app': 'only'}
        for w_ in W['workloads']:
            if w_ is not w and w_['ns'] == w['ns'] and all(w_['labels'].get(k_) == v_ for k_, v_ in w['labels'].items()):
                w_['labels'] = {'app': 'other'}
        if not any(w_ is not w and w_['ns'] == w['ns'] for w_ in W['workloads']):
            W['workloads'].append({'kind': 'Deployment', 'ns': w['ns'], 'name': 'wextra', 'labels': {'app': 'extra'}, 'ports': [], 'replicas': 1, 'owner': None, 'omit_ns': False})
        d = r.choice(['ingress', 'egress'])
        key = 'from' if d == 'ingress' else 'to'
        pt = ['Ingress' if d == 'ingress' else 'Egress']
        W['netpols'] = [p_ for p_ in W['netpols'] if (p_['ns'] or 'default') != w['ns']]
        W['netpols'].append({'ns': w['ns'], 'name': 'wide-all', 'podSelector': {}, 'policyTypes': pt, d: [{key: [{'namespaceSelector': {}}], 'ports': [{'protocol': 'TCP', 'port': 8080}]}]})
        W['netpols'].append({'ns': w['ns'], 'name': 'wide-one', 'podSelector': {'matchLabels': dict(w['labels'])}, 'policyTypes': pt,
                             d: [{key: [{'namespaceSelector': {}}], 'ports': [{'protocol': 'TCP', 'port': 9090}]}]})
    nss_ = sorted({w_['ns'] for w_ in W['workloads']})
    if not anp and len(nss_) >= 2 and r.random() < 0.25:
        # the same pod-selector-only peer in policies of two namespaces: two different representative peers (one per namespace)
        d = r.choice(['ingress', 'egress'])
        key = 'from' if d == 'ingress' else 'to'
        for nsx in nss_[:2]:
            W['netpols'].append({'ns': nsx, 'name': 'samepeer', 'podSelector': {}, 'policyTypes': ['Ingress' if d == 'ingress' else 'Egress'],
                                 d: [{key: [{'podSelector': {'matchLabels': {'role': 'client'}}}], 'ports': [{'protocol': 'TCP', 'port': 8080}]}]})
    if r.random() < 0.4:
        # a Route and an Ingress that certainly yield {ingress-controller} lines: own namespace without policies
        W['workloads'].append({'kind': 'Deployment', 'ns': 'nsr', 'name': 'wr', 'labels': {'app': 'r'}, 'replicas': 1, 'owner': None, 'omit_ns': False,
                               'ports': [{'port': 8080, 'proto': 'TCP', 'name': 'web'}, {'port': 9090, 'proto': 'TCP', 'name': ''}, {'port': 7070, 'proto': 'TCP', 'name': ''}]})
        motif = [{'kind': 'Service', 'ns': 'nsr', 'name': 'svcr', 'selector': {'app': 'r'}, 'ports': [{'name': 'p', 'port': 80, 'targetPort': 8080}, {'name': 'q', 'port': 81, 'targetPort': 9090},
                                                                                                      {'name': 's', 'port': 82, 'targetPort': 7070}]},
                 # (two objects of one kind towards one workload, the ports of one containing the other's: they are met in map order)
                 {'kind': 'Ingress', 'ns': 'nsr', 'name': 'ingr2', 'default': None, 'rules': [[{'svc': 'svcr', 'pname': 'q', 'pnum': 0}, {'svc': 'svcr', 'pname': 's', 'pnum': 0}]]},
                 {'kind': 'Route', 'ns': 'nsr', 'name': 'rtr', 'port': 8080, 'to': ['Service', 'svcr'], 'alts': []},
                 {'kind': 'Ingress', 'ns': 'nsr', 'name': 'ingr', 'default': None, 'rules': [[{'svc': 'svcr', 'pname': 'q', 'pnum': 0}]]}]
        W['others'] = (W.get('others') or []) + [c10.manifest(o) for o in motif]
    if r.random() < 0.5 and W['workloads']:
        # Services, Ingresses and Routes: the analyzer fills three maps from them, in document order
        for w in W['workloads']:
            if not w['ports']:
                w['ports'].append({'port': r.choice(gen.PORTS), 'proto': 'TCP', 'name': ''})
        W['others'] = dedupe_named((W.get('others') or []) + [c10.manifest(o) for o in c10.gen_ingress_objs(r, W)])
    return W


FID_SPELLING = 'c08-representative-spelling-order'
IN1 = re.compile(r'\{Key:([^,{}]*),Operator:In,Values:\[([^ \]{}]*)\],\}')
WITH = re.compile(r'(namespace|pod) with \{((?:[^{}]|\{[^{}]*\})*)\}')


def _split_top(s):
    items, depth, cur = [], 0, ''
    for ch in s:
        if ch == '{':
            depth += 1
        elif ch == '}':
            depth -= 1
        if ch == ',' and depth == 0:
            items.append(cur)
            cur = ''
        else:
            cur += ch
    if cur:
        items.append(cur)
    return items


def norm_rep_spelling(text):
    """identify the spellings of one selector that share a representative peer: `k In [v]` = `k=v`, the values of an expression in any order, and a namespace named by its name label"""
    text = re.sub(r'Values:\[([^\]{}]*)\]', lambda m: 'Values:[%s]' % ' '.join(sorted(m.group(1).split(' '))), text)    # the order the values were written in
    text = IN1.sub(lambda m: '%s=%s' % (m.group(1), m.group(2)), text)
    text = WITH.sub(lambda m: '%s with {%s}' % (m.group(1), ','.join(sorted(_split_top(m.group(2))))), text)
    text = re.sub(r'\[namespace with \{kubernetes\.io/metadata\.name=([^,{}]*)\}\]', lambda m: m.group(1), text)
    text = re.sub(r'namespace with \{kubernetes\.io/metadata\.name=([^,{}]*)\}', lambda m: m.group(1), text)
    return sorted(l.rstrip() for l in re.sub(r'[ \t]+', ' ', text).split('\n'))


FID_FULLNAMED = 'c08-full-range-with-named-port-order'
FULLNAMED = re.compile(r'SCTP 1-65535(,[A-Za-z][A-Za-z0-9-]*)*,TCP 1-65535(,[A-Za-z][A-Za-z0-9-]*)*,UDP 1-65535(,[A-Za-z][A-Za-z0-9-]*)*')


def norm_full_named(text):
    """all port numbers of all three protocols, with or without (redundant) named ports, is the set 'All Connections'"""
    return FULLNAMED.sub('All Connections', text)


def dedupe_named(objs):
    """a resource set has one object per (kind, namespace, name)"""
    seen, res = set(), []
    for o in objs:
        k = (o['kind'], o['metadata'].get('namespace'), o['metadata']['name'])
        if k not in seen:
            seen.add(k)
            res.append(o)
    return res


def variant(r, W, how):
    W2 = copy.deepcopy(W)
    if how == 'permute-policies':
        W2['netpols'] = [permute_policy(r, p) for p in W2['netpols']]
        # (Baseline)AdminNetworkPolicy: the rules of a policy are ordered, the peers and the ports of one rule are not
        for a in list(W2.get('anps') or []) + ([W2['banp']] if W2.get('banp') else []):
            for d, key in (('ingress', 'from'), ('egress', 'to')):
                for rule in a.get(d) or []:
                    if rule.get(key):
                        r.shuffle(rule[key])
                    if rule.get('ports'):
                        r.shuffle(rule['ports'])
    return W2


def write_variant(h, name, r, W, how):
    dl = gen.docs(variant(r, W, how))
    ms = [m for m, _ in dl]
    d = h.dir_for(name)
    if how == 'same':
        gen.write_dir(d, ms)
    elif how == 'reorder':
        r.shuffle(ms)
        gen.write_dir(d, ms)
    elif how == 'partition':
        r.shuffle(ms)
        files, i = [], 0
        while i < len(ms):
            k = r.randint(1, 4)
            files.append(list(range(i, min(len(ms), i + k))))
            i += k
        gen.write_dir(d, ms, files)
    else:
        r.shuffle(ms)
        gen.write_dir(d, ms)
    return d


def main(tier):
    run = core.Run('C08', tier)
    run.cov['rule'] = ('random worlds (NetworkPolicy, sometimes ANP/BANP) analysed k times per format (quick 4, thorough 8): unchanged (fresh map-iteration order), documents reordered, re-partitioned into '
                       'multi-document files, unordered lists inside NetworkPolicies permuted; a third of the worlds carry a rule with 3-5 named ports towards peers outside the input, half carry Services/Ingresses/Routes; list {txt,json,csv,md,dot} with exposure off and on, diff {txt,csv,md,dot}; all outputs of one world/format '
                       'must be byte-identical (an error must stay the same error class); non-trivial = at least 4 policies-or-workloads and a non-empty report; distinct by scenario hash')
    run.stage_proofs()
    b = core.build_go(['verifapi'], run.log)
    if not b['verifapi'][0]:
        run.proof_ok = False
        run.proof_notes.append('harness verifapi does not build against this tree: ' + b['verifapi'][1][-600:])
        return run.finish()
    n = 84 if tier == 'quick' else 800
    hows = ['same', 'reorder', 'partition', 'permute-policies'] + (['same', 'reorder', 'partition', 'permute-policies'] if tier != 'quick' else [])
    h = listcorr.Harness()
    try:
        shard, k = 12, 0
        while k < n and len(run.violations) < 3:
            cmds, metas = [], []
            for i in range(min(shard, n - k)):
                cid = k + i
                anp = (cid % 3 == 0)
                W = bias_world(run.rng, gen.gen_world(run.rng, anp=anp), anp)
                W2, _ = c04.edit_world(run.rng, W)
                dirs = [write_variant(h, 'c%d_%d' % (cid, j), run.rng, W, how) for j, how in enumerate(hows)]
                dirs2 = [write_variant(h, 'd%d_%d' % (cid, j), run.rng, W2, how) for j, how in enumerate(hows)]
                keys = []
                for f in LIST_FORMATS:
                    for exp in ([False] if anp else [False, True]):
                        keys.append(('list', f, exp))
                        for d in dirs:
                            cmds.append({'id': 'x', 'cmd': 'list', 'dir': d, 'format': f, 'exposure': exp, 'want_out': True})
                for f in DIFF_FORMATS:
                    keys.append(('diff', f, False))
                    for d, d2 in zip(dirs, dirs2):
                        cmds.append({'id': 'x', 'cmd': 'diff', 'dir': d, 'dir2': d2, 'format': f, 'want_out': True})
                # the eval command: the same queries (pods x pods and addresses, boundary ports) against every variant
                pods = c03.pod_names(W, False)
                ends = [('pod', wl, name) for name, wl in pods] + [('ip', a) for a in c03.boundary_ips(W, run.rng)]
                qs = [(s_, t_, pr, pt) for s_ in ends for t_ in ends if not (s_[0] == 'ip' and t_[0] == 'ip')
                      for pr in gen.PROTOS for pt in c03.boundary_ports(W, run.rng)[:6]]
                if len(qs) > 80:
                    qs = run.rng.sample(qs, 80)
                if qs:
                    keys.append(('eval', 'answers', False))
                    qstr = lambda x: x[2] if x[0] == 'pod' else str(ipaddress.ip_address(x[1]))
                    for d in dirs:
                        cmds.append({'id': 'x', 'cmd': 'eval', 'dir': d, 'mode': 'objects', 'queries': [[qstr(a), qstr(b_), pr, str(pt)] for a, b_, pr, pt in qs]})
                metas.append((cid, W, W2, keys))
            outs = h.run(cmds, timeout=3000)
            pos = 0
            for cid, W, W2, keys in metas:
                run.count(1)
                if len(W['netpols']) + len(W['workloads']) >= 4:
                    run.nontrivial(W)
                bad = None
                for key in keys:
                    group = outs[pos: pos + len(hows)]
                    pos += len(hows)
                    def sig(o):
                        if key[0] == 'eval':
                            return (o['outcome'], tuple(a if a in ('true', 'false') else ('panic' if a.startswith('panic') else 'err') for a in o.get('answers') or []))
                        if o['outcome'] != 'ok':
                            # the text of an error may name whichever offending resource was met first; its kind must not change
                            e = o.get('err', '')
                            return (o['outcome'], 'named port' in e, 'selector' in e, 'CIDR' in e or 'cidr' in e)
                        return ('ok', o.get('out', ''), o.get('out_err', ''))
                    sigs = [sig(o) for o in group]
                    if bad is None and any(s != sigs[0] for s in sigs):
                        j = next(j for j, s in enumerate(sigs) if s != sigs[0])
                        bad = (key, hows[j], group[0], group[j])
                    run.dist('%s:%s' % (key[0], key[1]))
                if bad:
                    key, how, o0, oj = bad
                    fid = None
                    if key[0] == 'list' and key[2] and o0['outcome'] == 'ok' and oj['outcome'] == 'ok':
                        if norm_rep_spelling(o0.get('out', '')) == norm_rep_spelling(oj.get('out', '')):
                            fid = FID_SPELLING
                        elif norm_rep_spelling(norm_full_named(o0.get('out', ''))) == norm_rep_spelling(norm_full_named(oj.get('out', ''))):
                            fid = FID_FULLNAMED
                    run.report(fid, 'order-%d' % cid, {'kind': 'determinism', 'command': key[0], 'format': key[1], 'exposure': key[2], 'variation': how,
                                                       'world': W, 'world2': W2 if key[0] == 'diff' else None,
                                                       'first': {'outcome': o0['outcome'], 'err': o0.get('err'), 'out': o0.get('out'), 'answers': o0.get('answers')},
                                                       'other': {'outcome': oj['outcome'], 'err': oj.get('err'), 'out': oj.get('out'), 'answers': oj.get('answers')},
                                                       'how': 'the same resources, %s: `k8snetpolicy %s -o %s%s` prints different bytes' % (how, key[0], key[1], ' --exposure' if key[2] else '')},
                               'output differs between two runs on the same resources (%s)' % how)
            run.cov['traces_validated_against_impl'] += len(metas) * len(hows)
            if k == 0 and metas:
                run.sample({'variations': hows, 'formats': LIST_FORMATS + DIFF_FORMATS, 'world': metas[0][1]})
            k += shard
    finally:
        h.close()
    return run.finish()


def replay(payload):
    run = core.Run('C08', 'quick')
    run.stage_proofs()
    core.build_go(['verifapi'], run.log)
    h = listcorr.Harness()
    try:
        W = payload['world']
        outs = []
        for j, how in enumerate(['same', 'reorder', 'partition', 'permute-policies', 'same', 'permute-policies']):
            d = write_variant(h, 'r%d' % j, run.rng, W, how)
            if payload['command'] == 'list':
                outs.append(h.run([{'id': 'x', 'cmd': 'list', 'dir': d, 'format': payload['format'], 'exposure': payload.get('exposure', False), 'want_out': True}])[0])
        run.count(1)
        sigs = [(o['outcome'], o.get('out')) for o in outs]
        if any(s != sigs[0] for s in sigs):
            oj = next(o for o, s in zip(outs, sigs) if s != sigs[0])
            o0, fid = outs[0], None
            if payload.get('exposure') and o0['outcome'] == 'ok' and oj['outcome'] == 'ok':
                if norm_rep_spelling(o0.get('out', '')) == norm_rep_spelling(oj.get('out', '')):
                    fid = FID_SPELLING
                elif norm_rep_spelling(norm_full_named(o0.get('out', ''))) == norm_rep_spelling(norm_full_named(oj.get('out', ''))):
                    fid = FID_FULLNAMED
            run.report(fid, 'replay', payload, 'output differs between runs')
    finally:
        h.close()
    return run.finish()
