//go:build verif

// verifalg: correspondence harness for the ConnectionSet / PortSet algebra (property C11).
// Injected into the /repo module with `go build -tags verif -overlay` as
// pkg/netpol/verifalg (it has to live under pkg/netpol to import pkg/netpol/internal/common).
// Reads one JSON case per line on stdin, executes the operation sequence on real
// common.ConnectionSet values and prints, after every step, the full state of the pool.
package main

import (
	"bufio"
	"encoding/json"
	"fmt"
	"os"
	"sort"

	v1 "k8s.io/api/core/v1"
	"k8s.io/apimachinery/pkg/util/intstr"

	"github.com/np-guard/netpol-analyzer/pkg/netpol/internal/common"
)

type psLit struct {
	All    bool       `json:"all"`
	Ranges [][2]int64 `json:"ranges"`
	Named  []string   `json:"named"`
}

type op struct {
	Op    string `json:"op"`
	I     int    `json:"i"`
	J     int    `json:"j"`
	All   bool   `json:"all"`
	Proto string `json:"proto"`
	PS    *psLit `json:"ps"`
	Port  int64  `json:"port"`
	Name  string `json:"name"`
	Num   int32  `json:"num"`
}

type algCase struct {
	ID   string `json:"id"`
	Pool int    `json:"pool"`
	Ops  []op   `json:"ops"`
}

type psState struct {
	Ports [][2]int64 `json:"ports"`
	Named []string   `json:"named"`
	Excl  []string   `json:"excl"`
}

type csState struct {
	All    bool                `json:"all"`
	Protos map[string]*psState `json:"protos"`
}

type step struct {
	Pool     []*csState `json:"pool"`
	Out      any        `json:"out"`
	Operand  bool       `json:"operand_modified"`
	Panicked string     `json:"panic,omitempty"`
}

func keys(m map[string]bool) []string {
	res := []string{}
	for k, v := range m {
		if v {
			res = append(res, k)
		} else {
			res = append(res, k+"=false")
		}
	}
	sort.Strings(res)
	return res
}

func stateOf(c *common.ConnectionSet) *csState {
	s := &csState{All: c.AllowAll, Protos: map[string]*psState{}}
	for p, ps := range c.AllowedProtocols {
		st := &psState{Ports: [][2]int64{}, Named: keys(ps.NamedPorts), Excl: keys(ps.ExcludedNamedPorts)}
		for _, iv := range ps.Ports.Intervals() {
			st.Ports = append(st.Ports, [2]int64{iv.Start(), iv.End()})
		}
		s.Protos[string(p)] = st
	}
	return s
}

func mkPS(l *psLit) *common.PortSet {
	ps := common.MakePortSet(l.All)
	for _, r := range l.Ranges {
		ps.AddPortRange(r[0], r[1])
	}
	for _, n := range l.Named {
		ps.AddPort(intstr.FromString(n))
	}
	return ps
}

func same(a, b *csState) bool {
	x, _ := json.Marshal(a)
	y, _ := json.Marshal(b)
	return string(x) == string(y)
}

func runStep(pool []*common.ConnectionSet, o op) (st step) {
	defer func() {
		if r := recover(); r != nil {
			st.Panicked = fmt.Sprint(r)
		}
	}()
	var before *csState
	binary := false
	switch o.Op {
	case "union", "inter", "sub", "equal", "containedin", "copy":
		binary = true
		before = stateOf(pool[o.J])
	}
	switch o.Op {
	case "new":
		pool[o.I] = common.MakeConnectionSet(o.All)
	case "alltcp":
		pool[o.I] = common.GetAllTCPConnections()
	case "addconn":
		ps := mkPS(o.PS)
		pool[o.I].AddConnection(v1.Protocol(o.Proto), ps)
		// the argument must not be aliased by the receiver: mutate it afterwards
		ps.AddPortRange(31000, 31001)
		ps.AddPort(intstr.FromString("zz-alias-probe"))
	case "union":
		pool[o.I].Union(pool[o.J])
	case "inter":
		pool[o.I].Intersection(pool[o.J])
	case "sub":
		pool[o.I].Subtract(pool[o.J])
	case "copy":
		pool[o.I] = pool[o.J].Copy()
	case "equal":
		st.Out = pool[o.I].Equal(pool[o.J])
	case "containedin":
		st.Out = pool[o.I].ContainedIn(pool[o.J])
	case "isempty":
		st.Out = pool[o.I].IsEmpty()
	case "isall":
		st.Out = pool[o.I].IsAllConnections()
	case "contains":
		st.Out = pool[o.I].Contains(fmt.Sprint(o.Port), o.Proto)
	case "string":
		st.Out = pool[o.I].String()
	case "propstring":
		st.Out = common.ConnStrFromConnProperties(pool[o.I].IsAllConnections(), pool[o.I].ProtocolsAndPortsMap())
	case "replace":
		if _, ok := pool[o.I].AllowedProtocols[v1.Protocol(o.Proto)]; ok {
			pool[o.I].ReplaceNamedPortWithMatchingPortNum(v1.Protocol(o.Proto), o.Name, o.Num)
		}
	default:
		st.Panicked = "unknown op " + o.Op
	}
	if binary {
		st.Operand = !same(before, stateOf(pool[o.J]))
	}
	st.Pool = make([]*csState, len(pool))
	for i := range pool {
		st.Pool[i] = stateOf(pool[i])
	}
	return st
}

func main() {
	in := bufio.NewScanner(os.Stdin)
	in.Buffer(make([]byte, 1<<20), 1<<26)
	out := bufio.NewWriter(os.Stdout)
	defer out.Flush()
	for in.Scan() {
		var c algCase
		if err := json.Unmarshal(in.Bytes(), &c); err != nil {
			fmt.Fprintln(os.Stderr, "bad case:", err)
			os.Exit(2)
		}
		pool := make([]*common.ConnectionSet, c.Pool)
		for i := range pool {
			pool[i] = common.MakeConnectionSet(false)
		}
		steps := make([]step, 0, len(c.Ops))
		for _, o := range c.Ops {
			steps = append(steps, runStep(pool, o))
		}
		b, _ := json.Marshal(map[string]any{"id": c.ID, "steps": steps})
		out.Write(b)
		out.WriteByte('\n')
	}
}
