# /verif setup: builds the Coq development (full .vo) and warms the Go build cache. Offline.
export GOFLAGS=-mod=mod
export GOPROXY=off
export GOSUMDB=off
export GOTOOLCHAIN=local
.PHONY: setup coq clean coqchk
setup: coq
	python3 checks/check.py --warm || true
coq:
	python3 -c "import sys; sys.path.insert(0,'.'); from checks.lib import srcfacts; srcfacts.regenerate('/repo','coq/Gen/SrcFacts.v')"
	cd coq && coq_makefile -f _CoqProject -o Makefile.coq && timeout 3000 $(MAKE) -f Makefile.coq -j16
clean:
	cd coq && (test -f Makefile.coq && $(MAKE) -f Makefile.coq cleanall || true); rm -rf build
# independent re-check of every compiled property file (and all it depends on); prints the axioms relied upon
coqchk:
	cd coq && timeout 7000 coqchk -silent -o -Q Model NP -Q Proofs NP -Q Properties NP -Q Gen NP \
	  NP.C01 NP.C02 NP.C03 NP.C04 NP.C05 NP.C06 NP.C07 NP.C08 NP.C09 NP.C10 NP.C11 NP.C12 NP.C13 NP.C14 NP.C15 NP.C16 NP.C17 NP.C18 NP.C19
