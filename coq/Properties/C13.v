(* C13 — bad or irrelevant documents are reported and never skew the result.  (partial)
   Statements only; proofs in Proofs/PipelineProofs.v; model Model/Pipeline.v: classification of the
   documents of a directory, error accumulation and the stop-on-error / fatal-error control flow of
   parser.go and connlist.go on top of the analysis model.  Partial: the behaviour of the cli-runtime
   resource builder (which documents a broken file swallows) is assumed in the model and sampled by the check. *)
From Coq Require Import List ZArith Bool String.
From NP Require Import IntervalSet ConnSet World Eval Build Connlist Pipeline PipelineProofs.
Import ListNotations.
Open Scope nat_scope.

(* whatever documents of unused kinds, schema-bad resources or broken files are placed anywhere among the
   relevant documents, the computed connections are those of the clean input *)
Theorem C13_junk_irrelevant focus docs1 docs2 :
  filter is_relevant docs1 = filter is_relevant docs2 ->
  entries_of (list_pipeline false focus docs1) = entries_of (list_pipeline false focus docs2).
Proof. exact (junk_irrelevant focus docs1 docs2). Qed.
Print Assumptions C13_junk_irrelevant.

Theorem C13_malformed_reported_severe stop focus docs :
  malformed_count docs <= severe_count (errors_of (list_pipeline stop focus docs)).
Proof. exact (malformed_reported_severe stop focus docs). Qed.
Print Assumptions C13_malformed_reported_severe.

Theorem C13_stop_on_severe_no_partial focus docs :
  0 < malformed_count docs ->
  match list_pipeline true focus docs with POk es _ => es = [] | PErr _ => True end.
Proof. exact (stop_on_severe_no_partial focus docs). Qed.
Print Assumptions C13_stop_on_severe_no_partial.

Theorem C13_fatal_no_result stop focus docs e :
  list_objs (relevant_objs docs) focus = Err e ->
  entries_of (list_pipeline stop focus docs) = None \/ entries_of (list_pipeline stop focus docs) = Some [].
Proof. exact (fatal_no_result stop focus docs e). Qed.
Print Assumptions C13_fatal_no_result.
