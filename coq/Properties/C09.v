(* C09 — every output format faithfully encodes the computed result.  (partial: see below)
   Statements only; proofs in Proofs/FormatProofs.v.  Model/Format.v gives list txt/md/csv/json/dot and
   diff txt/md/csv BYTE FOR BYTE as functions of the analysis result; the check compares the real
   formatter's bytes with these functions applied to the real API result on every run, and parses every
   format (incl. dot) back.  Proved here: each format lists every entry exactly once (rows are a
   permutation of the entries' rows), the row formats print the same rows, and - faithfulness proper - the
   rendering is INJECTIVE: the printed connection determines the canonical connection set, and the txt, md,
   csv and json outputs of `list` each determine the report (as a multiset of entries), so two different
   results never print alike and the four formats carry the same information.  The hypothesis (canonical
   connection sets, IPv4 ranges, workload names without blank / newline / comma / quote that do not consist
   of address-range characters only) is decidable (`entry_printableb`) and the check evaluates it on every
   implementation result.  Not proved: the same for diff and exposure outputs and for dot (parse-back in the
   check); encoding/json and encoding/csv are modelled on the alphabet the analysis produces. *)
From Coq Require Import List ZArith Bool String Permutation.
From NP Require Import IntervalSet ConnSet ConnSetProofs World Build Connlist Diff Format SortGeneric FormatProofs DotProofs DiffDot DiffDotProofs XFormat XFormatProofs StrInj ConnInj RowInj
     Eval EvalProofs PartitionTiles ModelPrintable DiffInj DiffTxtInj DiffCsvInj DotInj XDot XDotProofs.
Import ListNotations.

Theorem C09_rows_are_exactly_the_entries es : Permutation (rowsort (map row_of es)) (map row_of es).
Proof. exact (list_rows_are_the_entries es). Qed.
Print Assumptions C09_rows_are_exactly_the_entries.

Theorem C09_txt_lines_are_exactly_the_entries es :
  Permutation (strsort (map (fun e => txt_line (row_of e)) es)) (map (fun e => txt_line (row_of e)) es).
Proof. exact (list_txt_lines_are_the_entries es). Qed.
Print Assumptions C09_txt_lines_are_exactly_the_entries.

Theorem C09_row_formats_share_rows es :
  list_md es = (join nl (md_header :: map md_line (rowsort (map row_of es))) ++ nl)%string /\
  list_csv es = (csv_row ["src"; "dst"; "conn"] ++
                 fold_right (fun r acc => csv_row [r_src r; r_dst r; r_conn r] ++ acc) EmptyString (rowsort (map row_of es)))%string.
Proof. exact (row_formats_share_rows es). Qed.
Print Assumptions C09_row_formats_share_rows.

(* the printed connection is a function of the set of (protocol, port) points: equal sets print identically *)
Theorem C09_conn_string_is_function_of_the_set c o :
  cs_ninv c -> cs_ninv o -> (forall p n, cs_denote c p n = cs_denote o p n) -> cs_string c = cs_string o.
Proof. exact (cs_string_eq_of_denote c o). Qed.
Print Assumptions C09_conn_string_is_function_of_the_set.

(* dot (byte-exact model since the check compares it too): the edge lines are exactly the entries, each once *)
Theorem C09_dot_edges_are_exactly_the_entries es :
  Permutation (strsort (map (fun e => dot_edge_line (row_of e)) es)) (map (fun e => dot_edge_line (row_of e)) es).
Proof. exact (list_dot_edges_are_the_entries es). Qed.
Print Assumptions C09_dot_edges_are_exactly_the_entries.

(* diff dot (byte-exact model Model/DiffDot.v): the edges are exactly the diff entries, unchanged ones included, each once *)
Theorem C09_diff_dot_edges_are_exactly_the_entries d :
  Permutation (strsort (map ddot_edge_line (filter (fun e => negb (is_ic e)) d)) ++ strsort (map ddot_edge_line (filter is_ic d)))
              (map ddot_edge_line d).
Proof. exact (diff_dot_edges_are_the_entries d). Qed.
Print Assumptions C09_diff_dot_edges_are_exactly_the_entries.

(* list --exposure, txt (byte-exact model Model/XFormat.v): the lines of each section are exactly the exposure entries, the
   IP connections of the exposed workloads and the unprotected directions, each once *)
Theorem C09_exposure_lines_are_exactly_the_entries es xps ingress :
  Permutation (rowsort (flat_map (xgress_rows es ingress) xps)) (flat_map (xgress_rows es ingress) xps).
Proof. exact (exposure_rows_are_the_entries es xps ingress). Qed.
Print Assumptions C09_exposure_lines_are_exactly_the_entries.

(* list --exposure, dot (byte-exact model Model/XDot.v): the edges are exactly the connections, the exposure entries and the
   unprotected directions, each once *)
Theorem C09_exposure_dot_edges_are_exactly_the_entries es xps : Permutation (strsort (x_all_edges es xps)) (x_all_edges es xps).
Proof. exact (exposure_dot_edges_are_the_entries es xps). Qed.
Print Assumptions C09_exposure_dot_edges_are_exactly_the_entries.

(* ---- the rendering is injective ---- *)

(* the printed connection determines the canonical connection set (hence, with the theorem above: two canonical sets
   print alike iff they allow the same (protocol, port) points) *)
Theorem C09_connection_string_determines_the_set c o :
  cs_ninv c -> cs_ninv o -> cs_string c = cs_string o -> c = o.
Proof. exact (cs_string_inj c o). Qed.
Print Assumptions C09_connection_string_determines_the_set.

(* a printed peer determines the peer: an address range is never confused with a workload *)
Theorem C09_peer_string_determines_the_peer p q :
  peer_ok p -> peer_ok q -> rpeer_str p = rpeer_str q -> p = q.
Proof. exact (rpeer_str_inj p q). Qed.
Print Assumptions C09_peer_string_determines_the_peer.

(* each output of `list` determines the report *)
Theorem C09_txt_determines_the_report es es' :
  Forall entry_ok es -> Forall entry_ok es' -> list_txt es = list_txt es' -> Permutation es es'.
Proof. exact (list_txt_inj es es'). Qed.
Print Assumptions C09_txt_determines_the_report.

Theorem C09_md_determines_the_report es es' :
  Forall entry_ok es -> Forall entry_ok es' -> list_md es = list_md es' -> Permutation es es'.
Proof. exact (list_md_inj es es'). Qed.
Print Assumptions C09_md_determines_the_report.

Theorem C09_csv_determines_the_report es es' :
  Forall entry_ok es -> Forall entry_ok es' -> list_csv es = list_csv es' -> Permutation es es'.
Proof. exact (list_csv_inj es es'). Qed.
Print Assumptions C09_csv_determines_the_report.

Theorem C09_json_determines_the_report es es' :
  Forall entry_ok es -> Forall entry_ok es' -> list_json es = list_json es' -> Permutation es es'.
Proof. exact (list_json_inj es es'). Qed.
Print Assumptions C09_json_determines_the_report.

Theorem C09_formats_carry_the_same_information es es' : Forall entry_ok es -> Forall entry_ok es' ->
  (list_txt es = list_txt es' <-> list_md es = list_md es') /\
  (list_txt es = list_txt es' <-> list_csv es = list_csv es') /\
  (list_txt es = list_txt es' <-> list_json es = list_json es').
Proof. exact (formats_equivalent es es'). Qed.
Print Assumptions C09_formats_carry_the_same_information.

(* the hypothesis is decidable; the check runs this on every implementation result *)
Theorem C09_printable_checker_sound es : forallb entry_printableb es = true -> Forall entry_ok es.
Proof. exact (entries_printable es). Qed.
Print Assumptions C09_printable_checker_sound.

(* the model's own reports are inside that domain, whatever the policies: names built from blank-free namespace / name /
   kind strings, blocks of the IPv4 partition, canonical sets *)
Theorem C09_model_reports_are_printable w focus hi r :
  list_world w focus hi = Ok r -> world_okb w = true -> forallb pod_okb (w_pods w) = true ->
  Forall pod_plain (w_pods w) ->
  (forall bl, referenced_blocks (w_nps w) = Ok bl -> blocks_in_range bl) ->
  Forall entry_ok (lr_entries r).
Proof. exact (model_report_printable w focus hi r). Qed.
Print Assumptions C09_model_reports_are_printable.

(* so two analyses whose outputs coincide in any one format computed the same report *)
Theorem C09_equal_output_means_equal_report w1 w2 f1 f2 h1 h2 r1 r2 :
  list_world w1 f1 h1 = Ok r1 -> world_okb w1 = true -> forallb pod_okb (w_pods w1) = true -> Forall pod_plain (w_pods w1) ->
  (forall bl, referenced_blocks (w_nps w1) = Ok bl -> blocks_in_range bl) ->
  list_world w2 f2 h2 = Ok r2 -> world_okb w2 = true -> forallb pod_okb (w_pods w2) = true -> Forall pod_plain (w_pods w2) ->
  (forall bl, referenced_blocks (w_nps w2) = Ok bl -> blocks_in_range bl) ->
  list_txt (lr_entries r1) = list_txt (lr_entries r2) \/ list_md (lr_entries r1) = list_md (lr_entries r2) \/
  list_csv (lr_entries r1) = list_csv (lr_entries r2) \/ list_json (lr_entries r1) = list_json (lr_entries r2) ->
  Permutation (lr_entries r1) (lr_entries r2).
Proof. exact (model_reports_print_differently w1 w2 f1 f2 h1 h2 r1 r2). Qed.
Print Assumptions C09_equal_output_means_equal_report.

(* diff, md: the output determines the added / removed / changed entries (unchanged ones are not printed), connections,
   new/lost flags and all; [dentry_ok]: printable peers without '|', two different ends, canonical sets, the absent side of
   an added / removed entry is the empty set - decidable ([dentry_printableb]) and evaluated on every implementation result *)
Theorem C09_diff_md_determines_the_diff d d' :
  Forall dentry_ok d -> Forall dentry_ok d' -> diff_md d = diff_md d' ->
  Permutation (filter changedb d) (filter changedb d').
Proof. exact (diff_md_inj d d'). Qed.
Print Assumptions C09_diff_md_determines_the_diff.

(* ... and so does the txt output, the default format: its fields are separated by ", " and a printed connection holds
   commas, but none followed by a blank *)
Theorem C09_diff_txt_determines_the_diff d d' :
  Forall dentry_ok d -> Forall dentry_ok d' -> diff_txt d = diff_txt d' ->
  Permutation (filter changedb d) (filter changedb d').
Proof. exact (diff_txt_inj d d'). Qed.
Print Assumptions C09_diff_txt_determines_the_diff.

(* ... and the csv output (fields joined with ';', sorted, split again and quoted by encoding/csv); the peer strings hold no ';' *)
Theorem C09_diff_csv_determines_the_diff d d' :
  Forall dentry_csv_ok d -> Forall dentry_csv_ok d' -> diff_csv d = diff_csv d' ->
  Permutation (filter changedb d) (filter changedb d').
Proof. exact (diff_csv_inj d d'). Qed.
Print Assumptions C09_diff_csv_determines_the_diff.

Theorem C09_diff_csv_printable_checker_sound d : forallb dentry_csv_printableb d = true -> Forall dentry_csv_ok d.
Proof. exact (dentries_csv_printable d). Qed.
Print Assumptions C09_diff_csv_printable_checker_sound.

(* ... and the dot output: an edge line is the only kind of line made of a quoted string followed by " -> ", so the
   edges - hence the entries - can be read off the graph whatever peers list it was drawn with *)
Theorem C09_dot_determines_the_report es es' ps ps' :
  Forall entry_ok es -> Forall entry_ok es' -> Forall dpeer_ok ps -> Forall dpeer_ok ps' ->
  list_dot es ps = list_dot es' ps' -> Permutation es es'.
Proof. exact (list_dot_inj es es' ps ps'). Qed.
Print Assumptions C09_dot_determines_the_report.

Theorem C09_dot_printable_checker_sound ps : forallb dpeer_printableb ps = true -> Forall dpeer_ok ps.
Proof. exact (dpeers_printable ps). Qed.
Print Assumptions C09_dot_printable_checker_sound.

Theorem C09_diff_row_determines_the_entry e e' : dentry_ok e -> dentry_ok e' -> drow_of e = drow_of e' -> e = e'.
Proof. exact (drow_of_inj e e'). Qed.
Print Assumptions C09_diff_row_determines_the_entry.

Theorem C09_diff_printable_checker_sound d : forallb dentry_printableb d = true -> Forall dentry_ok d.
Proof. exact (dentries_printable d). Qed.
Print Assumptions C09_diff_printable_checker_sound.

(* non-vacuity: a report with workloads, an address range, a multi-protocol set and the full set is printable *)
Example C09_printable_example :
  forallb entry_printableb
    [ mkRE (RW "default/a[Deployment]") (RW "ns1/b-2[Pod]")
           (mkCS false (Some (mkPS [(80, 80); (8080, 8090)] [] [])) (Some (mkPS [(53, 53)] [] [])) None);
      mkRE (RIP 0 167772159) (RW "default/a[Deployment]") (mkCS true None None None);
      mkRE (RW "{ingress-controller}") (RW "default/a[Deployment]") (mkCS false (Some (mkPS [(1, 65535)] [] [])) None None) ]%Z
  = true.
Proof. vm_compute. reflexivity. Qed.
