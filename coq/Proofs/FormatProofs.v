(* FormatProofs.v — the format models (Model/Format.v) depend on the result only as a multiset of
   entries (C08: permutation invariance, for any correct sort) and encode every entry exactly once
   (C09: the rows are a permutation of the entries' rows).  No axioms. *)
From Coq Require Import List ZArith Bool String Ascii Permutation Sorting.Sorted Lia.
From NP Require Import IntervalSet ConnSet World Build Connlist Diff Format SortGeneric.
Import ListNotations.
Open Scope list_scope.

(* the sorts of Format.v are the generic insertion sort *)
Lemma sinsert_is x l : sinsert x l = insert string String.leb x l.
Proof. induction l as [|y t IH]; cbn; [reflexivity|]. destruct (String.leb x y); [reflexivity | rewrite IH; reflexivity]. Qed.
Lemma strsort_is l : strsort l = ssort l.
Proof. unfold strsort, ssort, isort. induction l as [|a t IH]; cbn; [reflexivity|]. rewrite IH. apply sinsert_is. Qed.

Theorem strsort_perm_invariant l1 l2 : Permutation l1 l2 -> strsort l1 = strsort l2.
Proof. intros H. rewrite !strsort_is. apply ssort_perm_invariant; exact H. Qed.

Lemma strsort_perm l : Permutation (strsort l) l.
Proof. rewrite strsort_is. apply isort_perm. Qed.

(* ---------- the order on rows ---------- *)
Lemma string_eqb_false_sym a b : String.eqb a b = false -> String.eqb b a = false.
Proof. rewrite String.eqb_sym. auto. Qed.

Lemma leb_refl s : String.leb s s = true.
Proof. unfold String.leb. rewrite string_compare_refl. reflexivity. Qed.

Lemma row_leb_total a b : row_leb a b = true \/ row_leb b a = true.
Proof.
  unfold row_leb. rewrite (String.eqb_sym (r_src b)), (String.eqb_sym (r_dst b)).
  destruct (String.eqb (r_src a) (r_src b)); [|apply String.leb_total].
  destruct (String.eqb (r_dst a) (r_dst b)); apply String.leb_total.
Qed.

Lemma row_leb_antisym a b : row_leb a b = true -> row_leb b a = true -> a = b.
Proof.
  unfold row_leb. rewrite (String.eqb_sym (r_src b)), (String.eqb_sym (r_dst b)).
  destruct a as [s1 d1 c1], b as [s2 d2 c2]; cbn [r_src r_dst r_conn].
  destruct (String.eqb s1 s2) eqn:Es.
  - apply String.eqb_eq in Es. subst. destruct (String.eqb d1 d2) eqn:Ed.
    + apply String.eqb_eq in Ed. subst. intros H1 H2. rewrite (String.leb_antisym _ _ H1 H2). reflexivity.
    + intros H1 H2. pose proof (String.leb_antisym _ _ H1 H2). subst. rewrite String.eqb_refl in Ed. discriminate.
  - intros H1 H2. pose proof (String.leb_antisym _ _ H1 H2). subst. rewrite String.eqb_refl in Es. discriminate.
Qed.

Lemma leb_neq_trans a b c : String.leb a b = true -> String.leb b c = true -> String.eqb a c = true -> a = b.
Proof. intros H1 H2 E. apply String.eqb_eq in E. subst c. apply String.leb_antisym; assumption. Qed.

Lemma row_leb_trans a b c : row_leb a b = true -> row_leb b c = true -> row_leb a c = true.
Proof.
  unfold row_leb. destruct a as [s1 d1 c1], b as [s2 d2 c2], c as [s3 d3 c3]; cbn [r_src r_dst r_conn].
  destruct (String.eqb s1 s2) eqn:E12; destruct (String.eqb s2 s3) eqn:E23.
  - apply String.eqb_eq in E12, E23. subst. rewrite String.eqb_refl.
    destruct (String.eqb d1 d2) eqn:D12; destruct (String.eqb d2 d3) eqn:D23.
    + apply String.eqb_eq in D12, D23. subst. rewrite String.eqb_refl. apply string_leb_trans.
    + apply String.eqb_eq in D12. subst. rewrite D23. auto.
    + apply String.eqb_eq in D23. subst. rewrite D12. auto.
    + intros H1 H2. destruct (String.eqb d1 d3) eqn:D13.
      * pose proof (leb_neq_trans _ _ _ H1 H2 D13). subst. rewrite String.eqb_refl in D12. discriminate.
      * eapply string_leb_trans; eassumption.
  - apply String.eqb_eq in E12. subst. rewrite E23. auto.
  - apply String.eqb_eq in E23. subst. rewrite E12. auto.
  - intros H1 H2. destruct (String.eqb s1 s3) eqn:E13.
    + pose proof (leb_neq_trans _ _ _ H1 H2 E13). subst. rewrite String.eqb_refl in E12. discriminate.
    + eapply string_leb_trans; eassumption.
Qed.

Lemma rinsert_is x l : rinsert x l = insert row row_leb x l.
Proof. induction l as [|y t IH]; cbn; [reflexivity|]. destruct (row_leb x y); [reflexivity | rewrite IH; reflexivity]. Qed.
Lemma rowsort_is l : rowsort l = isort row row_leb l.
Proof. unfold rowsort, isort. induction l as [|a t IH]; cbn; [reflexivity|]. rewrite IH. apply rinsert_is. Qed.

Theorem rowsort_perm_invariant l1 l2 : Permutation l1 l2 -> rowsort l1 = rowsort l2.
Proof.
  intros H. rewrite !rowsort_is.
  apply isort_perm_invariant; [apply row_leb_total | apply row_leb_antisym | apply row_leb_trans | exact H].
Qed.

Theorem rowsort_perm l : Permutation (rowsort l) l.
Proof. rewrite rowsort_is. apply isort_perm. Qed.

(* sort.Slice by (src, dst) on rows with pairwise distinct (src, dst): whatever correct sort is used, the
   result is rowsort *)
Theorem rowsort_is_the_sort (srt : list row -> list row) l :
  Permutation (srt l) l -> StronglySorted (fun a b => row_leb a b = true) (srt l) -> srt l = rowsort l.
Proof.
  intros Hp Hs. rewrite rowsort_is.
  apply any_sort_agrees; [apply row_leb_total | apply row_leb_antisym | apply row_leb_trans | exact Hp | exact Hs].
Qed.

(* ---------- C08: the outputs do not depend on the order of the entries ---------- *)
Theorem list_txt_perm_invariant es1 es2 : Permutation es1 es2 -> list_txt es1 = list_txt es2.
Proof. intros H. unfold list_txt. rewrite (strsort_perm_invariant _ _ (Permutation_map (fun e => txt_line (row_of e)) H)). reflexivity. Qed.

Theorem list_md_perm_invariant es1 es2 : Permutation es1 es2 -> list_md es1 = list_md es2.
Proof. intros H. unfold list_md. rewrite (rowsort_perm_invariant _ _ (Permutation_map row_of H)). reflexivity. Qed.

Theorem list_csv_perm_invariant es1 es2 : Permutation es1 es2 -> list_csv es1 = list_csv es2.
Proof. intros H. unfold list_csv. rewrite (rowsort_perm_invariant _ _ (Permutation_map row_of H)). reflexivity. Qed.

Theorem list_json_perm_invariant es1 es2 : Permutation es1 es2 -> list_json es1 = list_json es2.
Proof.
  intros H. unfold list_json.
  destruct es1 as [|a t1], es2 as [|b t2]; try reflexivity;
    try (apply Permutation_nil in H; discriminate); try (apply Permutation_sym, Permutation_nil in H; discriminate).
  rewrite (rowsort_perm_invariant _ _ (Permutation_map row_of H)). reflexivity.
Qed.

Lemma filter_perm {A} (f : A -> bool) l1 l2 : Permutation l1 l2 -> Permutation (filter f l1) (filter f l2).
Proof.
  induction 1; cbn [filter]; try (destruct (f x)); try (destruct (f y)); eauto using Permutation.
Qed.

Theorem diff_lines_perm_invariant line d1 d2 : Permutation d1 d2 -> diff_lines line d1 = diff_lines line d2.
Proof.
  intros H. unfold diff_lines.
  assert (G : forall f, strsort (map (fun e => line (drow_of e)) (filter f d1)) = strsort (map (fun e => line (drow_of e)) (filter f d2)))
    by (intros f; apply strsort_perm_invariant, Permutation_map, filter_perm, H).
  rewrite !G. reflexivity.
Qed.

Lemma diff_is_empty_perm d1 d2 : Permutation d1 d2 -> diff_is_empty d1 = diff_is_empty d2.
Proof.
  unfold diff_is_empty. induction 1; cbn [forallb]; try congruence.
  destruct (dtype_eqb (de_type x) DUnchanged), (dtype_eqb (de_type y) DUnchanged); reflexivity.
Qed.

Theorem diff_txt_perm_invariant d1 d2 : Permutation d1 d2 -> diff_txt d1 = diff_txt d2.
Proof. intros H. unfold diff_txt. rewrite (diff_is_empty_perm _ _ H), (diff_lines_perm_invariant _ _ _ H). reflexivity. Qed.
Theorem diff_md_perm_invariant d1 d2 : Permutation d1 d2 -> diff_md d1 = diff_md d2.
Proof. intros H. unfold diff_md. rewrite (diff_is_empty_perm _ _ H), (diff_lines_perm_invariant _ _ _ H). reflexivity. Qed.
Theorem diff_csv_perm_invariant d1 d2 : Permutation d1 d2 -> diff_csv d1 = diff_csv d2.
Proof. intros H. unfold diff_csv. rewrite (diff_is_empty_perm _ _ H), (diff_lines_perm_invariant _ _ _ H). reflexivity. Qed.

(* ---------- C09: every entry is encoded exactly once ---------- *)
Theorem list_rows_are_the_entries es : Permutation (rowsort (map row_of es)) (map row_of es).
Proof. apply rowsort_perm. Qed.

Theorem list_txt_lines_are_the_entries es :
  Permutation (strsort (map (fun e => txt_line (row_of e)) es)) (map (fun e => txt_line (row_of e)) es).
Proof. apply strsort_perm. Qed.

(* all row formats print the same rows in the same order: md, csv and json cannot disagree with each other *)
Theorem row_formats_share_rows es :
  list_md es = (join nl (md_header :: map md_line (rowsort (map row_of es))) ++ nl)%string /\
  list_csv es = (csv_row ["src"; "dst"; "conn"] ++
                 fold_right (fun r acc => csv_row [r_src r; r_dst r; r_conn r] ++ acc) EmptyString (rowsort (map row_of es)))%string.
Proof. split; reflexivity. Qed.

(* the connection string is a function of the set denoted: equal sets print identically (from C11) *)
