(* Total.v — the places where the analysis reads an OPTIONAL field of a decoded manifest, with a
   third outcome [TPanic] produced only by dereferencing an absent value.  Mirrors, after the fix:
   commits recorded in known_findings.json:
     internal/k8s/pod.go PodFromCoreObject (ownerReferences[i].controller), PodsFromWorkloadObject
     (ReplicationController spec.template, spec.replicas), ingress_analyzer.go getK8sIngressServices
     (rule.http, backend.service, defaultBackend), getRouteServices (spec.port), netpol.go rule ports
     (port, protocol, endPort), check.go isPeerNodeIP (status.hostIP).
   Decoding (YAML/JSON, FromUnstructured) is third-party and outside this model.  Executable definitions only. *)
From Coq Require Import List ZArith Bool String.
Import ListNotations.
Open Scope string_scope.

Inductive tres (A : Type) := TOk (a : A) | TErr | TPanic.
Arguments TOk {A} a.
Arguments TErr {A}.
Arguments TPanic {A}.

Definition deref {A} (o : option A) : tres A := match o with Some a => TOk a | None => TPanic end.
Definition no_panic {A} (r : tres A) : bool := match r with TPanic => false | _ => true end.

(* ---- Pod: the controller owner ---- *)
Record oref := mkORef { or_kind : string; or_name : string; or_controller : option bool }.

(* the code as it is now: an absent controller field is "not a controller" *)
Fixpoint pod_owner (refs : list oref) : tres (option (string * string)) :=
  match refs with
  | [] => TOk None
  | r :: t =>
      match or_controller r with
      | Some true => TOk (if String.eqb (or_kind r) "Node" then None else Some (or_name r, or_kind r))
      | _ => pod_owner t
      end
  end.

(* the code before the fix: `if *ownerRef.Controller` *)
Fixpoint pod_owner_unguarded (refs : list oref) : tres (option (string * string)) :=
  match refs with
  | [] => TOk None
  | r :: t =>
      match deref (or_controller r) with
      | TOk true => TOk (if String.eqb (or_kind r) "Node" then None else Some (or_name r, or_kind r))
      | TOk false => pod_owner_unguarded t
      | TErr => TErr
      | TPanic => TPanic
      end
  end.

(* ---- workloads: replicas and the pod template ---- *)
Definition replicas_of (r : option Z) : Z := match r with Some n => n | None => 1%Z end.   (* getReplicas *)

Definition rc_template {T} (t : option T) : tres T := match t with Some x => TOk x | None => TErr end.
Definition rc_template_unguarded {T} (t : option T) : tres T := deref t.

(* ---- Ingress: services designated by rules and the default backend ---- *)
Record ing_path := mkPath { pa_service : option string }.
Record ing_rule := mkIRule { ir_http : option (list ing_path) }.

Definition rule_services (r : ing_rule) : tres (list string) :=
  match ir_http r with
  | None => TOk []
  | Some ps => TOk (flat_map (fun p => match pa_service p with Some s => [s] | None => [] end) ps)
  end.
Definition rule_services_unguarded (r : ing_rule) : tres (list string) :=
  match deref (ir_http r) with
  | TOk ps => TOk (flat_map (fun p => match pa_service p with Some s => [s] | None => [] end) ps)
  | TErr => TErr
  | TPanic => TPanic
  end.

Fixpoint ingress_services (default_backend : option (option string)) (rules : list ing_rule) : tres (list string) :=
  match rules with
  | [] => TOk (match default_backend with Some (Some s) => [s] | _ => [] end)
  | r :: t => match rule_services r, ingress_services default_backend t with
              | TOk a, TOk b => TOk (b ++ a)%list
              | TPanic, _ | _, TPanic => TPanic
              | _, _ => TErr
              end
  end.

(* ---- Route: spec.port ---- *)
Definition route_target_port (port : option string) : string := match port with Some p => p | None => "" end.

(* ---- status.hostIP and the node-IP shortcut (NOT repaired: known finding) ---- *)
Inductive hostip := HIPv4 (a : Z) | HAbsent | HIPv6 | HGarbage.
Definition node_ip_check (h : hostip) : tres bool :=
  match h with
  | HIPv4 _ => TOk false        (* err == nil: the inverted test skips the comparison *)
  | HAbsent => TOk false        (* the parser substitutes the loopback address *)
  | HIPv6 => TPanic             (* index out of range inside netset.IPBlockFromIPAddress *)
  | HGarbage => TPanic          (* err != nil: Equal on the nil block *)
  end.

(* ---- a structured Pod / workload / Ingress input and what reading it can do ---- *)
Record sinput := mkSI { si_owner_refs : list oref; si_rc_template : option unit; si_replicas : option Z;
                        si_default_backend : option (option string); si_rules : list ing_rule;
                        si_route_port : option string; si_hostip : hostip }.

Definition read_input (i : sinput) : bool :=
  no_panic (pod_owner (si_owner_refs i)) && no_panic (rc_template (si_rc_template i))
  && no_panic (ingress_services (si_default_backend i) (si_rules i)) && no_panic (node_ip_check (si_hostip i)).
