(* EngineProofs.v — the verdict cache of the PolicyEngine never changes an answer:
   along any history every cache entry equals what a cache-less evaluation on the current objects
   returns (invariant [Inv]), hence every query answer equals the fresh answer.  No axioms. *)
From Coq Require Import List ZArith Bool String Lia.
From NP Require Import IntervalSet ConnSet World Eval EvalPoint Build EvalCase Engine.
Import ListNotations.
Open Scope list_scope.
Open Scope Z_scope.

(* ---------- evaluation looks at a pod only through namespace, labels and container ports ---------- *)
Definition view (p : pod) : pod := mkPod (p_ns p) EmptyString (p_labels p) (p_ports p) EmptyString EmptyString false.
Definition vw (x : peer) : peer := match x with PPod p l => PPod (view p) l | PIP b => PIP b end.

Lemma np_peers_select_vw npns peers x : np_peers_select npns peers x = np_peers_select npns peers (vw x).
Proof.
  induction peers as [|pr t IH]; cbn [np_peers_select]; [reflexivity|].
  destruct x as [p l|b]; cbn [vw]; [|reflexivity]. cbn [vw] in IH.
  destruct pr as [nss pods| | | |]; try reflexivity; try exact IH.
  cbn [view p_ns p_labels]. rewrite IH. reflexivity.
Qed.

Lemma np_rule_selects_vw npns peers x : np_rule_selects npns peers x = np_rule_selects npns peers (vw x).
Proof. unfold np_rule_selects. destruct peers; [reflexivity | apply np_peers_select_vw]. Qed.

Lemma get_ports_range_vw pp x : get_ports_range pp x = get_ports_range pp (vw x).
Proof. destruct x; reflexivity. Qed.

Lemma np_ports_contain_vw ports x pr n : np_ports_contain ports x pr n = np_ports_contain ports (vw x) pr n.
Proof.
  induction ports as [|pp t IH]; cbn [np_ports_contain]; [reflexivity|].
  rewrite <- get_ports_range_vw, IH. reflexivity.
Qed.

Lemma np_rule_contains_vw ports x pr n : np_rule_contains ports x pr n = np_rule_contains ports (vw x) pr n.
Proof. unfold np_rule_contains. destruct ports; [reflexivity | apply np_ports_contain_vw]. Qed.

Lemma np_rules_allow_vw npns rules o d pr n :
  np_rules_allow npns rules o d pr n = np_rules_allow npns rules (vw o) (vw d) pr n.
Proof.
  induction rules as [|r t IH]; cbn [np_rules_allow]; [reflexivity|].
  rewrite <- np_rule_selects_vw, <- np_rule_contains_vw, IH. reflexivity.
Qed.

Lemma np_policy_allows_vw np s d ing pr n :
  np_policy_allows np s d ing pr n = np_policy_allows np (vw s) (vw d) ing pr n.
Proof. unfold np_policy_allows. destruct ing; apply np_rules_allow_vw. Qed.

Lemma nps_allow_vw sel s d ing pr n : nps_allow sel s d ing pr n = nps_allow sel (vw s) (vw d) ing pr n.
Proof.
  induction sel as [|np t IH]; cbn [nps_allow]; [reflexivity|].
  rewrite <- np_policy_allows_vw, IH. reflexivity.
Qed.

Lemma np_selects_view np p d : np_selects np p d = np_selects np (view p) d.
Proof. reflexivity. Qed.

Lemma selecting_nps_view nps p d : selecting_nps nps p d = selecting_nps nps (view p) d.
Proof. induction nps as [|np t IH]; cbn [selecting_nps]; [reflexivity|]. rewrite IH. reflexivity. Qed.

Lemma np_layer_point_vw w s d ing pr n : np_layer_point w s d ing pr n = np_layer_point w (vw s) (vw d) ing pr n.
Proof.
  unfold np_layer_point.
  assert (E : (if ing then vw d else vw s) = vw (if ing then d else s)) by (destruct ing; reflexivity).
  rewrite E. destruct (if ing then d else s) as [p l|b]; cbn [vw]; [|reflexivity].
  rewrite <- selecting_nps_view. destruct (selecting_nps (w_nps w) p _) as [sel|]; cbn [bind]; [|reflexivity].
  destruct sel; [reflexivity|]. rewrite <- nps_allow_vw. reflexivity.
Qed.

Lemma admin_peer_matches_vw ap x : admin_peer_matches ap x = admin_peer_matches ap (vw x).
Proof. destruct ap, x; reflexivity. Qed.

Lemma admin_peers_select_vw peers x : admin_peers_select peers x = admin_peers_select peers (vw x).
Proof.
  induction peers as [|ap t IH]; cbn [admin_peers_select]; [reflexivity|].
  rewrite <- admin_peer_matches_vw, IH. reflexivity.
Qed.

Lemma admin_selects_vw subj rules x : admin_selects subj rules x = admin_selects subj rules (vw x).
Proof.
  unfold admin_selects. destruct x as [p l|b]; cbn [vw]; [|reflexivity].
  destruct rules; [reflexivity|]. unfold subject_selects. destruct subj; try reflexivity.
Qed.

Lemma admin_ports_contain_vw ports x pr n : admin_ports_contain ports x pr n = admin_ports_contain ports (vw x) pr n.
Proof.
  induction ports as [|ap t IH]; cbn [admin_ports_contain]; [reflexivity|].
  destruct ap; try reflexivity; try (rewrite IH; reflexivity).
  destruct x as [p l|b]; cbn [vw] in *; [|exact IH]. cbn [view p_ports]. rewrite IH. reflexivity.
Qed.

Lemma admin_rule_contains_vw ports x pr n : admin_rule_contains ports x pr n = admin_rule_contains ports (vw x) pr n.
Proof. unfold admin_rule_contains. destruct ports; [apply admin_ports_contain_vw | reflexivity]. Qed.

Lemma admin_rules_check_vw rules o d banp pr n :
  admin_rules_check rules o d banp pr n = admin_rules_check rules (vw o) (vw d) banp pr n.
Proof.
  induction rules as [|r t IH]; cbn [admin_rules_check]; [reflexivity|].
  destruct (ar_peers r); [reflexivity|].
  rewrite <- admin_peers_select_vw, <- admin_rule_contains_vw, IH. reflexivity.
Qed.

Lemma if_vw (b : bool) x y : (if b then vw x else vw y) = vw (if b then x else y).
Proof. destruct b; reflexivity. Qed.

Lemma anps_check_vw anps s d ing pr n : anps_check anps s d ing pr n = anps_check anps (vw s) (vw d) ing pr n.
Proof.
  induction anps as [|a t IH]; cbn [anps_check]; [reflexivity|].
  rewrite !if_vw, <- admin_selects_vw, IH.
  destruct (admin_selects _ _ _) as [sel|]; cbn [bind]; [|reflexivity].
  destruct sel; cbn [negb]; [|reflexivity].
  rewrite (admin_rules_check_vw _ (if ing then s else d) d). rewrite <- if_vw. reflexivity.
Qed.

Lemma banp_check_vw w s d ing pr n : banp_check w s d ing pr n = banp_check w (vw s) (vw d) ing pr n.
Proof.
  unfold banp_check. destruct (w_banp w) as [b|]; [|reflexivity].
  rewrite !if_vw, <- admin_selects_vw.
  destruct (admin_selects _ _ _) as [sel|]; cbn [bind]; [|reflexivity].
  destruct sel; cbn [negb]; [|reflexivity].
  rewrite (admin_rules_check_vw _ (if ing then s else d) d). rewrite <- if_vw. reflexivity.
Qed.

Lemma xgress_allowed_vw w s d ing pr n : xgress_allowed w s d ing pr n = xgress_allowed w (vw s) (vw d) ing pr n.
Proof.
  unfold xgress_allowed. rewrite <- anps_check_vw, <- np_layer_point_vw, <- banp_check_vw. reflexivity.
Qed.

Definition same_view (p q : pod) : Prop :=
  p_ns p = p_ns q /\ p_labels p = p_labels q /\ p_ports p = p_ports q.

Lemma same_view_eq p q : same_view p q -> view p = view q.
Proof. intros (H1 & H2 & H3). unfold view. rewrite H1, H2, H3. reflexivity. Qed.

(* the verdict for two different pods depends only on their views *)
Lemma check_allowed_congr w p p' q q' l1 l2 pr n :
  same_view p p' -> same_view q q' ->
  pod_to_itself (PPod p l1) (PPod q l2) = false -> pod_to_itself (PPod p' l1) (PPod q' l2) = false ->
  check_allowed w (PPod p l1) (PPod q l2) pr n = check_allowed w (PPod p' l1) (PPod q' l2) pr n.
Proof.
  intros Hp Hq H1 H2. unfold check_allowed. rewrite H1, H2.
  rewrite (xgress_allowed_vw w (PPod p l1) (PPod q l2)), (xgress_allowed_vw w (PPod p' l1) (PPod q' l2)).
  rewrite (xgress_allowed_vw w (PPod p l1) (PPod q l2) true), (xgress_allowed_vw w (PPod p' l1) (PPod q' l2) true).
  cbn [vw]. rewrite (same_view_eq _ _ Hp), (same_view_eq _ _ Hq). reflexivity.
Qed.

(* ---------- the cache invariant ---------- *)
Definition check_core (w : world) (s d : peer) (pr : proto) (n : Z) : outcome bool :=
  do eg <- xgress_allowed w s d false pr n;
  if negb eg then Ok false else xgress_allowed w s d true pr n.

Lemma check_allowed_core w s d pr n :
  check_allowed w s d pr n = if pod_to_itself s d then Ok true else check_core w s d pr n.
Proof. reflexivity. Qed.

Lemma check_core_vw w s d pr n : check_core w s d pr n = check_core w (vw s) (vw d) pr n.
Proof. unfold check_core. rewrite <- !xgress_allowed_vw. reflexivity. Qed.

Definition nsl_ns (e : engine) (ns : string) : labels :=
  match find_ns ns (e_nss e) with Some n => ns_labels n | None => [(K8sNsNameLabelKey, ns)] end.

Definition kpod (k : okey) (ports : list cport) : pod :=
  let '(ns, own, l) := k in mkPod ns EmptyString l ports own EmptyString false.
Definition kns (k : okey) : string := let '(ns, _, _) := k in ns.

Lemma view_kpod p : view p = view (kpod (pod_okey p) (p_ports p)).
Proof. reflexivity. Qed.

Definition ports_for (e : engine) (k : okey) (ps : list cport) : Prop :=
  exists r, In r (e_pods e) /\ pod_okey r = k /\ p_ports r = ps.

(* the verdict the policies give for two (different) pods with these owner keys and ports *)
Definition kverdict (e : engine) (k : ckey) (ps pd : list cport) : outcome bool :=
  check_core (world_of e)
             (PPod (kpod (ck_src k) ps) (nsl_ns e (kns (ck_src k))))
             (PPod (kpod (ck_dst k) pd) (nsl_ns e (kns (ck_dst k))))
             (ck_proto k) (ck_port k).

Definition entry_valid (e : engine) (k : ckey) (b : bool) : Prop :=
  exists ps pd, ports_for e (ck_src k) ps /\ ports_for e (ck_dst k) pd /\ kverdict e k ps pd = Ok b.

Definition Inv (s : estate) : Prop :=
  forall k b, In (k, b) (es_cache s) -> entry_valid (es_eng s) k b.

(* the engine's own equivalence assumption: pods sharing namespace, owner and labels share ports *)
Definition uniform (e : engine) : Prop :=
  forall p q, In p (e_pods e) -> In q (e_pods e) -> pod_okey p = pod_okey q -> p_ports p = p_ports q.

(* ---------- boolean equalities reflect equality ---------- *)
Lemma labels_eqb_spec a : forall b, labels_eqb a b = true <-> a = b.
Proof.
  induction a as [|[k v] t IH]; intros [|[k' v'] t']; cbn [labels_eqb]; split; intros H; try discriminate; try reflexivity.
  - apply andb_true_iff in H. destruct H as [H H3]. apply andb_true_iff in H. destruct H as [H1 H2].
    apply String.eqb_eq in H1, H2. apply IH in H3. congruence.
  - inversion H; subst. rewrite !String.eqb_refl. cbn. apply IH. reflexivity.
Qed.

Lemma okey_eqb_spec a b : okey_eqb a b = true <-> a = b.
Proof.
  destruct a as [[n1 o1] l1], b as [[n2 o2] l2]. cbn [okey_eqb]. split; intros H.
  - apply andb_true_iff in H. destruct H as [H H3]. apply andb_true_iff in H. destruct H as [H1 H2].
    apply String.eqb_eq in H1, H2. apply labels_eqb_spec in H3. congruence.
  - inversion H; subst. rewrite !String.eqb_refl. cbn. apply labels_eqb_spec. reflexivity.
Qed.

Lemma proto_eqb_spec a b : proto_eqb a b = true <-> a = b.
Proof. destruct a, b; cbn; split; intros H; try discriminate; reflexivity. Qed.

Lemma ckey_eqb_spec a b : ckey_eqb a b = true <-> a = b.
Proof.
  destruct a as [s1 d1 p1 n1], b as [s2 d2 p2 n2]. unfold ckey_eqb. cbn [ck_src ck_dst ck_proto ck_port]. split; intros H.
  - apply andb_true_iff in H. destruct H as [H H4]. apply andb_true_iff in H. destruct H as [H H3].
    apply andb_true_iff in H. destruct H as [H1 H2].
    apply okey_eqb_spec in H1, H2. apply proto_eqb_spec in H3. apply Z.eqb_eq in H4. congruence.
  - inversion H; subst. rewrite (proj2 (okey_eqb_spec _ _) eq_refl), (proj2 (okey_eqb_spec _ _) eq_refl),
      (proj2 (proto_eqb_spec _ _) eq_refl), Z.eqb_refl. reflexivity.
Qed.

Lemma cache_get_in k c b : cache_get k c = Some b -> In (k, b) c.
Proof.
  induction c as [|[k' b'] t IH]; cbn [cache_get]; [discriminate|].
  destruct (ckey_eqb k k') eqn:E.
  - apply ckey_eqb_spec in E. subst. intros H; inversion H; subst. left; reflexivity.
  - intros H. right. apply IH; exact H.
Qed.

Lemma find_pod_in key pods p : find_pod key pods = Some p -> In p pods /\ pod_key p = key.
Proof.
  unfold find_pod. intros H. apply find_some in H. destruct H as [H1 H2]. apply String.eqb_eq in H2. auto.
Qed.

(* ---------- queries ---------- *)
(* resolving a query end: the engine and the result do not depend on the cache, which is kept or dropped *)
Definition resolve_pure (e : engine) (q : qpeer) : engine * bool * outcome peer :=
  match q with
  | QIP a => (e, false, Ok (PIP (a, a)))
  | QPod k =>
      match find_pod k (e_pods e) with
      | None => (e, false, Err ErrOther)
      | Some p =>
          match find_ns (p_ns p) (e_nss e) with
          | Some n => (e, false, Ok (PPod p (ns_labels n)))
          | None => (set_nss e (upsert_ns (ns_with_name_label (mkNs (p_ns p) [(K8sNsNameLabelKey, p_ns p)])) (e_nss e)),
                     true, Ok (PPod p [(K8sNsNameLabelKey, p_ns p)]))
          end
      end
  end.

Lemma resolve_q_pure e c q :
  resolve_q (mkES e c) q =
  let '(e', cl, r) := resolve_pure e q in (mkES e' (if cl then [] else c), r).
Proof.
  destruct q as [k|a]; cbn [resolve_q resolve_pure es_eng]; [|reflexivity].
  destruct (find_pod k (e_pods e)) as [p|]; [|reflexivity].
  destruct (find_ns (p_ns p) (e_nss e)); reflexivity.
Qed.

Lemma find_ns_upsert_same n l : find_ns (ns_name n) (upsert_ns n l) = Some n.
Proof.
  induction l as [|m t IH]; cbn [upsert_ns find_ns].
  - rewrite String.eqb_refl. reflexivity.
  - destruct (String.eqb (ns_name n) (ns_name m)) eqn:E; cbn [find_ns].
    + rewrite String.eqb_refl. reflexivity.
    + rewrite E. exact IH.
Qed.

Lemma find_ns_upsert_other n l x : String.eqb x (ns_name n) = false -> find_ns x (upsert_ns n l) = find_ns x l.
Proof.
  intros Hx. induction l as [|m t IH]; cbn [upsert_ns find_ns].
  - rewrite Hx. reflexivity.
  - destruct (String.eqb (ns_name n) (ns_name m)) eqn:E; cbn [find_ns].
    + apply String.eqb_eq in E. rewrite <- E, Hx. reflexivity.
    + rewrite IH. reflexivity.
Qed.

(* after resolution, a resolved pod peer carries the namespace labels the engine now holds *)
Lemma resolve_pure_peer e q e' cl p l :
  resolve_pure e q = (e', cl, Ok (PPod p l)) ->
  In p (e_pods e') /\ l = nsl_ns e' (p_ns p) /\ e_pods e' = e_pods e /\
  (cl = false -> e' = e).
Proof.
  destruct q as [k|a]; cbn [resolve_pure]; [|intros H; inversion H].
  destruct (find_pod k (e_pods e)) as [p0|] eqn:Hf; [|intros H; inversion H].
  apply find_pod_in in Hf. destruct Hf as [Hin _].
  destruct (find_ns (p_ns p0) (e_nss e)) as [n|] eqn:Hn; intros H; inversion H; subst; clear H.
  - unfold nsl_ns. rewrite Hn. auto.
  - split; [exact Hin|]. split; [|split; [reflexivity | discriminate]].
    unfold nsl_ns. cbn [set_nss e_nss].
    change (p_ns p) with (ns_name (ns_with_name_label (mkNs (p_ns p) [(K8sNsNameLabelKey, p_ns p)]))) at 2.
    rewrite find_ns_upsert_same. unfold ns_with_name_label. cbn [ns_labels lookup]. rewrite String.eqb_refl. reflexivity.
Qed.

Lemma Inv_empty e : Inv (mkES e []).
Proof. intros k b []. Qed.

Lemma Inv_same_engine e c c' : (forall x, In x c' -> In x c) -> Inv (mkES e c) -> Inv (mkES e c').
Proof. intros Hsub H k b Hin. apply (H k b). apply Hsub. exact Hin. Qed.

(* a resolved pod with owner key K and the ports the witness of K has (uniformity) is the key pod *)
Lemma resolved_view e p k ps :
  uniform e -> In p (e_pods e) -> pod_okey p = k -> ports_for e k ps ->
  view p = view (kpod k ps).
Proof.
  intros Hu Hin Hk (r & Hr & Hrk & Hrp). subst k ps.
  rewrite (Hu r p Hr Hin Hrk). apply view_kpod.
Qed.

Lemma kns_okey p : kns (pod_okey p) = p_ns p.
Proof. reflexivity. Qed.

Theorem do_query_refines_fresh s q :
  Inv s -> uniform (fst (fst (resolve_pure (fst (fst (resolve_pure (es_eng s) (q_src q)))) (q_dst q)))) ->
  snd (do_query s q) = fresh_answer s q /\ Inv (fst (do_query s q)).
Proof.
  destruct s as [e c]. intros HInv Hunif. unfold fresh_answer. cbn [es_eng]. cbn [es_eng] in Hunif.
  unfold do_query. rewrite !resolve_q_pure.
  destruct (resolve_pure e (q_src q)) as [[e1 cl1] rs] eqn:R1. cbn [fst] in Hunif.
  assert (HInv1 : Inv (mkES e1 (if cl1 then [] else c))).
  { destruct cl1; [apply Inv_empty|].
    destruct q as [[ks|as_] qd pr n]; cbn [q_src resolve_pure] in R1.
    - destruct (find_pod ks (e_pods e)) as [p|]; [destruct (find_ns (p_ns p) (e_nss e))|]; inversion R1; subst; exact HInv.
    - inversion R1; subst; exact HInv. }
  destruct rs as [src|]; [|split; [reflexivity | exact HInv1]].
  rewrite !resolve_q_pure.
  destruct (resolve_pure e1 (q_dst q)) as [[e2 cl2] rd] eqn:R2. cbn [fst] in Hunif.
  assert (HInv2 : Inv (mkES e2 (if cl2 then [] else if cl1 then [] else c))).
  { destruct cl2; [apply Inv_empty|].
    destruct (q_dst q) as [kd|ad]; cbn [resolve_pure] in R2.
    - destruct (find_pod kd (e_pods e1)) as [p|]; [destruct (find_ns (p_ns p) (e_nss e1))|]; inversion R2; subst; exact HInv1.
    - inversion R2; subst; exact HInv1. }
  assert (Hc0 : (if cl2 then [] else if cl1 then @nil (ckey * bool) else []) = []) by (destruct cl2, cl1; reflexivity).
  rewrite Hc0.
  destruct rd as [dst|]; [|split; [reflexivity | exact HInv2]].
  destruct (pod_to_itself src dst) eqn:Hself; [split; [reflexivity | exact HInv2]|].
  set (cache2 := if cl2 then [] else if cl1 then [] else c) in *.
  cbn [es_eng es_cache].
  destruct (cache_key src dst (q_proto q) (q_port q)) as [k|] eqn:Hk.
  - (* both ends are owned pods *)
    unfold cache_key in Hk. destruct src as [a la|]; [|discriminate]. destruct dst as [b0 lb|]; [|discriminate].
    destruct (negb (String.eqb (p_owner_name a) "") && negb (String.eqb (p_owner_name b0) "")); [|discriminate].
    inversion Hk; subst k; clear Hk.
    (* where the two peers come from *)
    assert (Ha : In a (e_pods e2) /\ la = nsl_ns e2 (p_ns a)).
    { destruct (resolve_pure_peer _ _ _ _ _ _ R1) as (Hin & Hl & Hp & Hsame).
      destruct (q_dst q) as [kd|ad]; cbn [resolve_pure] in R2; [|inversion R2].
      destruct (find_pod kd (e_pods e1)) as [p|] eqn:Hfp; [|inversion R2].
      destruct (find_ns (p_ns p) (e_nss e1)) as [n|] eqn:Hn; inversion R2; subst.
      - auto.
      - cbn [set_nss e_pods]. split; [exact Hin|]. unfold nsl_ns in *. cbn [set_nss e_nss].
        destruct (String.eqb (p_ns a) (p_ns b0)) eqn:Hab.
        + apply String.eqb_eq in Hab. rewrite Hab in *. rewrite Hn.
          change (p_ns b0) with (ns_name (ns_with_name_label (mkNs (p_ns b0) [(K8sNsNameLabelKey, p_ns b0)]))) at 2.
          rewrite find_ns_upsert_same. unfold ns_with_name_label. cbn [ns_labels lookup]. rewrite String.eqb_refl. reflexivity.
        + rewrite find_ns_upsert_other; [reflexivity|].
          unfold ns_with_name_label. cbn [ns_labels lookup ns_name]. rewrite String.eqb_refl. cbn [ns_name]. exact Hab. }
    destruct (resolve_pure_peer _ _ _ _ _ _ R2) as (Hbin & Hlb & _ & _).
    destruct Ha as [Hain Hla]. subst la lb.
    assert (Hcore : forall ps pd, ports_for e2 (pod_okey a) ps -> ports_for e2 (pod_okey b0) pd ->
              check_allowed (world_of e2) (PPod a (nsl_ns e2 (p_ns a))) (PPod b0 (nsl_ns e2 (p_ns b0))) (q_proto q) (q_port q)
              = kverdict e2 (mkCK (pod_okey a) (pod_okey b0) (q_proto q) (q_port q)) ps pd).
    { intros ps pd Hps Hpd. rewrite check_allowed_core, Hself. unfold kverdict. cbn [ck_src ck_dst ck_proto ck_port].
      rewrite check_core_vw. symmetry. rewrite check_core_vw. cbn [vw]. rewrite !kns_okey.
      rewrite <- (resolved_view e2 a _ ps Hunif Hain eq_refl Hps), <- (resolved_view e2 b0 _ pd Hunif Hbin eq_refl Hpd).
      reflexivity. }
    destruct (cache_get (mkCK (pod_okey a) (pod_okey b0) (q_proto q) (q_port q)) cache2) as [bc|] eqn:Hget.
    + (* hit *)
      apply cache_get_in in Hget. destruct (HInv2 _ _ Hget) as (ps & pd & Hps & Hpd & Hv).
      cbn [es_eng ck_src ck_dst] in Hps, Hpd, Hv. rewrite <- (Hcore ps pd Hps Hpd) in Hv.
      cbn [cache_get]. rewrite Hv. split; [reflexivity | exact HInv2].
    + (* miss: compute, store *)
      cbn [cache_get].
      destruct (check_allowed (world_of e2) _ _ (q_proto q) (q_port q)) as [bb|] eqn:Hchk; [|split; [reflexivity | exact HInv2]].
      split; [reflexivity|]. cbn [fst es_eng].
      intros k' b' [Heq | Hin].
      * inversion Heq; subst k' b'. exists (p_ports a), (p_ports b0).
        assert (Hps : ports_for e2 (pod_okey a) (p_ports a)) by (exists a; auto).
        assert (Hpd : ports_for e2 (pod_okey b0) (p_ports b0)) by (exists b0; auto).
        cbn [es_eng ck_src ck_dst]. split; [exact Hps|]. split; [exact Hpd|]. rewrite <- (Hcore _ _ Hps Hpd). first [exact Hchk | reflexivity | (rewrite Hchk; reflexivity)].
      * apply (HInv2 k' b' Hin).
  - (* not cacheable *)
    destruct (check_allowed (world_of e2) src dst (q_proto q) (q_port q)); split; try reflexivity; exact HInv2.
Qed.

(* ---------- updates preserve the invariant ---------- *)
Definition keys_unique (e : engine) : Prop := NoDup (map pod_key (e_pods e)).
Definition Inv2 (s : estate) : Prop := Inv s /\ keys_unique (es_eng s).


Lemma upsert_pod_keeps p l x : In x l -> pod_key x <> pod_key p -> In x (upsert_pod p l).
Proof.
  induction l as [|q t IH]; cbn [upsert_pod]; [intros []|].
  intros [-> | Hin] Hne.
  - destruct (String.eqb (pod_key p) (pod_key x)) eqn:E; [apply String.eqb_eq in E; congruence | left; reflexivity].
  - destruct (String.eqb (pod_key p) (pod_key q)); [right; exact Hin | right; apply IH; assumption].
Qed.

Lemma upsert_pod_new p l : In p (upsert_pod p l).
Proof.
  induction l as [|q t IH]; cbn [upsert_pod]; [left; reflexivity|].
  destruct (String.eqb (pod_key p) (pod_key q)); [left; reflexivity | right; exact IH].
Qed.

Lemma upsert_pod_keys p l :
  NoDup (map pod_key l) -> NoDup (map pod_key (upsert_pod p l)) /\
  (forall k, In k (map pod_key (upsert_pod p l)) <-> k = pod_key p \/ In k (map pod_key l)).
Proof.
  induction l as [|q t IH]; cbn [upsert_pod map]; intros Hnd.
  - split; [constructor; [intros []|constructor]|]. intros k. cbn. intuition.
  - inversion Hnd as [|x xs Hnin Hnd']; subst.
    destruct (String.eqb (pod_key p) (pod_key q)) eqn:E.
    + apply String.eqb_eq in E. cbn [map]. split.
      * constructor; [rewrite E; exact Hnin | exact Hnd'].
      * intros k. cbn. rewrite E. intuition.
    + destruct (IH Hnd') as [IH1 IH2]. cbn [map]. split.
      * constructor; [|exact IH1]. intros Hin. apply IH2 in Hin. destruct Hin as [Hk | Hin]; [|contradiction].
        rewrite Hk in E. rewrite String.eqb_refl in E. discriminate.
      * intros k. cbn. rewrite IH2. intuition.
Qed.

Lemma find_pod_unique key pods p r :
  NoDup (map pod_key pods) -> find_pod key pods = Some p -> In r pods -> pod_key r = key -> r = p.
Proof.
  unfold find_pod. induction pods as [|q t IH]; cbn [find map]; [intros _ H; discriminate|].
  intros Hnd Hf Hin Hk. inversion Hnd as [|x xs Hnin Hnd']; subst.
  destruct (String.eqb (pod_key q) (pod_key r)) eqn:E.
  - inversion Hf; subst q. destruct Hin as [-> | Hin]; [reflexivity|].
    exfalso. apply Hnin. apply String.eqb_eq in E. rewrite E. apply in_map. exact Hin.
  - destruct Hin as [-> | Hin]; [rewrite String.eqb_refl in E; discriminate|]. apply IH; auto.
Qed.

Lemma find_pod_none key pods r : find_pod key pods = None -> In r pods -> pod_key r <> key.
Proof.
  unfold find_pod. intros Hf Hin Hk. apply (find_none _ _ Hf) in Hin. rewrite Hk, String.eqb_refl in Hin. discriminate.
Qed.

Lemma purge_in k c x : In x (purge k c) -> In x c /\ ck_src (fst x) <> k /\ ck_dst (fst x) <> k.
Proof.
  unfold purge. intros H. apply filter_In in H. destruct H as [Hin Hb]. split; [exact Hin|].
  apply negb_true_iff, orb_false_iff in Hb. destruct Hb as [H1 H2].
  split; intros E; [rewrite E, (proj2 (okey_eqb_spec _ _) eq_refl) in H1 | rewrite E, (proj2 (okey_eqb_spec _ _) eq_refl) in H2]; discriminate.
Qed.

(* validity of an entry only depends on the policies, the namespaces and the witnesses *)
Lemma entry_valid_transfer e e' k b :
  e_nss e' = e_nss e -> e_nps e' = e_nps e -> e_anps e' = e_anps e -> e_banp e' = e_banp e ->
  (forall K ps, (K = ck_src k \/ K = ck_dst k) -> ports_for e K ps -> ports_for e' K ps) ->
  entry_valid e k b -> entry_valid e' k b.
Proof.
  intros Hn Hp Ha Hb Hw (ps & pd & Hps & Hpd & Hv).
  exists ps, pd. split; [apply Hw; auto|]. split; [apply Hw; auto|].
  unfold kverdict, nsl_ns, world_of in *. rewrite Hn, Hp, Ha, Hb.
  destruct e as [nss pods nps anps names banp]; cbn in *. exact Hv.
Qed.

Lemma Inv2_ins_pod s d : Inv2 s -> Inv2 (fst (ins_pod s d)).
Proof.
  intros [HI HU]. unfold ins_pod. destruct (negb (pd_has_ip d)); [split; assumption|].
  set (p := pod_of_doc d). cbn [fst].
  destruct (upsert_pod_keys p _ HU) as [HU' _].
  split; [|exact HU'].
  intros k b Hin. cbn [es_cache es_eng] in *.
  assert (Hold : In (k, b) (es_cache s) /\
                 forall old, find_pod (pod_key p) (e_pods (es_eng s)) = Some old ->
                             ck_src k <> pod_okey old /\ ck_dst k <> pod_okey old).
  { destruct (find_pod (pod_key p) (e_pods (es_eng s))) as [old|] eqn:Hf.
    - apply purge_in in Hin. destruct Hin as (H1 & H2 & H3). cbn [fst] in H2, H3. split; [exact H1|]. intros o Ho; inversion Ho; subst; auto.
    - split; [exact Hin | intros o Ho; discriminate]. }
  destruct Hold as [Hin0 Hne].
  apply (entry_valid_transfer (es_eng s)); try reflexivity; [|apply HI; exact Hin0].
  intros K ps HK (r & Hr & Hrk & Hrp). exists r. split; [|auto].
  cbn [set_pods e_pods]. apply upsert_pod_keeps; [exact Hr|].
  intros Hkey.
  destruct (find_pod (pod_key p) (e_pods (es_eng s))) as [old|] eqn:Hf.
  - assert (r = old) by (exact (find_pod_unique _ _ _ _ HU Hf Hr Hkey)). subst r.
    destruct (Hne old eq_refl) as [N1 N2]. destruct HK as [-> | ->]; congruence.
  - exact (find_pod_none _ _ _ Hf Hr Hkey).
Qed.

Lemma Inv2_del_pod s ns name : Inv2 s -> uniform (es_eng s) -> Inv2 (fst (del_pod s ns name)).
Proof.
  intros [HI HU] Hunif. unfold del_pod.
  set (key := (ns ++ "/" ++ name)%string).
  destruct (find_pod key (e_pods (es_eng s))) as [old|] eqn:Hf; [|split; assumption].
  set (rest := filter (fun p => negb (String.eqb (pod_key p) key)) (e_pods (es_eng s))).
  cbn [fst]. split.
  - intros k b Hin. cbn [es_cache es_eng] in *.
    assert (Hrest : forall r, In r (e_pods (es_eng s)) -> r <> old -> In r rest).
    { intros r Hr Hne. apply filter_In. split; [exact Hr|]. apply negb_true_iff.
      destruct (String.eqb (pod_key r) key) eqn:E; [|reflexivity].
      apply String.eqb_eq in E. exfalso. apply Hne. exact (find_pod_unique _ _ _ _ HU Hf Hr E). }
    destruct (existsb (fun p => okey_eqb (pod_okey p) (pod_okey old)) rest) eqn:Hex.
    + (* another pod of the same owner remains: nothing purged *)
      apply existsb_exists in Hex. destruct Hex as (r2 & Hr2 & Hk2). apply okey_eqb_spec in Hk2.
      assert (Hr2in : In r2 (e_pods (es_eng s))) by (apply filter_In in Hr2; apply Hr2).
      apply (entry_valid_transfer (es_eng s)); try reflexivity; [|apply HI; exact Hin].
      intros K ps _ (r & Hr & Hrk & Hrp).
      destruct (find_pod_in _ _ _ Hf) as [Hoin _].
      destruct (okey_eqb (pod_okey r) (pod_okey old)) eqn:Ero.
      * apply okey_eqb_spec in Ero. exists r2. split; [exact Hr2|]. split; [congruence|].
        rewrite <- Hrp. apply Hunif; [exact Hr2in | exact Hr | congruence].
      * exists r. split; [|auto]. apply Hrest; [exact Hr|]. intros ->. rewrite (proj2 (okey_eqb_spec _ _) eq_refl) in Ero. discriminate.
    + apply purge_in in Hin. destruct Hin as (Hin & N1 & N2). cbn [fst] in N1, N2.
      apply (entry_valid_transfer (es_eng s)); try reflexivity; [|apply HI; exact Hin].
      intros K ps HK (r & Hr & Hrk & Hrp). exists r. split; [|auto]. apply Hrest; [exact Hr|].
      intros ->. destruct HK as [-> | ->]; congruence.
  - unfold keys_unique. cbn [es_eng set_pods e_pods]. unfold rest.
    clear - HU. unfold keys_unique in HU. induction (e_pods (es_eng s)) as [|q t IH]; cbn [filter map]; [constructor|].
    inversion HU as [|x xs Hnin Hnd]; subst.
    destruct (negb (String.eqb (pod_key q) key)); cbn [map]; [|apply IH; exact Hnd].
    constructor; [|apply IH; exact Hnd]. intros Hin. apply Hnin.
    apply in_map_iff in Hin. destruct Hin as (y & Hy & Hin). apply filter_In in Hin. rewrite <- Hy. apply in_map. apply Hin.
Qed.

Lemma Inv2_cleared e : keys_unique e -> Inv2 (mkES e []).
Proof. intros H. split; [apply Inv_empty | exact H]. Qed.

(* ---------- whole histories ---------- *)
Lemma resolve_pure_pods e q : e_pods (fst (fst (resolve_pure e q))) = e_pods e.
Proof.
  destruct q as [k|a]; cbn [resolve_pure]; [|reflexivity].
  destruct (find_pod k (e_pods e)) as [p|]; [|reflexivity].
  destruct (find_ns (p_ns p) (e_nss e)); reflexivity.
Qed.

Lemma do_query_pods s q : e_pods (es_eng (fst (do_query s q))) = e_pods (es_eng s).
Proof.
  destruct s as [e c]. unfold do_query. rewrite resolve_q_pure.
  pose proof (resolve_pure_pods e (q_src q)) as P1.
  destruct (resolve_pure e (q_src q)) as [[e1 cl1] rs]. cbn [fst] in P1.
  destruct rs as [src|]; [|cbn; exact P1].
  rewrite resolve_q_pure.
  pose proof (resolve_pure_pods e1 (q_dst q)) as P2.
  destruct (resolve_pure e1 (q_dst q)) as [[e2 cl2] rd]. cbn [fst] in P2.
  assert (P : e_pods e2 = e_pods e) by congruence.
  destruct rd as [dst|]; [|cbn; exact P].
  destruct (pod_to_itself src dst); [cbn; exact P|].
  destruct (match cache_key src dst (q_proto q) (q_port q) with Some k => cache_get k _ | None => None end); [cbn; exact P|].
  destruct (check_allowed _ src dst (q_proto q) (q_port q)); [|cbn; exact P].
  destruct (cache_key src dst (q_proto q) (q_port q)); cbn; exact P.
Qed.

(* the engine state two resolutions of a query lead to *)
Definition query_engine (e : engine) (q : query) : engine :=
  fst (fst (resolve_pure (fst (fst (resolve_pure e (q_src q)))) (q_dst q))).

(* side conditions on a history: the engine's own equivalence assumption holds where the cache is
   consulted or pruned; workload objects are not part of the histories of this property *)
Definition op_ok (s : estate) (o : eop) : Prop :=
  match o with
  | EQuery q => uniform (query_engine (es_eng s) q)
  | EDelPod _ _ => uniform (es_eng s)
  | EInsWl _ => False
  | _ => True
  end.

Fixpoint good_run (s : estate) (ops : list eop) : Prop :=
  match ops with
  | [] => True
  | o :: t => op_ok s o /\ good_run (fst (step s o)) t
  end.

Lemma Inv2_fold_ins_ns nss : forall s, Inv2 s -> Inv2 (fold_left ins_ns nss s).
Proof.
  induction nss as [|n t IH]; intros s H; cbn [fold_left]; [exact H|].
  apply IH. unfold ins_ns. apply Inv2_cleared. unfold keys_unique. cbn [set_nss e_pods]. apply H.
Qed.

Lemma Inv2_ins_np s np : Inv2 s -> Inv2 (fst (ins_np s np)).
Proof.
  intros H. unfold ins_np. cbn [insert_obj].
  match goal with |- context [if ?c then _ else _] => destruct c end; cbn [fst]; [exact H|].
  apply Inv2_cleared. unfold keys_unique. cbn [e_pods]. apply H.
Qed.

Lemma Inv2_set_res_nps nps : forall s, Inv2 s -> Inv2 (fst (set_res_nps s nps)).
Proof.
  induction nps as [|np t IH]; intros s H; cbn [set_res_nps]; [exact H|].
  pose proof (Inv2_ins_np s np H) as H1. destruct (ins_np s np) as [s' a]. cbn [fst] in H1.
  destruct a; [apply IH; exact H1 | exact H1 | exact H1].
Qed.

Lemma Inv2_set_res_pods pods : forall s, Inv2 s -> Inv2 (fst (set_res_pods s pods)).
Proof.
  induction pods as [|d t IH]; intros s H; cbn [set_res_pods]; [exact H|].
  pose proof (Inv2_ins_pod s d H) as H1. destruct (ins_pod s d) as [s' a]. cbn [fst] in H1.
  destruct a; [apply IH; exact H1 | exact H1 | exact H1].
Qed.

Lemma Inv2_step s o : Inv2 s -> op_ok s o -> Inv2 (fst (step s o)).
Proof.
  intros H Hok. destruct o; cbn [step op_ok] in *.
  - unfold ins_ns. apply Inv2_cleared. unfold keys_unique. cbn [set_nss e_pods]. apply H.
  - apply Inv2_cleared. unfold keys_unique. cbn [set_nss e_pods]. apply H.
  - apply Inv2_ins_pod; exact H.
  - apply Inv2_del_pod; assumption.
  - contradiction.
  - apply Inv2_ins_np; exact H.
  - apply Inv2_cleared. unfold keys_unique. cbn [e_pods]. apply H.
  - unfold ins_anp. destruct (str_mem _ _); cbn [fst]; [exact H|]. apply Inv2_cleared. unfold keys_unique. cbn [e_pods]. apply H.
  - apply Inv2_cleared. unfold keys_unique. cbn [e_pods]. apply H.
  - destruct (e_banp (es_eng s)); cbn [fst]; [exact H|].
    destruct (String.eqb (b_name b) "default"); cbn [fst]; [|exact H]. apply Inv2_cleared. unfold keys_unique. cbn [e_pods]. apply H.
  - destruct (e_banp (es_eng s)) as [b|]; cbn [fst]; [|exact H].
    destruct (String.eqb (b_name b) name); cbn [fst]; [|exact H]. apply Inv2_cleared. unfold keys_unique. cbn [e_pods]. apply H.
  - pose proof (Inv2_fold_ins_ns nss s H) as H1.
    pose proof (Inv2_set_res_nps nps _ H1) as H2.
    destruct (set_res_nps (fold_left ins_ns nss s) nps) as [s2 a]. cbn [fst] in H2.
    destruct a; [apply Inv2_set_res_pods; exact H2 | exact H2 | exact H2].
  - split; [intros k b [] | constructor].
  - destruct H as [HI HU]. split.
    + apply (do_query_refines_fresh s q HI Hok).
    + unfold keys_unique. rewrite do_query_pods. exact HU.
Qed.

(* the answers a history would get if every query were answered by a cache-less evaluation of the
   engine's current objects *)
Fixpoint run_fresh (s : estate) (ops : list eop) : list eanswer :=
  match ops with
  | [] => []
  | o :: t =>
      let '(s', a) := step s o in
      (match o with EQuery q => fresh_answer s q | _ => a end) :: run_fresh s' t
  end.

Theorem engine_refines_fresh ops : forall s,
  Inv2 s -> good_run s ops -> run_ops s ops = run_fresh s ops.
Proof.
  induction ops as [|o t IH]; intros s H Hg; cbn [run_ops run_fresh]; [reflexivity|].
  destruct Hg as [Hok Hg].
  pose proof (Inv2_step s o H Hok) as H'.
  destruct (step s o) as [s' a] eqn:Hs. cbn [fst] in *.
  f_equal; [|apply IH; assumption].
  destruct o; try reflexivity.
  cbn [step] in Hs. destruct H as [HI _].
  pose proof (proj1 (do_query_refines_fresh s q HI Hok)) as Ha. rewrite Hs in Ha. exact Ha.
Qed.

Lemma Inv2_init : Inv2 estate0.
Proof. split; [intros k b [] | constructor]. Qed.

(* from the empty engine, after any history *)
Corollary engine_history_independent ops :
  good_run estate0 ops -> run_ops estate0 ops = run_fresh estate0 ops.
Proof. apply engine_refines_fresh. exact Inv2_init. Qed.

(* ---------- admin policies are applied by priority regardless of insertion order ---------- *)
From Coq Require Import Permutation.
From NP Require Import AbstractSort.

Definition ins_all (l : list anp) : list anp := fold_left (fun acc a => insert_by_prio a acc) l [].

Lemma fold_ins_perm l : forall acc, Permutation (fold_left (fun acc a => insert_by_prio a acc) l acc) (l ++ acc).
Proof.
  induction l as [|a t IH]; intros acc; cbn [fold_left app]; [apply Permutation_refl|].
  eapply Permutation_trans; [apply IH|].
  eapply Permutation_trans; [apply Permutation_app_head, insert_perm|].
  apply Permutation_sym, Permutation_middle.
Qed.

Lemma fold_ins_ssorted l : forall acc,
  ssorted acc -> NoDup (map a_prio (l ++ acc)) ->
  ssorted (fold_left (fun acc a => insert_by_prio a acc) l acc).
Proof.
  induction l as [|a t IH]; intros acc Hs Hnd; cbn [fold_left]; [exact Hs|].
  pose proof Hnd as Hnd0.
  cbn [app map] in Hnd. inversion Hnd as [|x xs Hnin Hnd']; subst.
  apply IH.
  - apply insert_ssorted; [exact Hs|]. intros b Hb Heq. apply Hnin. rewrite Heq. apply in_map. apply in_or_app. right; exact Hb.
  - eapply Permutation_NoDup; [|exact Hnd0].
    apply Permutation_map. cbn [app]. eapply Permutation_trans; [apply Permutation_middle|].
    apply Permutation_app_head, Permutation_sym, insert_perm.
Qed.

Theorem anp_insert_order_irrelevant l1 l2 :
  Permutation l1 l2 -> NoDup (map a_prio l1) -> ins_all l1 = ins_all l2.
Proof.
  intros Hp Hnd. unfold ins_all.
  assert (Hnd2 : NoDup (map a_prio l2)) by (eapply Permutation_NoDup; [apply Permutation_map, Hp | exact Hnd]).
  apply ssorted_perm_eq.
  - apply fold_ins_ssorted; [exact I | rewrite app_nil_r; exact Hnd].
  - apply fold_ins_ssorted; [exact I | rewrite app_nil_r; exact Hnd2].
  - eapply Permutation_trans; [apply fold_ins_perm|]. rewrite app_nil_r.
    eapply Permutation_trans; [exact Hp|]. apply Permutation_sym.
    eapply Permutation_trans; [apply fold_ins_perm|]. rewrite app_nil_r. apply Permutation_refl.
Qed.
