# C02 — ANP > NetworkPolicy > BANP precedence and rule order are respected.
from . import c01, c03
from .lib import core, gen, listcorr


def nontrivial(W, obs):
    return obs['outcome'] == 'ok' and len(W['anps']) > 0 and any(not c['conn']['all'] for c in obs['conns'])


def main(tier):
    run = core.Run('C02', tier)
    run.cov['rule'] = ('random worlds as for C01 plus 0-4 AdminNetworkPolicies (distinct priorities from {0,1,5,10,50,999,1000}, subjects by namespaces or pods, '
                       'ordered Allow/Deny/Pass rules with portNumber/portRange/namedPort or no ports, overlapping boundary port sets) and an optional BANP; documents shuffled '
                       '(ANPs not in priority order); analysed by the real `list` and by the Gallina model; whole report compared; '
                       'non-trivial = analysis succeeded, at least one ANP, at least one partial connection; distinct by scenario hash; plus the eval correspondence of C03 '
                       '(CheckIfAllowed on both engine constructions vs the rule-walker mirror and vs the real list) on worlds that always carry ANPs')
    run.stage_proofs()
    b = core.build_go(['verifapi', 'k8snetpolicy'], run.log)
    if not b['verifapi'][0]:
        run.proof_ok = False
        run.proof_notes.append('harness verifapi does not build against this tree: ' + b['verifapi'][1][-600:])
        return run.finish()
    n = 240 if tier == 'quick' else 6000
    h = listcorr.Harness()
    try:
        shard, k = 120, 0
        while k < n and len(run.violations) < 3:
            worlds = [(k + i, gen.gen_world(run.rng, anp=True, big=(tier != 'quick'))) for i in range(min(shard, n - k))]
            for _, W in worlds:
                run.dist('anps:%d' % len(W['anps']))
                run.dist('banp:%s' % bool(W['banp']))
            if k == 0:
                run.sample({'world': worlds[0][1]})
            c01.run_worlds(run, h, worlds, nontriv=nontrivial, shuffle=True)
            k += shard
    finally:
        h.close()
    # the same precedence through the single-connection path (CheckIfAllowed / `k8snetpolicy eval`), which does not use connection sets
    if len(run.violations) < 3:
        c03.eval_part(run, tier, b, 45 if tier == 'quick' else 600, 8 if tier == 'quick' else 60, anp_always=True)
    return run.finish()


replay = c01.replay
