(* XFormat.v — the txt output of `list --exposure`, byte for byte, as a function of the API result
   (the Peer2PeerConnection list and ExposedPeers()):
     /repo/pkg/netpol/connlist/conns_formatter.go (formExposureItemAsSingleConnFiled, getRepresentative*String,
     writeLabelSelectorAsString, getExposureConnsAsSortedSingleConnFieldsArray, ipMaps) and conns_formatter_txt.go
     (writeExposureOutput, exposureString).
   The potential connectivity of an entry is taken as its printed string (ConnectionSet.String is modelled in
   ConnSet.v and compared by C11 / C06); selectors are the v1.LabelSelector the API returns.
   sortConnFields uses sort.Slice on (peer, other end) only: when two lines share both, Go leaves their order
   unspecified; the model orders such lines by the connection string (rowsort) and [xf_no_ties] says when
   that cannot matter.  labels.SelectorFromSet(..).String() is the sorted key=value list;
   LabelSelectorRequirement.String() is the generated {Key:..,Operator:..,Values:[..],}.
   Executable definitions only. *)
From Coq Require Import List ZArith Bool String Ascii.
From NP Require Import IntervalSet ConnSet World Build Connlist Diff Format.
Import ListNotations.
Open Scope list_scope.
Open Scope string_scope.

Record xsel := mkXS { xs_ml : list (string * string); xs_me : list (string * string * list string) }.
Record xitem := mkXI { xi_cluster : bool; xi_ns : xsel; xi_pod : xsel; xi_conn : string }.
Record xpeer := mkXP { xp_str : string; xp_ing_prot : bool; xp_eg_prot : bool; xp_ing : list xitem; xp_eg : list xitem }.

Definition nsNameKey : string := "kubernetes.io/metadata.name".

(* labels.SelectorFromSet: requirements sorted by key *)
Fixpoint kv_insert (x : string * string) (l : list (string * string)) : list (string * string) :=
  match l with
  | [] => [x]
  | y :: t => if String.leb (fst x) (fst y) then x :: l else y :: kv_insert x t
  end.
Definition kv_sort (l : list (string * string)) : list (string * string) := fold_right kv_insert [] l.

Definition ml_string (ml : list (string * string)) : string :=
  join "," (map (fun kv => fst kv ++ "=" ++ snd kv) (kv_sort ml)).
Definition req_string (r : string * string * list string) : string :=
  "{Key:" ++ fst (fst r) ++ ",Operator:" ++ snd (fst r) ++ ",Values:[" ++ join " " (snd r) ++ "],}".
Definition me_string (me : list (string * string * list string)) : string :=
  join "," (strsort (map req_string me)).

Definition sel_string (s : xsel) : string :=
  match xs_ml s, xs_me s with
  | [], [] => ""
  | ml, [] => ml_string ml
  | [], me => me_string me
  | ml, me => ml_string ml ++ "," ++ me_string me
  end.
Definition sel_size (s : xsel) : nat := List.length (xs_ml s) + List.length (xs_me s).

Definition ns_string (s : xsel) : string :=
  match xs_ml s, xs_me s with
  | [(k, v)], [] => if String.eqb k nsNameKey then v else "[namespace with {" ++ sel_string s ++ "}]"
  | _, _ => if Nat.eqb (sel_size s) 0 then "[all namespaces]" else "[namespace with {" ++ sel_string s ++ "}]"
  end.
Definition pod_string (s : xsel) : string :=
  if Nat.eqb (sel_size s) 0 then "[all pods]" else "[pod with {" ++ sel_string s ++ "}]".
Definition rep_string (i : xitem) : string :=
  if xi_cluster i then "entire-cluster" else ns_string (xi_ns i) ++ "/" ++ pod_string (xi_pod i).

(* rows: r_src = the exposed workload (printed first, padded), r_dst = the other end *)
Definition ip_rows (es : list rentry) (ingress : bool) (peer : string) : list row :=
  flat_map (fun e =>
    if ingress
    then (if rpeer_is_ip (re_src e) && String.eqb (rpeer_str (re_dst e)) peer
          then [mkRow peer (rpeer_str (re_src e)) (cs_string (re_conn e))] else [])
    else (if rpeer_is_ip (re_dst e) && String.eqb (rpeer_str (re_src e)) peer
          then [mkRow peer (rpeer_str (re_dst e)) (cs_string (re_conn e))] else [])) es.

Definition xgress_rows (es : list rentry) (ingress : bool) (p : xpeer) : list row :=
  (if (if ingress then xp_ing_prot p else xp_eg_prot p)
   then map (fun i => mkRow (xp_str p) (rep_string i) (xi_conn i)) (if ingress then xp_ing p else xp_eg p)
   else [mkRow (xp_str p) "entire-cluster" allConnsStr])
  ++ ip_rows es ingress (xp_str p).

Definition unprotected_lines (p : xpeer) : list string :=
  (if xp_ing_prot p then [] else [xp_str p ++ " is not protected on Ingress"]) ++
  (if xp_eg_prot p then [] else [xp_str p ++ " is not protected on Egress"]).

Fixpoint spaces (n : nat) : string := match n with O => "" | S k => String " " (spaces k) end.
Definition pad (s : string) (n : nat) : string := s ++ spaces (n - String.length s).
Definition max_peer_len (xps : list xpeer) : nat := fold_right (fun p m => Nat.max (String.length (xp_str p)) m) 0%nat xps.

Definition xline (arrow : string) (n : nat) (r : row) : string :=
  pad (r_src r) n ++ " " ++ tab ++ arrow ++ " " ++ tab ++ r_dst r ++ " : " ++ r_conn r.

Definition subsection (lines : list string) (header : string) : string :=
  match lines with [] => "" | _ => header ++ join nl lines ++ nl end.

Definition exposure_txt (es : list rentry) (xps : list xpeer) : string :=
  let n := max_peer_len xps in
  let eg := map (xline "=>" n) (rowsort (flat_map (xgress_rows es false) xps)) in
  let ing := map (xline "<=" n) (rowsort (flat_map (xgress_rows es true) xps)) in
  "Exposure Analysis Result:" ++ nl
  ++ subsection eg ("Egress Exposure:" ++ nl)
  ++ subsection ing ((match eg with [] => "" | _ => nl end) ++ "Ingress Exposure:" ++ nl)
  ++ subsection (strsort (flat_map unprotected_lines xps)) (nl ++ "Workloads not protected by network policies:" ++ nl).

Definition list_exposure_txt (es : list rentry) (xps : list xpeer) : string :=
  let res := list_txt es in
  res ++ (if String.eqb res "" || String.eqb res nl then "" else nl) ++ exposure_txt es xps.

(* no two lines of a section share the workload and the other end (then sort.Slice's instability cannot show) *)
Fixpoint key_nodupb (l : list row) : bool :=
  match l with
  | [] => true
  | r :: t => negb (existsb (fun q => String.eqb (r_src q) (r_src r) && String.eqb (r_dst q) (r_dst r)) t) && key_nodupb t
  end.
Definition xf_no_ties (es : list rentry) (xps : list xpeer) : bool :=
  key_nodupb (flat_map (xgress_rows es false) xps) && key_nodupb (flat_map (xgress_rows es true) xps).

(* ---------- correspondence cases ---------- *)
Record xfmt_case := mkXFmt { xf_id : nat; xf_entries : list rentry; xf_peers : list xpeer; xf_txt : string }.
(* codes: 7 the txt output differs from the model; 8 two lines of a section share both ends *)
Definition xfmt_mismatches (cs : list xfmt_case) : list (nat * nat) :=
  flat_map (fun c =>
    (if xf_no_ties (xf_entries c) (xf_peers c)
     then (if String.eqb (xf_txt c) (list_exposure_txt (xf_entries c) (xf_peers c)) then [] else [(xf_id c, 7%nat)])
     else [(xf_id c, 8%nat)])) cs.
