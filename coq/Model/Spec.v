(* Spec.v — the meaning of the policies, pointwise and as plainly as possible.
   One (protocol, port) point, one source, one destination at a time; no sets, no errors.
   Readable against the Kubernetes NetworkPolicy / AdminNetworkPolicy documentation:

   - a NetworkPolicy governs a pod in a direction when it lives in the pod's namespace, its
     policyTypes (or their default) include the direction and its podSelector matches the pod;
   - a governed pod may talk to the other end on a point iff some rule of some governing
     policy matches the other end and the point;
   - ANPs are scanned in ascending priority, their rules in order; the first rule matching
     the other end and the point decides Allow / Deny / Pass;
   - Pass or no match: the NetworkPolicy layer decides if it governs the pod, otherwise the
     first matching BANP rule (none = allow).
   An external address is an IP peer [PIP (a, a)]; pods never match ipBlocks and addresses never
   match selectors (the tool's stated model). *)
From Coq Require Import List ZArith Bool String.
From NP Require Import IntervalSet ConnSet World.
Import ListNotations.
Open Scope list_scope.
Open Scope Z_scope.

(* ---------- NetworkPolicy ---------- *)
Definition s_np_affects (np : netpol) (d : dir) : bool :=
  match np_types np with
  | _ :: _ => existsb (dir_eqb d) (np_types np)
  | [] => match d with Ingress => true | Egress => negb (match np_eg np with [] => true | _ => false end) end
  end.

Definition s_np_governs (np : netpol) (p : pod) (d : dir) : bool :=
  String.eqb (p_ns p) (np_ns np) && s_np_affects np d && sel_matches_raw (np_sel np) (p_labels p).

Definition s_opt_sel (s : option selector) (l : labels) (dflt : bool) : bool :=
  match s with Some x => sel_matches_raw x l | None => dflt end.

Definition s_np_peer_matches (npns : string) (pr : np_peer) (x : peer) : bool :=
  match pr, x with
  | NPSel nss pods, PPod p nsl =>
      s_opt_sel nss nsl (String.eqb npns (p_ns p)) && s_opt_sel pods (p_labels p) true
  | NPIP cidr exc, PIP b => isubset [b] (rule_block cidr exc)
  | _, _ => false
  end.

Definition s_np_rule_peers (npns : string) (peers : list np_peer) (x : peer) : bool :=
  match peers with [] => true | _ => existsb (fun pr => s_np_peer_matches npns pr x) peers end.

Definition s_np_port_matches (pp : np_port) (dst : peer) (pr : proto) (n : Z) : bool :=
  proto_eqb (pp_proto pp) pr &&
  match pp_port pp with
  | PAll => true
  | PNum a => (a <=? n) && (n <=? match pp_end pp with Some e => e | None => a end)
  | PName nm =>
      match dst with
      | PPod d _ => match pod_named_port (p_ports d) nm with
                    | Some (q, m) => proto_eqb q (pp_proto pp) && (m =? n)
                    | None => false
                    end
      | PIP _ => false
      end
  end.

Definition s_np_rule_ports (ports : list np_port) (dst : peer) (pr : proto) (n : Z) : bool :=
  match ports with [] => true | _ => existsb (fun pp => s_np_port_matches pp dst pr n) ports end.

Definition s_np_rule (npns : string) (r : np_rule) (other dst : peer) (pr : proto) (n : Z) : bool :=
  s_np_rule_peers npns (nr_peers r) other && s_np_rule_ports (nr_ports r) dst pr n.

Definition s_np_policy_allows (np : netpol) (src dst : peer) (ingress : bool) (pr : proto) (n : Z) : bool :=
  existsb (fun r => s_np_rule (np_ns np) r (if ingress then src else dst) dst pr n)
          (if ingress then np_in np else np_eg np).

(* None: no NetworkPolicy governs the pod in this direction *)
Definition s_np_layer (w : world) (src dst : peer) (ingress : bool) (pr : proto) (n : Z) : option bool :=
  match (if ingress then dst else src) with
  | PIP _ => None
  | PPod p _ =>
      match filter (fun np => s_np_governs np p (if ingress then Ingress else Egress)) (w_nps w) with
      | [] => None
      | govs => Some (existsb (fun np => s_np_policy_allows np src dst ingress pr n) govs)
      end
  end.

(* ---------- admin policies ---------- *)
Inductive verdict := VAllow | VDeny | VPass | VNone.

Definition s_admin_peer_matches (ap : admin_peer) (x : peer) : bool :=
  match ap, x with
  | APNamespaces s, PPod _ nsl => sel_matches_raw s nsl
  | APPods nss pods, PPod p nsl => sel_matches_raw nss nsl && sel_matches_raw pods (p_labels p)
  | _, _ => false
  end.

Definition s_admin_port_matches (ap : admin_port) (dst : peer) (pr : proto) (n : Z) : bool :=
  match ap with
  | APortNum p a => proto_eqb p pr && (a =? n)
  | APortRange p lo hi => proto_eqb p pr && (lo <=? n) && (n <=? hi)
  | APortNamed nm =>
      match dst with
      | PPod d _ => match pod_named_port (p_ports d) nm with
                    | Some (q, m) => proto_eqb q pr && (m =? n)
                    | None => false
                    end
      | PIP _ => false
      end
  | APortBad => false
  end.

Definition s_admin_rule_matches (r : admin_rule) (other dst : peer) (pr : proto) (n : Z) : bool :=
  existsb (fun ap => s_admin_peer_matches ap other) (ar_peers r) &&
  match ar_ports r with
  | None => true
  | Some l => existsb (fun ap => s_admin_port_matches ap dst pr n) l
  end.

Definition verdict_of (a : action) : verdict :=
  match a with AAllow => VAllow | ADeny => VDeny | APass => VPass | AUnknown => VNone end.

Fixpoint s_rules_verdict (rules : list admin_rule) (other dst : peer) (pr : proto) (n : Z) : verdict :=
  match rules with
  | [] => VNone
  | r :: t => if s_admin_rule_matches r other dst pr n then verdict_of (ar_action r)
              else s_rules_verdict t other dst pr n
  end.

Definition s_admin_selects (subj : admin_peer) (rules : list admin_rule) (x : peer) : bool :=
  match rules with [] => false | _ => s_admin_peer_matches subj x end.

Fixpoint s_anps_verdict (anps : list anp) (src dst : peer) (ingress : bool) (pr : proto) (n : Z) : verdict :=
  match anps with
  | [] => VNone
  | a :: t =>
      let rules := if ingress then a_in a else a_eg a in
      let v := if s_admin_selects (a_subject a) rules (if ingress then dst else src)
               then s_rules_verdict rules (if ingress then src else dst) dst pr n else VNone in
      match v with VNone => s_anps_verdict t src dst ingress pr n | _ => v end
  end.

Definition s_banp_allows (w : world) (src dst : peer) (ingress : bool) (pr : proto) (n : Z) : bool :=
  match w_banp w with
  | None => true
  | Some b =>
      let rules := if ingress then b_in b else b_eg b in
      if s_admin_selects (b_subject b) rules (if ingress then dst else src)
      then match s_rules_verdict rules (if ingress then src else dst) dst pr n with
           | VDeny => false
           | _ => true
           end
      else true
  end.

(* one direction *)
Definition s_dir_allows (w : world) (src dst : peer) (ingress : bool) (pr : proto) (n : Z) : bool :=
  match s_anps_verdict (w_anps w) src dst ingress pr n with
  | VAllow => true
  | VDeny => false
  | VPass | VNone =>
      match s_np_layer w src dst ingress pr n with
      | Some b => b
      | None => s_banp_allows w src dst ingress pr n
      end
  end.

(* the connection (src -> dst, pr, n) is allowed iff egress from src and ingress to dst are *)
Definition s_allows (w : world) (src dst : peer) (pr : proto) (n : Z) : bool :=
  s_dir_allows w src dst false pr n && s_dir_allows w src dst true pr n.

(* NetworkPolicy-only reading (C01): a direction is allowed when no policy governs the pod in
   that direction, or a rule of a governing policy matches the other end and the point *)
Definition s_np_only_dir (w : world) (src dst : peer) (ingress : bool) (pr : proto) (n : Z) : bool :=
  match s_np_layer w src dst ingress pr n with Some b => b | None => true end.
Definition s_np_only_allows (w : world) (src dst : peer) (pr : proto) (n : Z) : bool :=
  s_np_only_dir w src dst false pr n && s_np_only_dir w src dst true pr n.
