(* Proofs about Model/ConnSet.v (mirror of connectionset.go / portset.go): every operation
   denotes the right set of (protocol, port) points; canonical form is unique on name-free
   sets; AllowAll is recognised; containment/equality/emptiness decide the denotation.
   No axioms. *)
From Coq Require Import List ZArith Bool String Lia ZifyBool.
From NP Require Import IntervalSet IntervalSetProofs ConnSet.
Import ListNotations.
Open Scope Z_scope.

(* ---------- predicates ---------- *)
Definition ps_wf (ps : portset) : Prop :=
  canon (ps_ports ps) /\ withinb minPort maxPort (ps_ports ps) = true.
Definition cs_wf (c : connset) : Prop := forall p ps, cs_get c p = Some ps -> ps_wf ps.

Definition ps_numeric (ps : portset) : Prop := ps_named ps = [] /\ ps_excl ps = [].
Definition cs_numeric (c : connset) : Prop := forall p ps, cs_get c p = Some ps -> ps_numeric ps.

(* the canonical-form invariant on name-free sets:
   well-formed, no names, AllowAll implies no stored protocol, no stored empty port set,
   and never "three full ranges without the AllowAll flag". *)
Definition cs_ninv (c : connset) : Prop :=
  cs_wf c /\ cs_numeric c /\
  (cs_all c = true -> forall p, cs_get c p = None) /\
  (forall p ps, cs_get c p = Some ps -> ps_ports ps <> []) /\
  cs_is_all_without_allowall c = false.

(* boolean versions (used as verified checkers on implementation outputs) *)
Definition ps_wfb (ps : portset) : bool :=
  canonb (ps_ports ps) && withinb minPort maxPort (ps_ports ps).
Definition ps_numericb (ps : portset) : bool :=
  match ps_named ps, ps_excl ps with [], [] => true | _, _ => false end.
Definition cs_ninvb (c : connset) : bool :=
  forallb (fun p => match cs_get c p with
                    | None => true
                    | Some ps => ps_wfb ps && ps_numericb ps && negb (iempty (ps_ports ps))
                                 && negb (cs_all c)
                    end) all_protos
  && negb (cs_is_all_without_allowall c).

(* ---------- auxiliary: generic access lemmas ---------- *)
Lemma forallb_protos (f : proto -> bool) : forallb f all_protos = true <-> forall p, f p = true.
Proof.
  unfold all_protos. cbn [forallb]. rewrite !andb_true_iff. split.
  - intros (H1 & H2 & H3 & _) p. destruct p; assumption.
  - intros H. repeat split; apply H.
Qed.

Lemma cs_get_map f c p : cs_get (cs_map f c) p = f p (cs_get c p).
Proof. destruct p; reflexivity. Qed.
Lemma cs_all_map f c : cs_all (cs_map f c) = cs_all c.
Proof. reflexivity. Qed.
Lemma cs_get_set c p v q : cs_get (cs_set c p v) q = if proto_eqb p q then v else cs_get c q.
Proof. destruct p, q; reflexivity. Qed.
Lemma cs_all_set c p v : cs_all (cs_set c p v) = cs_all c.
Proof. destruct p; reflexivity. Qed.
Lemma cs_get_make a p : cs_get (cs_make a) p = None.
Proof. destruct p; reflexivity. Qed.
Lemma cs_get_reflag b c p : cs_get (mkCS b (cs_tcp c) (cs_udp c) (cs_sctp c)) p = cs_get c p.
Proof. destruct p; reflexivity. Qed.
Lemma proto_eqb_eq p q : proto_eqb p q = true <-> p = q.
Proof. destruct p, q; cbn [proto_eqb]; split; intros H; try reflexivity; discriminate H. Qed.
Lemma cs_ext c o : cs_all c = cs_all o -> (forall p, cs_get c p = cs_get o p) -> c = o.
Proof.
  intros Ha Hg. pose proof (Hg TCP) as HT. pose proof (Hg UDP) as HU. pose proof (Hg SCTP) as HS.
  destruct c as [a t u s], o as [a' t' u' s']. cbn [cs_all cs_get cs_tcp cs_udp cs_sctp] in *.
  subst. reflexivity.
Qed.

Lemma cs_len_zero c : Nat.eqb (cs_len c) 0 = true <-> forall p, cs_get c p = None.
Proof.
  split.
  - intros H p. destruct c as [a [t|] [u|] [s|]]; unfold cs_len, all_protos in H;
      cbn [filter cs_get cs_tcp cs_udp cs_sctp length Nat.eqb] in H; try discriminate H.
    destruct p; reflexivity.
  - intros H. pose proof (H TCP) as HT. pose proof (H UDP) as HU. pose proof (H SCTP) as HS.
    destruct c as [a t u s]. cbn [cs_get cs_tcp cs_udp cs_sctp] in *. subst. reflexivity.
Qed.

Lemma cs_isempty_spec c :
  cs_isempty c = true <-> cs_all c = false /\ forall p, cs_get c p = None.
Proof.
  unfold cs_isempty. rewrite andb_true_iff, negb_true_iff, cs_len_zero. tauto.
Qed.

Lemma ps_wfb_spec ps : ps_wfb ps = true <-> ps_wf ps.
Proof.
  unfold ps_wfb, ps_wf. rewrite andb_true_iff, canonb_spec. tauto.
Qed.

Lemma ps_numericb_spec ps : ps_numericb ps = true <-> ps_numeric ps.
Proof.
  unfold ps_numericb, ps_numeric. destruct (ps_named ps) as [|x xs], (ps_excl ps) as [|y ys];
    split; intros H; try reflexivity; try discriminate H.
  - split; reflexivity.
  - destruct H as [_ H]; discriminate H.
  - destruct H as [H _]; discriminate H.
  - destruct H as [H _]; discriminate H.
Qed.

Lemma iempty_false_iff (s : iset) : negb (iempty s) = true <-> s <> [].
Proof.
  destruct s as [|v t]; cbn [iempty negb]; split; intros H.
  - discriminate H.
  - exfalso. apply H. reflexivity.
  - intros E. discriminate E.
  - reflexivity.
Qed.

Lemma cs_ninvb_spec c : cs_ninvb c = true <-> cs_ninv c.
Proof.
  unfold cs_ninvb, cs_ninv. rewrite andb_true_iff, negb_true_iff, forallb_protos. split.
  - intros [H Hn]. split; [|split; [|split; [|split]]].
    + intros p ps E. specialize (H p). rewrite E in H.
      rewrite !andb_true_iff in H. destruct H as [[[H1 _] _] _]. apply ps_wfb_spec. exact H1.
    + intros p ps E. specialize (H p). rewrite E in H.
      rewrite !andb_true_iff in H. destruct H as [[[_ H2] _] _]. apply ps_numericb_spec. exact H2.
    + intros Ha p. specialize (H p). destruct (cs_get c p) as [ps|]; [|reflexivity].
      rewrite Ha in H. cbn [negb] in H. rewrite andb_false_r in H. discriminate H.
    + intros p ps E. specialize (H p). rewrite E in H.
      rewrite !andb_true_iff in H. destruct H as [[_ H3] _]. apply iempty_false_iff. exact H3.
    + exact Hn.
  - intros (Hwf & Hnum & Hall & Hne & Hn). split; [|exact Hn].
    intros p. destruct (cs_get c p) as [ps|] eqn:E; [|reflexivity].
    rewrite !andb_true_iff. repeat split.
    + apply ps_wfb_spec. exact (Hwf p ps E).
    + apply ps_numericb_spec. exact (Hnum p ps E).
    + apply iempty_false_iff. exact (Hne p ps E).
    + destruct (cs_all c); [|reflexivity]. rewrite (Hall eq_refl p) in E. discriminate E.
Qed.

(* ---------- string sets / structural equality ---------- *)
Lemma sset_eqb_spec a b : sset_eqb a b = true <-> a = b.
Proof.
  revert b. induction a as [|x a IH]; intros b; destruct b as [|y b]; cbn [sset_eqb].
  - split; intros _; reflexivity.
  - split; intros H; discriminate H.
  - split; intros H; discriminate H.
  - rewrite andb_true_iff, IH, String.eqb_eq. split.
    + intros [H1 H2]. subst. reflexivity.
    + intros H. injection H as H1 H2. subst. split; reflexivity.
Qed.

Lemma ps_equal_spec p o : ps_equal p o = true <-> p = o.
Proof.
  destruct p as [a1 a2 a3], o as [b1 b2 b3]. unfold ps_equal. cbn [ps_ports ps_named ps_excl].
  rewrite !andb_true_iff, iset_eqb_spec, !sset_eqb_spec. split.
  - intros [[H1 H2] H3]. subst. reflexivity.
  - intros H. injection H as H1 H2 H3. subst. split; [split|]; reflexivity.
Qed.

Lemma opt_ps_equal_spec a b : opt_ps_equal a b = true <-> a = b.
Proof.
  destruct a as [x|], b as [y|]; cbn [opt_ps_equal].
  - rewrite ps_equal_spec. split; intros H; [subst; reflexivity | injection H as H; exact H].
  - split; intros H; discriminate H.
  - split; intros H; discriminate H.
  - split; intros _; reflexivity.
Qed.

Lemma cs_struct_eqb_spec c o : cs_struct_eqb c o = true <-> c = o.
Proof.
  destruct c as [a t u s], o as [a' t' u' s']. unfold cs_struct_eqb.
  cbn [cs_all cs_tcp cs_udp cs_sctp].
  rewrite !andb_true_iff, !opt_ps_equal_spec, eqb_true_iff. split.
  - intros [[[H1 H2] H3] H4]. subst. reflexivity.
  - intros H. injection H as H1 H2 H3 H4. subst. split; [split; [split|]|]; reflexivity.
Qed.

Lemma cs_equal_spec c o : cs_equal c o = true <-> c = o.
Proof.
  split.
  - unfold cs_equal. intros H. apply andb_true_iff in H. destruct H as [H H3].
    apply andb_true_iff in H. destruct H as [H1 H2].
    apply eqb_prop in H1. apply Nat.eqb_eq in H2.
    rewrite forallb_protos in H3.
    pose proof (H3 TCP) as HT. pose proof (H3 UDP) as HU. pose proof (H3 SCTP) as HS. clear H3.
    destruct c as [a t u s], o as [a' t' u' s'].
    cbn [cs_get cs_tcp cs_udp cs_sctp cs_all] in HT, HU, HS, H1. subst a'.
    unfold cs_len, all_protos in H2.
    destruct t as [t|], t' as [t'|], u as [u|], u' as [u'|], s as [s|], s' as [s'|];
      cbn [filter length cs_get cs_tcp cs_udp cs_sctp] in H2;
      try discriminate H2; try discriminate HT; try discriminate HU; try discriminate HS;
      repeat match goal with
             | H : ps_equal _ _ = true |- _ => apply ps_equal_spec in H; subst
             end; reflexivity.
  - intros E. subst o. unfold cs_equal. rewrite eqb_reflx, Nat.eqb_refl. cbn [andb].
    apply forallb_protos. intros p. destruct (cs_get c p) as [ps|]; [|reflexivity].
    apply ps_equal_spec. reflexivity.
Qed.

(* ---------- the full port set ---------- *)
Lemma minmax_le : minPort <= maxPort.
Proof. unfold minPort, maxPort. lia. Qed.

Lemma ps_make_wf all : ps_wf (ps_make all).
Proof.
  destruct all; unfold ps_wf, ps_make; cbn [ps_ports].
  - split; [apply ifull_canon; exact minmax_le | reflexivity].
  - split; [exact I | reflexivity].
Qed.

Lemma ps_isall_iff ps : ps_isall ps = true <-> ps_ports ps = ifull minPort maxPort /\ ps_excl ps = [].
Proof.
  unfold ps_isall. rewrite andb_true_iff, iset_eqb_spec. destruct (ps_excl ps); split; intros [H1 H2]; (split; [exact H1|]);
    try reflexivity; discriminate H2.
Qed.
Lemma ps_isall_make : ps_isall (ps_make true) = true.
Proof. reflexivity. Qed.
(* on name-free sets IsAll is still "equal to the full port set" *)
Lemma ps_isall_spec ps : ps_named ps = [] -> (ps_isall ps = true <-> ps = ps_make true).
Proof.
  intros Hn. rewrite ps_isall_iff. split.
  - intros [H1 H2]. destruct ps as [pp nn ee]. cbn [ps_ports ps_named ps_excl] in *. subst. reflexivity.
  - intros ->. split; reflexivity.
Qed.
Lemma ps_isall_full_mem ps n : ps_isall ps = true -> imem n (ps_ports ps) = valid_port n.
Proof. intros H. apply ps_isall_iff in H. destruct H as [H _]. rewrite H, ifull_mem. reflexivity. Qed.

Lemma ps_full_mem n : imem n (ps_ports (ps_make true)) = valid_port n.
Proof. unfold ps_make. cbn [ps_ports]. rewrite ifull_mem. reflexivity. Qed.

Lemma valid_port_iff n : valid_port n = true <-> minPort <= n <= maxPort.
Proof. unfold valid_port. rewrite andb_true_iff, !Z.leb_le. tauto. Qed.

Lemma ps_wf_mem_valid ps n : ps_wf ps -> imem n (ps_ports ps) = true -> valid_port n = true.
Proof.
  intros [Hc Hw] Hm. apply valid_port_iff. exact (withinb_sound _ _ _ _ Hw Hm).
Qed.

(* a well-formed port set containing every valid port has exactly the full range *)
Lemma ps_wf_full_ports ps :
  ps_wf ps -> (forall n, valid_port n = true -> imem n (ps_ports ps) = true) ->
  ps_ports ps = ifull minPort maxPort.
Proof.
  intros Hwf Hall. pose proof Hwf as [Hc Hw].
  apply canon_full_unique; [exact minmax_le | exact Hc |].
  intros x. change ((minPort <=? x) && (x <=? maxPort)) with (valid_port x).
  destruct (imem x (ps_ports ps)) eqn:E.
  - symmetry. exact (ps_wf_mem_valid ps x Hwf E).
  - destruct (valid_port x) eqn:E2; [|reflexivity].
    rewrite (Hall x E2) in E. discriminate E.
Qed.

Lemma within_of_valid s :
  canon s -> (forall x, imem x s = true -> valid_port x = true) ->
  withinb minPort maxPort s = true.
Proof.
  intros Hc H. apply withinb_complete; [exact Hc|].
  intros x Hx. apply valid_port_iff. exact (H x Hx).
Qed.

(* ---------- PortSet operations: numeric ports ---------- *)
Lemma ps_union_ports p o n :
  ps_wf p -> imem n (ps_ports (ps_union p o)) = imem n (ps_ports p) || imem n (ps_ports o).
Proof.
  intros [Hc _]. unfold ps_union. cbn [ps_ports]. apply iunion_mem. exact Hc.
Qed.
Lemma ps_union_wf p o : ps_wf p -> ps_wf o -> ps_wf (ps_union p o).
Proof.
  intros Hp Ho. assert (Hc : canon (ps_ports (ps_union p o))).
  { unfold ps_union. cbn [ps_ports]. apply iunion_canon. apply Hp. }
  split; [exact Hc|]. apply within_of_valid; [exact Hc|].
  intros x Hx. rewrite ps_union_ports in Hx by exact Hp.
  apply orb_true_iff in Hx. destruct Hx as [Hx|Hx].
  - exact (ps_wf_mem_valid p x Hp Hx).
  - exact (ps_wf_mem_valid o x Ho Hx).
Qed.
Lemma ps_inter_ports p o n :
  ps_wf p -> imem n (ps_ports (ps_inter p o)) = imem n (ps_ports p) && imem n (ps_ports o).
Proof.
  intros [Hc _]. unfold ps_inter. cbn [ps_ports]. apply iinter_mem. exact Hc.
Qed.
Lemma ps_inter_wf p o : ps_wf p -> ps_wf (ps_inter p o).
Proof.
  intros Hp. assert (Hc : canon (ps_ports (ps_inter p o))).
  { unfold ps_inter. cbn [ps_ports]. apply iinter_canon. apply Hp. }
  split; [exact Hc|]. apply within_of_valid; [exact Hc|].
  intros x Hx. rewrite ps_inter_ports in Hx by exact Hp.
  apply andb_true_iff in Hx. destruct Hx as [Hx _].
  exact (ps_wf_mem_valid p x Hp Hx).
Qed.
Lemma ps_subtract_ports p o n :
  ps_wf p -> imem n (ps_ports (ps_subtract p o)) = imem n (ps_ports p) && negb (imem n (ps_ports o)).
Proof.
  intros [Hc _]. unfold ps_subtract. cbn [ps_ports]. apply isub_mem. exact Hc.
Qed.
Lemma ps_subtract_wf p o : ps_wf p -> ps_wf (ps_subtract p o).
Proof.
  intros Hp. assert (Hc : canon (ps_ports (ps_subtract p o))).
  { unfold ps_subtract. cbn [ps_ports]. apply isub_canon. apply Hp. }
  split; [exact Hc|]. apply within_of_valid; [exact Hc|].
  intros x Hx. rewrite ps_subtract_ports in Hx by exact Hp.
  apply andb_true_iff in Hx. destruct Hx as [Hx _].
  exact (ps_wf_mem_valid p x Hp Hx).
Qed.
Lemma ps_containedin_ports p o : ps_containedin p o = true -> isubset (ps_ports p) (ps_ports o) = true.
Proof. unfold ps_containedin. intros H. apply andb_true_iff in H. apply H. Qed.
Lemma ps_containedin_numeric p o :
  ps_named p = [] -> ps_containedin p o = isubset (ps_ports p) (ps_ports o).
Proof. intros H. unfold ps_containedin. rewrite H. apply andb_true_r. Qed.
Lemma ps_containedin_sound p o :
  ps_wf p -> ps_containedin p o = true ->
  forall n, imem n (ps_ports p) = true -> imem n (ps_ports o) = true.
Proof.
  intros [Hc _] H. apply ps_containedin_ports in H. apply (isubset_spec _ _ Hc). exact H.
Qed.
Lemma ps_containedin_spec p o :
  ps_wf p -> ps_named p = [] ->
  (ps_containedin p o = true <->
   forall n, imem n (ps_ports p) = true -> imem n (ps_ports o) = true).
Proof.
  intros [Hc _] Hn. rewrite (ps_containedin_numeric p o Hn). apply isubset_spec. exact Hc.
Qed.
Lemma ps_add_range_ports p lo hi n :
  ps_wf p -> imem n (ps_ports (ps_add_range p lo hi)) = imem n (ps_ports p) || in_ivl n (lo, hi).
Proof.
  intros [Hc _]. unfold ps_add_range. cbn [ps_ports]. rewrite iadd_ivl_mem by exact Hc.
  apply orb_comm.
Qed.
Lemma ps_add_range_wf p lo hi :
  ps_wf p -> minPort <= lo -> hi <= maxPort -> ps_wf (ps_add_range p lo hi).
Proof.
  intros Hp Hlo Hhi. assert (Hc : canon (ps_ports (ps_add_range p lo hi))).
  { unfold ps_add_range. cbn [ps_ports]. apply iadd_ivl_canon. apply Hp. }
  split; [exact Hc|]. apply within_of_valid; [exact Hc|].
  intros x Hx. rewrite ps_add_range_ports in Hx by exact Hp.
  apply orb_true_iff in Hx. destruct Hx as [Hx|Hx].
  - exact (ps_wf_mem_valid p x Hp Hx).
  - apply valid_port_iff. unfold in_ivl in Hx. cbn [fst snd] in Hx. lia.
Qed.

(* numeric port sets stay numeric *)
Lemma ps_union_numeric p o : ps_numeric p -> ps_numeric o -> ps_numeric (ps_union p o).
Proof.
  destruct p as [a1 a2 a3], o as [b1 b2 b3]. unfold ps_numeric. cbn [ps_named ps_excl].
  intros [H1 H2] [H3 H4]. subst. split; reflexivity.
Qed.
Lemma ps_inter_numeric p o : ps_numeric p -> ps_numeric (ps_inter p o).
Proof. intros H. exact H. Qed.
Lemma ps_subtract_numeric p o : ps_numeric p -> ps_numeric o -> ps_numeric (ps_subtract p o).
Proof.
  destruct p as [a1 a2 a3], o as [b1 b2 b3]. unfold ps_numeric. cbn [ps_named ps_excl].
  intros [H1 H2] [H3 H4]. subst. split; reflexivity.
Qed.

(* ---------- auxiliary: per-entry view of a connection set ---------- *)
Definition opt_mem (m : option portset) (n : Z) : bool :=
  match m with Some ps => imem n (ps_ports ps) | None => false end.
Definition opt_P (P : portset -> Prop) (m : option portset) : Prop :=
  forall ps, m = Some ps -> P ps.

Lemma some_inj {A : Type} (a b : A) : Some a = Some b -> a = b.
Proof. intros H. injection H as H. exact H. Qed.

Lemma opt_P_none (P : portset -> Prop) : opt_P P None.
Proof. intros ps H. discriminate H. Qed.
Lemma opt_P_some (P : portset -> Prop) ps : P ps -> opt_P P (Some ps).
Proof. intros H x E. injection E as E. subst x. exact H. Qed.
Lemma opt_P_impl (P Q : portset -> Prop) m : (forall ps, P ps -> Q ps) -> opt_P P m -> opt_P Q m.
Proof. intros H Hm ps E. apply H. exact (Hm ps E). Qed.

Lemma cs_denote_eq c p n :
  cs_denote c p n = valid_port n && (cs_all c || opt_mem (cs_get c p) n).
Proof.
  unfold cs_denote, cs_contains, opt_mem, ps_contains. destruct (cs_all c); reflexivity.
Qed.

Lemma opt_mem_valid m n : opt_P ps_wf m -> opt_mem m n = true -> valid_port n = true.
Proof.
  intros Hm H. destruct m as [ps|]; cbn [opt_mem] in H; [|discriminate H].
  exact (ps_wf_mem_valid ps n (Hm ps eq_refl) H).
Qed.

Lemma valid_min : valid_port minPort = true.
Proof. reflexivity. Qed.

Lemma cs_iawa_gen c :
  cs_is_all_without_allowall c = true <->
  cs_all c = false /\ forall p, exists ps, cs_get c p = Some ps /\ ps_isall ps = true.
Proof.
  unfold cs_is_all_without_allowall. rewrite andb_true_iff, negb_true_iff, forallb_protos.
  split; intros [Ha H]; (split; [exact Ha|]); intros p; specialize (H p).
  - destruct (cs_get c p) as [ps|]; [|discriminate H]. exists ps. split; [reflexivity|exact H].
  - destruct H as (ps & E & Hi). rewrite E. exact Hi.
Qed.
Lemma cs_iawa_intro c :
  cs_all c = false -> (forall p, cs_get c p = Some (ps_make true)) -> cs_is_all_without_allowall c = true.
Proof. intros Ha H. apply cs_iawa_gen. split; [exact Ha|]. intros p. exists (ps_make true). split; [apply H|reflexivity]. Qed.
(* on sets whose stored port sets are name-free: every protocol is stored with the full port set *)
Lemma cs_iawa_spec c :
  (forall p ps, cs_get c p = Some ps -> ps_named ps = []) ->
  (cs_is_all_without_allowall c = true <->
   cs_all c = false /\ forall p, cs_get c p = Some (ps_make true)).
Proof.
  intros Hnum. split.
  - intros H. apply cs_iawa_gen in H. destruct H as [Ha H]. split; [exact Ha|]. intros p.
    destruct (H p) as (ps & E & Hi). rewrite E. f_equal. apply (ps_isall_spec ps (Hnum p ps E)). exact Hi.
  - intros [Ha H]. apply cs_iawa_intro; assumption.
Qed.

Lemma nonempty_member (s : iset) : canon s -> s <> [] -> exists x, imem x s = true.
Proof.
  intros Hc Hne. destruct s as [|[l h] t]; [exfalso; apply Hne; reflexivity|].
  exists l. unfold canon in Hc. cbn [lb_canon] in Hc. destruct Hc as (_ & Hlh & _).
  cbn [imem]. apply orb_true_iff. left. unfold in_ivl. cbn [fst snd]. lia.
Qed.

Lemma imem_nonempty (s : iset) x : imem x s = true -> s <> [].
Proof. intros H E. subst s. cbn [imem] in H. discriminate H. Qed.

(* "good" stored port sets: well-formed, name-free, non-empty *)
Definition ps_good (ps : portset) : Prop := ps_wf ps /\ ps_numeric ps /\ ps_ports ps <> [].
Definition cs_good (c : connset) : Prop := forall p, opt_P ps_good (cs_get c p).

Lemma ps_good_member ps : ps_good ps -> exists x, imem x (ps_ports ps) = true /\ valid_port x = true.
Proof.
  intros (Hwf & _ & Hne). destruct (nonempty_member (ps_ports ps)) as [x Hx]; [apply Hwf|exact Hne|].
  exists x. split; [exact Hx|]. exact (ps_wf_mem_valid ps x Hwf Hx).
Qed.

Lemma ps_make_true_good : ps_good (ps_make true).
Proof.
  split; [apply ps_make_wf|]. split; [split; reflexivity|].
  unfold ps_make. cbn [ps_ports]. unfold ifull. intros E. discriminate E.
Qed.

Lemma ps_full_of_mem ps :
  ps_wf ps -> ps_numeric ps -> (forall n, valid_port n = true -> imem n (ps_ports ps) = true) ->
  ps = ps_make true.
Proof.
  intros Hwf [Hn He] Hall. pose proof (ps_wf_full_ports ps Hwf Hall) as Hp.
  destruct ps as [a1 a2 a3]. cbn [ps_ports ps_named ps_excl] in *. subst. reflexivity.
Qed.

Lemma ps_isempty_ports ps : ps_isempty ps = true -> ps_ports ps = [].
Proof.
  unfold ps_isempty. intros H. apply andb_true_iff in H. destruct H as [H _].
  destruct (ps_ports ps); [reflexivity|discriminate H].
Qed.

Lemma ps_notempty_numeric ps : ps_numeric ps -> ps_isempty ps = false -> ps_ports ps <> [].
Proof.
  intros [Hn _] H E. unfold ps_isempty in H. rewrite Hn, E in H. cbn in H. discriminate H.
Qed.

Lemma ps_union_good a b : ps_good a -> ps_wf b -> ps_numeric b -> ps_good (ps_union a b).
Proof.
  intros (Hw & Hn & He) Hwb Hnb. split; [apply ps_union_wf; assumption|].
  split; [apply ps_union_numeric; assumption|].
  destruct (nonempty_member (ps_ports a)) as [x Hx]; [apply Hw|exact He|].
  apply (imem_nonempty _ x). rewrite ps_union_ports by exact Hw. rewrite Hx. reflexivity.
Qed.

Lemma ps_union_good_r a b : ps_wf a -> ps_numeric a -> ps_good b -> ps_good (ps_union a b).
Proof.
  intros Hwa Hna (Hw & Hn & He). split; [apply ps_union_wf; assumption|].
  split; [apply ps_union_numeric; assumption|].
  destruct (nonempty_member (ps_ports b)) as [x Hx]; [apply Hw|exact He|].
  apply (imem_nonempty _ x). rewrite ps_union_ports by exact Hwa. rewrite Hx. apply orb_true_r.
Qed.

Lemma cs_ninv_iff c :
  cs_ninv c <-> cs_good c /\ (cs_all c = true -> forall p, cs_get c p = None) /\
                cs_is_all_without_allowall c = false.
Proof.
  unfold cs_ninv, cs_good, cs_wf, cs_numeric, opt_P, ps_good. split.
  - intros (H1 & H2 & H3 & H4 & H5). split; [|split; assumption].
    intros p ps E. split; [exact (H1 p ps E)|]. split; [exact (H2 p ps E)|exact (H4 p ps E)].
  - intros (H1 & H3 & H5). split; [|split; [|split; [|split]]].
    + intros p ps E. apply (H1 p ps E).
    + intros p ps E. apply (H1 p ps E).
    + exact H3.
    + intros p ps E. apply (H1 p ps E).
    + exact H5.
Qed.

Lemma cs_ninv_good c : cs_ninv c -> cs_good c.
Proof. intros H. apply cs_ninv_iff in H. apply H. Qed.
Lemma cs_good_wf c : cs_good c -> cs_wf c.
Proof. intros H p ps E. apply (H p ps E). Qed.

(* ---------- entry functions of the three binary operations ---------- *)
Definition union_entry (mine other : option portset) : option portset :=
  match mine, other with
  | Some ps, Some ops => Some (ps_union ps ops)
  | Some ps, None => Some ps
  | None, other => other
  end.
Definition inter_entry (mine other : option portset) : option portset :=
  match mine with
  | None => None
  | Some ps =>
      match other with
      | None => None
      | Some ops => let r := ps_inter ps ops in if ps_isempty r then None else Some r
      end
  end.
Definition sub_entry (mine other : option portset) : option portset :=
  match mine, other with
  | Some ps, Some ops => if ps_containedin ps ops then None else Some (ps_subtract ps ops)
  | m, _ => m
  end.

Lemma cs_union_eq c o :
  cs_union c o =
  if cs_all c || cs_isempty o then c
  else if cs_all o then cs_make true
  else cs_check_all (cs_map (fun p mine => union_entry mine (cs_get o p)) c).
Proof. reflexivity. Qed.
Lemma cs_inter_eq c o :
  cs_inter c o =
  if cs_all o then c
  else if cs_all c then
    cs_map (fun p mine => match cs_get o p with Some x => Some x | None => mine end)
           (mkCS false (cs_tcp c) (cs_udp c) (cs_sctp c))
  else cs_map (fun p mine => inter_entry mine (cs_get o p)) c.
Proof. reflexivity. Qed.
Lemma cs_subtract_eq c o :
  cs_subtract c o =
  if cs_isempty o then c
  else if cs_all o then cs_make false
  else cs_map (fun p mine => sub_entry mine (cs_get o p))
         (if cs_all c
          then cs_add_all_conns (mkCS false (cs_tcp c) (cs_udp c) (cs_sctp c)) else c).
Proof. reflexivity. Qed.

Lemma union_entry_mem mine other n :
  opt_P ps_wf mine -> opt_mem (union_entry mine other) n = opt_mem mine n || opt_mem other n.
Proof.
  intros Hm. destruct mine as [ps|], other as [ops|]; cbn [union_entry opt_mem].
  - apply ps_union_ports. exact (Hm ps eq_refl).
  - rewrite orb_false_r. reflexivity.
  - reflexivity.
  - reflexivity.
Qed.
Lemma union_entry_wf mine other :
  opt_P ps_wf mine -> opt_P ps_wf other -> opt_P ps_wf (union_entry mine other).
Proof.
  intros Hm Ho. destruct mine as [ps|], other as [ops|]; cbn [union_entry].
  - apply opt_P_some. apply ps_union_wf; [exact (Hm ps eq_refl)|exact (Ho ops eq_refl)].
  - exact Hm.
  - exact Ho.
  - exact Ho.
Qed.
Lemma union_entry_good mine other :
  opt_P ps_good mine -> opt_P ps_good other -> opt_P ps_good (union_entry mine other).
Proof.
  intros Hm Ho. destruct mine as [ps|], other as [ops|]; cbn [union_entry].
  - apply opt_P_some. destruct (Ho ops eq_refl) as (H1 & H2 & _).
    apply ps_union_good; [exact (Hm ps eq_refl)|exact H1|exact H2].
  - exact Hm.
  - exact Ho.
  - exact Ho.
Qed.

Lemma inter_entry_mem mine other n :
  opt_P ps_wf mine -> opt_mem (inter_entry mine other) n = opt_mem mine n && opt_mem other n.
Proof.
  intros Hm. destruct mine as [ps|]; cbn [inter_entry opt_mem]; [|reflexivity].
  destruct other as [ops|]; cbn [opt_mem]; [|rewrite andb_false_r; reflexivity].
  cbv zeta. rewrite <- (ps_inter_ports ps ops n (Hm ps eq_refl)).
  destruct (ps_isempty (ps_inter ps ops)) eqn:E; cbn [opt_mem]; [|reflexivity].
  rewrite (ps_isempty_ports _ E). reflexivity.
Qed.
Lemma inter_entry_wf mine other : opt_P ps_wf mine -> opt_P ps_wf (inter_entry mine other).
Proof.
  intros Hm. destruct mine as [ps|]; cbn [inter_entry]; [|apply opt_P_none].
  destruct other as [ops|]; [|apply opt_P_none]. cbv zeta.
  destruct (ps_isempty (ps_inter ps ops)); [apply opt_P_none|].
  apply opt_P_some. apply ps_inter_wf. exact (Hm ps eq_refl).
Qed.
Lemma inter_entry_good mine other : opt_P ps_good mine -> opt_P ps_good (inter_entry mine other).
Proof.
  intros Hm. destruct mine as [ps|]; cbn [inter_entry]; [|apply opt_P_none].
  destruct other as [ops|]; [|apply opt_P_none]. cbv zeta.
  destruct (ps_isempty (ps_inter ps ops)) eqn:E; [apply opt_P_none|].
  apply opt_P_some. destruct (Hm ps eq_refl) as (H1 & H2 & _).
  split; [apply ps_inter_wf; exact H1|]. split; [apply ps_inter_numeric; exact H2|].
  apply ps_notempty_numeric; [apply ps_inter_numeric; exact H2|exact E].
Qed.
Lemma inter_entry_full mine other :
  opt_P ps_good mine -> inter_entry mine other = Some (ps_make true) -> mine = Some (ps_make true).
Proof.
  intros Hm. destruct mine as [ps|]; cbn [inter_entry]; [|intros H; discriminate H].
  destruct other as [ops|]; [|intros H; discriminate H]. cbv zeta.
  destruct (ps_isempty (ps_inter ps ops)); [intros H; discriminate H|].
  intros H. apply some_inj in H. destruct (Hm ps eq_refl) as (H1 & H2 & _). f_equal.
  apply ps_full_of_mem; [exact H1|exact H2|]. intros n Hv.
  assert (Hn : imem n (ps_ports (ps_inter ps ops)) = true).
  { rewrite H, ps_full_mem. exact Hv. }
  rewrite ps_inter_ports in Hn by exact H1. apply andb_true_iff in Hn. apply Hn.
Qed.

Lemma sub_entry_mem mine other n :
  opt_P ps_wf mine -> opt_mem (sub_entry mine other) n = opt_mem mine n && negb (opt_mem other n).
Proof.
  intros Hm. destruct mine as [ps|], other as [ops|]; cbn [sub_entry opt_mem negb].
  - pose proof (Hm ps eq_refl) as Hwf.
    destruct (ps_containedin ps ops) eqn:E; cbn [opt_mem].
    + pose proof (ps_containedin_sound ps ops Hwf E n) as E'.
      destruct (imem n (ps_ports ps)); [|reflexivity]. rewrite E' by reflexivity. reflexivity.
    + apply ps_subtract_ports. exact Hwf.
  - rewrite andb_true_r. reflexivity.
  - reflexivity.
  - reflexivity.
Qed.
Lemma sub_entry_wf mine other : opt_P ps_wf mine -> opt_P ps_wf (sub_entry mine other).
Proof.
  intros Hm. destruct mine as [ps|], other as [ops|]; cbn [sub_entry]; try exact Hm.
  destruct (ps_containedin ps ops); [apply opt_P_none|].
  apply opt_P_some. apply ps_subtract_wf. exact (Hm ps eq_refl).
Qed.
Lemma sub_entry_good mine other :
  opt_P ps_good mine -> opt_P ps_numeric other -> opt_P ps_good (sub_entry mine other).
Proof.
  intros Hm Ho. destruct mine as [ps|], other as [ops|]; cbn [sub_entry]; try exact Hm.
  destruct (ps_containedin ps ops) eqn:E; [apply opt_P_none|].
  apply opt_P_some. destruct (Hm ps eq_refl) as (H1 & H2 & _).
  split; [apply ps_subtract_wf; exact H1|].
  split; [apply ps_subtract_numeric; [exact H2|exact (Ho ops eq_refl)]|].
  rewrite (ps_containedin_numeric ps ops (proj1 H2)) in E.
  unfold isubset in E. unfold ps_subtract. cbn [ps_ports].
  intros E2. rewrite E2 in E. cbn [iempty] in E. discriminate E.
Qed.
Lemma sub_entry_full mine other :
  opt_P ps_good mine -> opt_P ps_good other ->
  sub_entry mine other = Some (ps_make true) -> other = None.
Proof.
  intros Hm Ho H. destruct other as [ops|]; [exfalso|reflexivity].
  destruct (ps_good_member ops (Ho ops eq_refl)) as (x & Hx & Hv).
  assert (Hn : opt_mem (sub_entry mine (Some ops)) x = true).
  { rewrite H. cbn [opt_mem]. rewrite ps_full_mem. exact Hv. }
  rewrite sub_entry_mem in Hn.
  - cbn [opt_mem] in Hn. rewrite Hx in Hn. cbn [negb] in Hn. rewrite andb_false_r in Hn.
    discriminate Hn.
  - intros ps E. apply (Hm ps E).
Qed.

(* ---------- ConnectionSet: denotation of every operation ---------- *)
Theorem cs_make_denote all p n : cs_denote (cs_make all) p n = valid_port n && all.
Proof.
  rewrite cs_denote_eq, cs_get_make. cbn [cs_make cs_all opt_mem]. rewrite orb_false_r.
  reflexivity.
Qed.
Theorem cs_make_wf all : cs_wf (cs_make all).
Proof. intros p ps. rewrite cs_get_make. intros H. discriminate H. Qed.

Lemma cs_wf_map f c : (forall p, opt_P ps_wf (f p (cs_get c p))) -> cs_wf (cs_map f c).
Proof. intros H p ps. rewrite cs_get_map. apply H. Qed.

Lemma cs_check_all_denote c p n : cs_denote (cs_check_all c) p n = cs_denote c p n.
Proof.
  unfold cs_check_all. destruct (cs_is_all_without_allowall c) eqn:E; [|reflexivity].
  apply cs_iawa_gen in E. destruct E as [Ea Eg]. destruct (Eg p) as (ps & Eps & Hi).
  rewrite cs_make_denote, (cs_denote_eq c), Ea, Eps. cbn [opt_mem orb]. rewrite (ps_isall_full_mem ps n Hi).
  destruct (valid_port n); reflexivity.
Qed.
Lemma cs_check_all_wf c : cs_wf c -> cs_wf (cs_check_all c).
Proof.
  intros H. unfold cs_check_all. destruct (cs_is_all_without_allowall c); [apply cs_make_wf|exact H].
Qed.

Theorem cs_union_denote c o p n :
  cs_wf c -> cs_wf o -> cs_denote (cs_union c o) p n = cs_denote c p n || cs_denote o p n.
Proof.
  intros Hc Ho. rewrite cs_union_eq.
  destruct (cs_all c) eqn:Eac; cbn [orb].
  - rewrite !cs_denote_eq, Eac. lia.
  - destruct (cs_isempty o) eqn:Eeo.
    + apply cs_isempty_spec in Eeo. destruct Eeo as [Eao Eno].
      rewrite (cs_denote_eq o), Eao, Eno. cbn [opt_mem orb]. lia.
    + destruct (cs_all o) eqn:Eao.
      * rewrite cs_make_denote, (cs_denote_eq c), (cs_denote_eq o), Eao. lia.
      * rewrite cs_check_all_denote, cs_denote_eq, cs_get_map, cs_all_map, Eac.
        rewrite union_entry_mem by exact (Hc p).
        rewrite (cs_denote_eq c), (cs_denote_eq o), Eac, Eao. lia.
Qed.
Theorem cs_union_wf c o : cs_wf c -> cs_wf o -> cs_wf (cs_union c o).
Proof.
  intros Hc Ho. rewrite cs_union_eq.
  destruct (cs_all c || cs_isempty o); [exact Hc|].
  destruct (cs_all o); [apply cs_make_wf|].
  apply cs_check_all_wf. apply cs_wf_map. intros p.
  apply union_entry_wf; [exact (Hc p)|exact (Ho p)].
Qed.

(* cs_inter_denote needs "AllowAll implies nothing stored" on the receiver (see below) *)
Theorem cs_inter_denote c o p n :
  cs_wf c -> cs_wf o -> (cs_all c = true -> forall q, cs_get c q = None) ->
  cs_denote (cs_inter c o) p n = cs_denote c p n && cs_denote o p n.
Proof.
  intros Hc Ho Hinv. rewrite cs_inter_eq.
  destruct (cs_all o) eqn:Eao.
  - rewrite (cs_denote_eq o), Eao, (cs_denote_eq c). lia.
  - destruct (cs_all c) eqn:Eac.
    + rewrite cs_denote_eq, cs_get_map, cs_all_map. cbn [cs_all]. rewrite cs_get_reflag.
      rewrite (Hinv eq_refl p), (cs_denote_eq c), (cs_denote_eq o), Eac, Eao.
      destruct (cs_get o p) as [ops|]; cbn [opt_mem]; lia.
    + rewrite cs_denote_eq, cs_get_map, cs_all_map, Eac.
      rewrite inter_entry_mem by exact (Hc p).
      rewrite (cs_denote_eq c), (cs_denote_eq o), Eac, Eao. lia.
Qed.

(* Without the hypothesis the statement is false for the mirror AND for the Go code (AllowAll with a
   stale stored protocol, reachable by MakeConnectionSet(true) + AddConnection): *)
Lemma cs_inter_denote_stale_refuted :
  let c := mkCS true (Some (mkPS [(80, 80)] [] [])) None None in
  let o := mkCS false None (Some (mkPS [(53, 53)] [] [])) None in
  cs_wf c /\ cs_wf o /\
  cs_denote (cs_inter c o) TCP 80 = true /\ cs_denote c TCP 80 && cs_denote o TCP 80 = false.
Proof.
  assert (Hs : forall x, minPort <= x <= maxPort -> ps_wf (mkPS [(x, x)] [] [])).
  { intros x Hx. split.
    - unfold canon. cbn [ps_ports lb_canon]. lia.
    - cbn [ps_ports withinb]. lia. }
  cbv zeta. split; [|split; [|split; reflexivity]].
  - intros p ps. destruct p; cbn [cs_get cs_tcp cs_udp cs_sctp]; intros H; try discriminate H.
    apply some_inj in H. subst ps. apply Hs. unfold minPort, maxPort. lia.
  - intros p ps. destruct p; cbn [cs_get cs_tcp cs_udp cs_sctp]; intros H; try discriminate H.
    apply some_inj in H. subst ps. apply Hs. unfold minPort, maxPort. lia.
Qed.

Theorem cs_inter_wf c o : cs_wf c -> cs_wf o -> cs_wf (cs_inter c o).
Proof.
  intros Hc Ho. rewrite cs_inter_eq.
  destruct (cs_all o); [exact Hc|]. destruct (cs_all c).
  - apply cs_wf_map. intros p. rewrite cs_get_reflag.
    destruct (cs_get o p) as [ops|] eqn:E; [|exact (Hc p)].
    apply opt_P_some. exact (Ho p ops E).
  - apply cs_wf_map. intros p. apply inter_entry_wf. exact (Hc p).
Qed.

(* AddConnection of the full port set, and the three of them in a row *)
Definition full_or_union (m : option portset) : portset :=
  match m with Some mine => ps_union mine (ps_make true) | None => ps_make true end.

Lemma cs_addconn_all c p ps : cs_all (cs_addconn c p ps) = cs_all c.
Proof.
  unfold cs_addconn. destruct (ps_isempty ps); [reflexivity|].
  destruct (cs_get c p); apply cs_all_set.
Qed.
Lemma cs_addconn_full_get c p q :
  cs_get (cs_addconn c p (ps_make true)) q =
  if proto_eqb p q then Some (full_or_union (cs_get c p)) else cs_get c q.
Proof.
  unfold cs_addconn. change (ps_isempty (ps_make true)) with false. cbv iota.
  destruct (cs_get c p); rewrite cs_get_set; reflexivity.
Qed.
Lemma cs_add_all_all c : cs_all (cs_add_all_conns c) = cs_all c.
Proof.
  unfold cs_add_all_conns, all_protos. cbn [fold_left]. rewrite !cs_addconn_all. reflexivity.
Qed.
Lemma cs_add_all_get c q :
  cs_get (cs_add_all_conns c) q = Some (full_or_union (cs_get c q)).
Proof.
  unfold cs_add_all_conns, all_protos. cbn [fold_left]. rewrite !cs_addconn_full_get.
  destruct q; cbn [proto_eqb]; reflexivity.
Qed.
Lemma full_or_union_mem m n :
  opt_P ps_wf m -> imem n (ps_ports (full_or_union m)) = valid_port n.
Proof.
  intros Hm. destruct m as [ps|]; cbn [full_or_union]; [|apply ps_full_mem].
  pose proof (Hm ps eq_refl) as Hwf. rewrite ps_union_ports by exact Hwf. rewrite ps_full_mem.
  destruct (imem n (ps_ports ps)) eqn:E; [|reflexivity].
  rewrite (ps_wf_mem_valid ps n Hwf E). reflexivity.
Qed.
Lemma full_or_union_wf m : opt_P ps_wf m -> ps_wf (full_or_union m).
Proof.
  intros Hm. destruct m as [ps|]; cbn [full_or_union]; [|apply ps_make_wf].
  apply ps_union_wf; [exact (Hm ps eq_refl)|apply ps_make_wf].
Qed.

Theorem cs_subtract_denote c o p n :
  cs_wf c -> cs_wf o ->
  cs_denote (cs_subtract c o) p n = cs_denote c p n && negb (cs_denote o p n).
Proof.
  intros Hc Ho. rewrite cs_subtract_eq.
  destruct (cs_isempty o) eqn:Eeo.
  - apply cs_isempty_spec in Eeo. destruct Eeo as [Eao Eno].
    rewrite (cs_denote_eq o), Eao, Eno. cbn [opt_mem orb]. lia.
  - destruct (cs_all o) eqn:Eao.
    + rewrite cs_make_denote, (cs_denote_eq c), (cs_denote_eq o), Eao. lia.
    + rewrite cs_denote_eq, cs_get_map, cs_all_map, (cs_denote_eq c), (cs_denote_eq o), Eao.
      destruct (cs_all c) eqn:Eac.
      * rewrite cs_add_all_all, cs_add_all_get. cbn [cs_all]. rewrite cs_get_reflag.
        rewrite sub_entry_mem.
        -- cbn [opt_mem]. rewrite full_or_union_mem by exact (Hc p). lia.
        -- apply opt_P_some. apply full_or_union_wf. exact (Hc p).
      * rewrite Eac. rewrite sub_entry_mem by exact (Hc p). lia.
Qed.
Theorem cs_subtract_wf c o : cs_wf c -> cs_wf o -> cs_wf (cs_subtract c o).
Proof.
  intros Hc Ho. rewrite cs_subtract_eq.
  destruct (cs_isempty o); [exact Hc|]. destruct (cs_all o); [apply cs_make_wf|].
  apply cs_wf_map. intros p. apply sub_entry_wf. destruct (cs_all c); [|exact (Hc p)].
  rewrite cs_add_all_get, cs_get_reflag. apply opt_P_some. apply full_or_union_wf. exact (Hc p).
Qed.

Theorem cs_addconn_denote c p ps q n :
  cs_wf c -> ps_wf ps ->
  cs_denote (cs_addconn c p ps) q n =
  cs_denote c q n || (proto_eqb p q && imem n (ps_ports ps)).
Proof.
  intros Hc Hps. unfold cs_addconn. destruct (ps_isempty ps) eqn:Ee.
  - rewrite (ps_isempty_ports ps Ee). cbn [imem]. lia.
  - assert (Hv : imem n (ps_ports ps) = true -> valid_port n = true)
      by exact (ps_wf_mem_valid ps n Hps).
    destruct (cs_get c p) as [mine|] eqn:E;
      rewrite cs_denote_eq, cs_get_set, cs_all_set, (cs_denote_eq c);
      destruct (proto_eqb p q) eqn:Epq; try lia.
    + apply proto_eqb_eq in Epq. subst q. rewrite E. cbn [opt_mem].
      rewrite ps_union_ports by exact (Hc p mine E). lia.
    + apply proto_eqb_eq in Epq. subst q. rewrite E. cbn [opt_mem]. lia.
Qed.
Theorem cs_addconn_wf c p ps : cs_wf c -> ps_wf ps -> cs_wf (cs_addconn c p ps).
Proof.
  intros Hc Hps q x. unfold cs_addconn. destruct (ps_isempty ps); [apply Hc|].
  destruct (cs_get c p) as [mine|] eqn:E; rewrite cs_get_set;
    (destruct (proto_eqb p q); [|apply Hc]); intros H; apply some_inj in H; subst x.
  - apply ps_union_wf; [exact (Hc p mine E)|exact Hps].
  - exact Hps.
Qed.

Theorem cs_copy_eq c : cs_copy c = c.
Proof. reflexivity. Qed.

Theorem cs_containedin_sound c o :
  cs_wf c -> cs_wf o -> cs_containedin c o = true ->
  forall p n, cs_denote c p n = true -> cs_denote o p n = true.
Proof.
  intros Hc Ho. unfold cs_containedin. destruct (cs_all o) eqn:Eao.
  - intros _ p n H. rewrite cs_denote_eq in H. rewrite cs_denote_eq, Eao. lia.
  - destruct (cs_all c) eqn:Eac; [intros H; discriminate H|].
    rewrite forallb_protos. intros H p n Hd. specialize (H p).
    rewrite cs_denote_eq, Eac in Hd. rewrite cs_denote_eq, Eao. cbn [orb] in *.
    apply andb_true_iff in Hd. destruct Hd as [Hv Hm]. rewrite Hv. cbn [andb].
    destruct (cs_get c p) as [ps|] eqn:E1; cbn [opt_mem] in Hm; [|discriminate Hm].
    destruct (cs_get o p) as [ops|] eqn:E2; [|discriminate H]. cbn [opt_mem].
    apply (ps_containedin_sound ps ops (Hc p ps E1)); assumption.
Qed.

(* ---------- canonicity on name-free sets ---------- *)
Theorem cs_allowall_canonical c :
  cs_ninv c -> ((forall p n, valid_port n = true -> cs_denote c p n = true) <-> cs_all c = true).
Proof.
  intros Hn. pose proof Hn as Hn'. apply cs_ninv_iff in Hn'. destruct Hn' as (Hg & Hnone & Hi).
  split.
  - intros Hall. destruct (cs_all c) eqn:Ea; [reflexivity|exfalso].
    assert (Ht : cs_is_all_without_allowall c = true).
    { apply cs_iawa_intro; [exact Ea|]. intros p.
      assert (Hm : forall n, valid_port n = true -> opt_mem (cs_get c p) n = true).
      { intros n Hv. specialize (Hall p n Hv). rewrite cs_denote_eq, Ea, Hv in Hall.
        exact Hall. }
      destruct (cs_get c p) as [ps|] eqn:E.
      - f_equal. destruct (Hg p ps E) as (H1 & H2 & _).
        apply ps_full_of_mem; [exact H1|exact H2|]. intros n Hv. exact (Hm n Hv).
      - specialize (Hm minPort valid_min). cbn [opt_mem] in Hm. discriminate Hm. }
    rewrite Ht in Hi. discriminate Hi.
  - intros Ha p n Hv. rewrite cs_denote_eq, Ha, Hv. reflexivity.
Qed.

Lemma good_entry_ext m1 m2 :
  opt_P ps_good m1 -> opt_P ps_good m2 -> (forall n, opt_mem m1 n = opt_mem m2 n) -> m1 = m2.
Proof.
  intros H1 H2 Hext. destruct m1 as [a|], m2 as [b|].
  - f_equal. destruct (H1 a eq_refl) as ((Hca & _) & (Hna & Hea) & _).
    destruct (H2 b eq_refl) as ((Hcb & _) & (Hnb & Heb) & _).
    assert (Hp : ps_ports a = ps_ports b).
    { apply canon_ext; [exact Hca|exact Hcb|]. intros x. exact (Hext x). }
    destruct a as [a1 a2 a3], b as [b1 b2 b3]. cbn [ps_ports ps_named ps_excl] in *.
    subst. reflexivity.
  - exfalso. destruct (ps_good_member a (H1 a eq_refl)) as (x & Hx & _).
    specialize (Hext x). cbn [opt_mem] in Hext. rewrite Hx in Hext. discriminate Hext.
  - exfalso. destruct (ps_good_member b (H2 b eq_refl)) as (x & Hx & _).
    specialize (Hext x). cbn [opt_mem] in Hext. rewrite Hx in Hext. discriminate Hext.
  - reflexivity.
Qed.

Theorem cs_ninv_ext c o :
  cs_ninv c -> cs_ninv o -> (forall p n, cs_denote c p n = cs_denote o p n) -> c = o.
Proof.
  intros Hc Ho Hext.
  assert (Ha : cs_all c = cs_all o).
  { apply eq_true_iff_eq. rewrite <- (cs_allowall_canonical c Hc), <- (cs_allowall_canonical o Ho).
    split; intros H p n Hv; [rewrite <- Hext|rewrite Hext]; exact (H p n Hv). }
  apply cs_ninv_iff in Hc. destruct Hc as (Hgc & Hnc & _).
  apply cs_ninv_iff in Ho. destruct Ho as (Hgo & Hno & _).
  apply cs_ext; [exact Ha|]. intros p.
  destruct (cs_all c) eqn:Eac.
  - rewrite (Hnc eq_refl p), (Hno (eq_sym Ha) p). reflexivity.
  - symmetry in Ha. apply good_entry_ext; [exact (Hgc p)|exact (Hgo p)|].
    intros n. specialize (Hext p n). rewrite !cs_denote_eq, Eac, Ha in Hext. cbn [orb] in Hext.
    destruct (opt_mem (cs_get c p) n) eqn:E1, (opt_mem (cs_get o p) n) eqn:E2; try reflexivity;
      exfalso.
    + assert (Hv : valid_port n = true).
      { apply (opt_mem_valid (cs_get c p) n); [|exact E1].
        intros ps E. apply (Hgc p ps E). }
      rewrite Hv in Hext. discriminate Hext.
    + assert (Hv : valid_port n = true).
      { apply (opt_mem_valid (cs_get o p) n); [|exact E2].
        intros ps E. apply (Hgo p ps E). }
      rewrite Hv in Hext. discriminate Hext.
Qed.

Theorem cs_isempty_iff c :
  cs_ninv c -> (cs_isempty c = true <-> forall p n, cs_denote c p n = false).
Proof.
  intros Hn. apply cs_ninv_iff in Hn. destruct Hn as (Hg & _ & _).
  rewrite cs_isempty_spec. split.
  - intros [Ea En] p n. rewrite cs_denote_eq, Ea, En. cbn [opt_mem orb]. apply andb_false_r.
  - intros H. split.
    + destruct (cs_all c) eqn:Ea; [|reflexivity].
      specialize (H TCP minPort). rewrite cs_denote_eq, Ea, valid_min in H. discriminate H.
    + intros p. destruct (cs_get c p) as [ps|] eqn:E; [exfalso|reflexivity].
      destruct (ps_good_member ps (Hg p ps E)) as (x & Hx & Hv).
      specialize (H p x). rewrite cs_denote_eq, E, Hv in H. cbn [opt_mem] in H.
      rewrite Hx, orb_true_r in H. discriminate H.
Qed.

Theorem cs_containedin_complete c o :
  cs_ninv c -> cs_ninv o ->
  (forall p n, cs_denote c p n = true -> cs_denote o p n = true) -> cs_containedin c o = true.
Proof.
  intros Hc Ho Hsub. unfold cs_containedin.
  destruct (cs_all o) eqn:Eao; [reflexivity|].
  destruct (cs_all c) eqn:Eac.
  - exfalso. assert (Ht : cs_all o = true).
    { apply (cs_allowall_canonical o Ho). intros p n Hv. apply Hsub.
      rewrite cs_denote_eq, Eac, Hv. reflexivity. }
    rewrite Ht in Eao. discriminate Eao.
  - apply cs_ninv_iff in Hc. destruct Hc as (Hgc & _ & _).
    apply forallb_protos. intros p.
    destruct (cs_get c p) as [ps|] eqn:E1; [|reflexivity].
    pose proof (Hgc p ps E1) as Hgood. pose proof Hgood as (Hwf & Hnumeric & _).
    assert (Hm : forall n, imem n (ps_ports ps) = true -> opt_mem (cs_get o p) n = true).
    { intros n Hn. pose proof (ps_wf_mem_valid ps n Hwf Hn) as Hv.
      specialize (Hsub p n). rewrite !cs_denote_eq, Eac, Eao, E1, Hv in Hsub.
      cbn [opt_mem orb andb] in Hsub. exact (Hsub Hn). }
    destruct (cs_get o p) as [ops|] eqn:E2.
    + apply (ps_containedin_spec ps ops Hwf (proj1 Hnumeric)). exact Hm.
    + destruct (ps_good_member ps Hgood) as (x & Hx & _). specialize (Hm x Hx).
      cbn [opt_mem] in Hm. discriminate Hm.
Qed.

Theorem cs_equal_iff_denote c o :
  cs_ninv c -> cs_ninv o ->
  (cs_equal c o = true <-> forall p n, cs_denote c p n = cs_denote o p n).
Proof.
  intros Hc Ho. rewrite cs_equal_spec. split.
  - intros E p n. subst o. reflexivity.
  - intros Hext. exact (cs_ninv_ext c o Hc Ho Hext).
Qed.

Theorem cs_string_eq_of_denote c o :
  cs_ninv c -> cs_ninv o -> (forall p n, cs_denote c p n = cs_denote o p n) ->
  cs_string c = cs_string o.
Proof.
  intros Hc Ho Hext. rewrite (cs_ninv_ext c o Hc Ho Hext). reflexivity.
Qed.

Theorem cs_make_ninv all : cs_ninv (cs_make all).
Proof.
  apply cs_ninv_iff. split; [|split].
  - intros p. rewrite cs_get_make. apply opt_P_none.
  - intros _ p. apply cs_get_make.
  - destruct (cs_is_all_without_allowall (cs_make all)) eqn:E; [|reflexivity].
    apply cs_iawa_gen in E. destruct E as [_ E]. destruct (E TCP) as (ps & E1 & _).
    rewrite cs_get_make in E1. discriminate E1.
Qed.

Lemma cs_check_all_ninv c : cs_good c -> cs_all c = false -> cs_ninv (cs_check_all c).
Proof.
  intros Hg Ha. unfold cs_check_all.
  destruct (cs_is_all_without_allowall c) eqn:E; [apply cs_make_ninv|].
  apply cs_ninv_iff. split; [exact Hg|]. split; [|exact E].
  intros Ht. rewrite Ht in Ha. discriminate Ha.
Qed.

Lemma cs_union_good_ninv c o : cs_ninv c -> cs_good o -> cs_ninv (cs_union c o).
Proof.
  intros Hc Hgo. rewrite cs_union_eq.
  destruct (cs_all c) eqn:Eac; cbn [orb]; [exact Hc|].
  destruct (cs_isempty o); [exact Hc|]. destruct (cs_all o); [apply cs_make_ninv|].
  apply cs_check_all_ninv.
  - intros p. rewrite cs_get_map. apply union_entry_good; [|exact (Hgo p)].
    exact (cs_ninv_good c Hc p).
  - rewrite cs_all_map. exact Eac.
Qed.

Theorem cs_union_ninv c o : cs_ninv c -> cs_ninv o -> cs_ninv (cs_union c o).
Proof.
  intros Hc Ho. apply cs_union_good_ninv; [exact Hc|]. exact (cs_ninv_good o Ho).
Qed.

Theorem cs_inter_ninv c o : cs_ninv c -> cs_ninv o -> cs_ninv (cs_inter c o).
Proof.
  intros Hc Ho. rewrite cs_inter_eq.
  destruct (cs_all o) eqn:Eao; [exact Hc|].
  pose proof Hc as Hc'. apply cs_ninv_iff in Hc'. destruct Hc' as (Hgc & Hnc & Hic).
  destruct (cs_all c) eqn:Eac.
  - match goal with |- cs_ninv ?r => assert (Hr : r = o) end.
    { apply cs_ext.
      - rewrite cs_all_map. cbn [cs_all]. symmetry. exact Eao.
      - intros p. rewrite cs_get_map, cs_get_reflag, (Hnc eq_refl p).
        destruct (cs_get o p); reflexivity. }
    rewrite Hr. exact Ho.
  - apply cs_ninv_iff. split; [|split].
    + intros p. rewrite cs_get_map. apply inter_entry_good. exact (Hgc p).
    + rewrite cs_all_map, Eac. intros Ht. discriminate Ht.
    + match goal with |- ?b = false => destruct b eqn:E; [exfalso|reflexivity] end.
      apply cs_iawa_gen in E. destruct E as [_ E].
      assert (Ht : cs_is_all_without_allowall c = true).
      { apply cs_iawa_intro; [exact Eac|]. intros p. destruct (E p) as (ps & E1 & Hi). rewrite cs_get_map in E1.
        assert (Hps : ps = ps_make true).
        { pose proof (inter_entry_good _ (cs_get o p) (Hgc p)) as Hg'. rewrite E1 in Hg'.
          destruct (Hg' ps eq_refl) as (_ & Hnum & _). apply (ps_isall_spec ps (proj1 Hnum)). exact Hi. }
        subst ps. exact (inter_entry_full _ _ (Hgc p) E1). }
      rewrite Ht in Hic. discriminate Hic.
Qed.

Theorem cs_subtract_ninv c o : cs_ninv c -> cs_ninv o -> cs_ninv (cs_subtract c o).
Proof.
  intros Hc Ho. rewrite cs_subtract_eq.
  destruct (cs_isempty o) eqn:Eeo; [exact Hc|].
  destruct (cs_all o) eqn:Eao; [apply cs_make_ninv|].
  pose proof Hc as Hc'. apply cs_ninv_iff in Hc'. destruct Hc' as (Hgc & Hnc & _).
  pose proof (cs_ninv_good o Ho) as Hgo.
  match goal with |- cs_ninv (cs_map _ ?x) => set (c1 := x) end.
  assert (H1 : cs_all c1 = false /\ cs_good c1).
  { unfold c1. destruct (cs_all c) eqn:Eac.
    - split; [rewrite cs_add_all_all; reflexivity|].
      intros p. rewrite cs_add_all_get, cs_get_reflag, (Hnc eq_refl p).
      cbn [full_or_union]. apply opt_P_some. exact ps_make_true_good.
    - split; [exact Eac|exact Hgc]. }
  destruct H1 as [Ha1 Hg1]. clearbody c1.
  apply cs_ninv_iff. split; [|split].
  - intros p. rewrite cs_get_map. apply sub_entry_good; [exact (Hg1 p)|].
    intros ps E. apply (Hgo p ps E).
  - rewrite cs_all_map, Ha1. intros Ht. discriminate Ht.
  - match goal with |- ?b = false => destruct b eqn:E; [exfalso|reflexivity] end.
    apply cs_iawa_gen in E. destruct E as [_ E].
    assert (Ht : cs_isempty o = true).
    { apply cs_isempty_spec. split; [exact Eao|]. intros p. destruct (E p) as (ps & E1 & Hi). rewrite cs_get_map in E1.
      assert (Hps : ps = ps_make true).
      { assert (Hg' : opt_P ps_good (sub_entry (cs_get c1 p) (cs_get o p))).
        { apply sub_entry_good; [exact (Hg1 p)|]. intros x Ex. apply (Hgo p x Ex). }
        rewrite E1 in Hg'. destruct (Hg' ps eq_refl) as (_ & Hnum & _). apply (ps_isall_spec ps (proj1 Hnum)). exact Hi. }
      subst ps. exact (sub_entry_full _ _ (Hg1 p) (Hgo p) E1). }
    rewrite Ht in Eeo. discriminate Eeo.
Qed.

(* a rule's connection set: AddConnection of name-free, non-empty port sets into the empty set,
   THEN a Union into an accumulator: the union re-establishes the invariant whatever the
   AddConnection calls built (this is how every rule set reaches a report). *)
Definition cs_pre (c : connset) : Prop :=
  cs_wf c /\ cs_numeric c /\ cs_all c = false /\
  (forall p ps, cs_get c p = Some ps -> ps_ports ps <> []).

Lemma cs_pre_iff c : cs_pre c <-> cs_all c = false /\ cs_good c.
Proof.
  unfold cs_pre, cs_good, cs_wf, cs_numeric, opt_P, ps_good. split.
  - intros (H1 & H2 & H3 & H4). split; [exact H3|]. intros p ps E.
    split; [exact (H1 p ps E)|]. split; [exact (H2 p ps E)|exact (H4 p ps E)].
  - intros (H3 & H). split; [|split; [|split]].
    + intros p ps E. apply (H p ps E).
    + intros p ps E. apply (H p ps E).
    + exact H3.
    + intros p ps E. apply (H p ps E).
Qed.

Theorem cs_addconn_pre c p ps :
  cs_pre c -> ps_wf ps -> ps_numeric ps -> cs_pre (cs_addconn c p ps).
Proof.
  intros Hc Hw Hn. apply cs_pre_iff in Hc. destruct Hc as [Ha Hg]. apply cs_pre_iff.
  split; [rewrite cs_addconn_all; exact Ha|].
  unfold cs_addconn. destruct (ps_isempty ps) eqn:Ee; [exact Hg|].
  assert (Hps : ps_good ps).
  { split; [exact Hw|]. split; [exact Hn|]. exact (ps_notempty_numeric ps Hn Ee). }
  destruct (cs_get c p) as [mine|] eqn:E; intros q; rewrite cs_get_set;
    (destruct (proto_eqb p q); [|exact (Hg q)]); apply opt_P_some.
  - apply ps_union_good; [exact (Hg p mine E)|exact Hw|exact Hn].
  - exact Hps.
Qed.
Theorem cs_union_pre_ninv c o : cs_ninv c -> cs_pre o -> cs_ninv (cs_union c o).
Proof.
  intros Hc Ho. apply cs_pre_iff in Ho. destruct Ho as [_ Hg].
  apply cs_union_good_ninv; [exact Hc|exact Hg].
Qed.
