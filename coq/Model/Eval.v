(* Eval.v — mirror of the connection-set computation of the policy engine:
     /repo/pkg/netpol/eval/check.go                       (allAllowedConnectionsBetweenPeers, ...)
     /repo/pkg/netpol/eval/internal/k8s/netpol.go         (Selects, ruleSelectsPeer, ruleConnections, Get*AllowedConns)
     /repo/pkg/netpol/eval/internal/k8s/adminnetpol.go, baseline_admin_netpol.go, policy_connections.go
   Function by function, loops as structural recursion with the Go code's early returns and
   error positions.  Executable definitions only. *)
From Coq Require Import List ZArith Bool String.
From NP Require Import IntervalSet ConnSet World.
Import ListNotations.
Open Scope list_scope.
Open Scope Z_scope.

(* ---------- NetworkPolicy ---------- *)
Definition np_affects (np : netpol) (d : dir) : bool :=
  match np_types np with
  | _ :: _ => existsb (dir_eqb d) (np_types np)
  | [] => match d with
          | Ingress => true
          | Egress => match np_eg np with [] => false | _ => true end
          end
  end.

Definition np_selects (np : netpol) (p : pod) (d : dir) : outcome bool :=
  if negb (String.eqb (p_ns p) (np_ns np)) then Ok false
  else if negb (np_affects np d) then Ok false
  else if sel_empty (np_sel np) then Ok true
  else sel_matches (np_sel np) (p_labels p).

Fixpoint np_peers_select (npns : string) (peers : list np_peer) (x : peer) : outcome bool :=
  match peers with
  | [] => Ok false
  | pr :: t =>
      match pr with
      | NPEmpty | NPCombined => Err ErrRulePeer
      | NPSel nss pods =>
          match x with
          | PIP _ => np_peers_select npns t x
          | PPod p nsl =>
              do nsm <- match nss with
                        | None => Ok (String.eqb npns (p_ns p))
                        | Some s => sel_matches s nsl
                        end;
              if negb nsm then np_peers_select npns t x
              else do pm <- match pods with
                            | None => Ok true
                            | Some s => sel_matches s (p_labels p)
                            end;
                   if pm then Ok true else np_peers_select npns t x
          end
      | NPIP cidr exc =>
          match x with
          | PPod _ _ => np_peers_select npns t x
          | PIP b => if isubset [b] (rule_block cidr exc) then Ok true else np_peers_select npns t x
          end
      | NPIPBad =>
          match x with
          | PPod _ _ => np_peers_select npns t x
          | PIP _ => Err ErrCidr
          end
      end
  end.

Definition np_rule_selects (npns : string) (peers : list np_peer) (x : peer) : outcome bool :=
  match peers with
  | [] => Ok true
  | _ => np_peers_select npns peers x
  end.

(* getPortsRange: None is the empty range (-1,-1) *)
Definition get_ports_range (pp : np_port) (dst : peer) : outcome (option (Z * Z)) :=
  match pp_port pp with
  | PName nm =>
      match dst with
      | PIP _ => Err ErrNamedPortIP
      | PPod d _ =>
          match pod_named_port (p_ports d) nm with
          | None => Ok None
          | Some (pr, n) => if proto_eqb pr (pp_proto pp) then Ok (Some (n, n)) else Ok None
          end
      end
  | PNum n => Ok (Some (n, match pp_end pp with Some e => e | None => n end))
  | PAll => Ok None
  end.

Fixpoint np_ports_conns (ports : list np_port) (dst : peer) (res : connset) : outcome connset :=
  match ports with
  | [] => Ok res
  | pp :: t =>
      do ps <- match pp_port pp with
               | PAll => Ok (ps_make true)
               | _ => do r <- get_ports_range pp dst;
                      Ok (match r with
                          | None => ps_make false
                          | Some (s, e) => ps_add_range (ps_make false) s e
                          end)
               end;
      np_ports_conns t dst (cs_addconn res (pp_proto pp) ps)
  end.

Definition np_rule_conns (ports : list np_port) (dst : peer) : outcome connset :=
  match ports with
  | [] => Ok (cs_make true)
  | _ => np_ports_conns ports dst (cs_make false)
  end.

(* Get{In,E}gressAllowedConns: [other] is the end the rule peers are matched against *)
Fixpoint np_rules_conns (npns : string) (rules : list np_rule) (other dst : peer) (res : connset)
  : outcome connset :=
  match rules with
  | [] => Ok res
  | r :: t =>
      do sel <- np_rule_selects npns (nr_peers r) other;
      if negb sel then np_rules_conns npns t other dst res
      else do rc <- np_rule_conns (nr_ports r) dst;
           np_rules_conns npns t other dst (cs_union res rc)
  end.

Definition np_dir_conns (np : netpol) (src dst : peer) (ingress : bool) : outcome connset :=
  if ingress then np_rules_conns (np_ns np) (np_in np) src dst (cs_make false)
  else np_rules_conns (np_ns np) (np_eg np) dst dst (cs_make false).

(* getPoliciesSelectingPod *)
Fixpoint selecting_nps (nps : list netpol) (p : pod) (d : dir) : outcome (list netpol) :=
  match nps with
  | [] => Ok []
  | np :: t =>
      do s <- np_selects np p d;
      do rest <- selecting_nps t p d;
      Ok (if s then np :: rest else rest)
  end.

Fixpoint nps_union_conns (sel : list netpol) (src dst : peer) (ingress : bool) (acc : connset)
  : outcome connset :=
  match sel with
  | [] => Ok acc
  | np :: t =>
      do c <- np_dir_conns np src dst ingress;
      nps_union_conns t src dst ingress (cs_union acc c)
  end.

(* getAllAllowedXgressConnsFromNetpols: None = not captured *)
Definition np_layer (w : world) (src dst : peer) (ingress : bool) : outcome (option connset) :=
  match (if ingress then dst else src) with
  | PIP _ => Ok None
  | PPod p _ =>
      do sel <- selecting_nps (w_nps w) p (if ingress then Ingress else Egress);
      match sel with
      | [] => Ok None
      | _ => do c <- nps_union_conns sel src dst ingress (cs_make false); Ok (Some c)
      end
  end.

(* ---------- (Baseline)AdminNetworkPolicy ---------- *)
Definition admin_peer_matches (ap : admin_peer) (x : peer) : outcome bool :=
  match ap with
  | APBad => Err ErrAdminPeer
  | APNamespaces s =>
      match x with
      | PIP _ => Ok false
      | PPod _ nsl => sel_matches s nsl
      end
  | APPods nss pods =>
      match x with
      | PIP _ => Ok false
      | PPod p nsl =>
          do a <- sel_matches nss nsl;
          do b <- sel_matches pods (p_labels p);
          Ok (a && b)
      end
  end.

Fixpoint admin_peers_select (peers : list admin_peer) (x : peer) : outcome bool :=
  match peers with
  | [] => Ok false
  | ap :: t => do m <- admin_peer_matches ap x;
               if m then Ok true else admin_peers_select t x
  end.

Definition subject_selects (subj : admin_peer) (x : peer) : outcome bool :=
  match subj with
  | APBad => Err ErrAdminSubject
  | _ => admin_peer_matches subj x
  end.

Fixpoint admin_ports_conns (ports : list admin_port) (dst : peer) (res : connset) : outcome connset :=
  match ports with
  | [] => Ok res
  | ap :: t =>
      match ap with
      | APortBad => Err ErrAdminPort
      | APortNum p n => admin_ports_conns t dst (cs_addconn res p (ps_add_range (ps_make false) n n))
      | APortRange p lo hi => admin_ports_conns t dst (cs_addconn res p (ps_add_range (ps_make false) lo hi))
      | APortNamed nm =>
          match dst with
          | PIP _ => admin_ports_conns t dst res
          | PPod d _ =>
              match pod_named_port (p_ports d) nm with
              | None => admin_ports_conns t dst res
              | Some (pr, n) => admin_ports_conns t dst (cs_addconn res pr (ps_add_range (ps_make false) n n))
              end
          end
      end
  end.

Definition admin_rule_conns (ports : option (list admin_port)) (dst : peer) : outcome connset :=
  match ports with
  | None => Ok (cs_make true)
  | Some l => admin_ports_conns l dst (cs_make false)
  end.

Record pconns := mkPC { pc_allow : connset; pc_deny : connset; pc_pass : connset }.
Definition pc_new : pconns := mkPC (cs_make false) (cs_make false) (cs_make false).
Definition pc_isempty (pc : pconns) : bool :=
  cs_isempty (pc_allow pc) && cs_isempty (pc_deny pc) && cs_isempty (pc_pass pc).

(* UpdateWithRuleConns *)
Definition pc_update (pc : pconns) (rc : connset) (a : action) (is_banp : bool) : outcome pconns :=
  match a with
  | AAllow => let rc' := cs_subtract (cs_subtract rc (pc_deny pc)) (pc_pass pc) in
              Ok (mkPC (cs_union (pc_allow pc) rc') (pc_deny pc) (pc_pass pc))
  | ADeny => let rc' := cs_subtract (cs_subtract rc (pc_allow pc)) (pc_pass pc) in
             Ok (mkPC (pc_allow pc) (cs_union (pc_deny pc) rc') (pc_pass pc))
  | APass => if is_banp then Err ErrAdminAction
             else let rc' := cs_subtract (cs_subtract rc (pc_allow pc)) (pc_deny pc) in
                  Ok (mkPC (pc_allow pc) (pc_deny pc) (cs_union (pc_pass pc) rc'))
  | AUnknown => Err ErrAdminAction
  end.

Fixpoint admin_rules_conns (rules : list admin_rule) (other dst : peer) (is_banp : bool) (pc : pconns)
  : outcome pconns :=
  match rules with
  | [] => Ok pc
  | r :: t =>
      match ar_peers r with
      | [] => Err ErrAdminPeer
      | _ =>
          do sel <- admin_peers_select (ar_peers r) other;
          if negb sel then admin_rules_conns t other dst is_banp pc
          else do rc <- admin_rule_conns (ar_ports r) dst;
               do pc' <- pc_update pc rc (ar_action r) is_banp;
               admin_rules_conns t other dst is_banp pc'
      end
  end.

(* CollectANPConns *)
Definition pc_collect_anp (pc new : pconns) : pconns :=
  let d := cs_subtract (cs_subtract (pc_deny new) (pc_allow pc)) (pc_pass pc) in
  let a := cs_subtract (cs_subtract (pc_allow new) (pc_deny pc)) (pc_pass pc) in
  let p := cs_subtract (cs_subtract (pc_pass new) (pc_deny pc)) (pc_allow pc) in
  mkPC (cs_union (pc_allow pc) a) (cs_union (pc_deny pc) d) (cs_union (pc_pass pc) p).

(* Selects of an (B)ANP: direction affected iff it has rules in that direction *)
Definition admin_selects (subj : admin_peer) (rules : list admin_rule) (x : peer) : outcome bool :=
  match x with
  | PIP _ => Ok false
  | PPod _ _ => match rules with
                | [] => Ok false
                | _ => subject_selects subj x
                end
  end.

(* getAllAllowedXgressConnectionsFromANPs *)
Fixpoint anps_conns (anps : list anp) (src dst : peer) (ingress : bool) (pc : pconns) : outcome pconns :=
  match anps with
  | [] => Ok pc
  | a :: t =>
      let rules := if ingress then a_in a else a_eg a in
      do sel <- admin_selects (a_subject a) rules (if ingress then dst else src);
      do single <- (if sel then admin_rules_conns rules (if ingress then src else dst) dst false pc_new
                    else Ok pc_new);
      anps_conns t src dst ingress (if pc_isempty single then pc else pc_collect_anp pc single)
  end.

(* DeterminesAllConns *)
Definition pc_determines_all (pc : pconns) : bool :=
  cs_all (cs_union (pc_allow pc) (pc_deny pc)).

(* getXgressDefaultConns *)
Definition default_conns (w : world) (src dst : peer) (ingress : bool) : outcome pconns :=
  let allow_all := mkPC (cs_make true) (cs_make false) (cs_make false) in
  match w_banp w with
  | None => Ok allow_all
  | Some b =>
      let rules := if ingress then b_in b else b_eg b in
      do sel <- admin_selects (b_subject b) rules (if ingress then dst else src);
      do res <- (if sel then admin_rules_conns rules (if ingress then src else dst) dst true pc_new
                 else Ok pc_new);
      Ok (if pc_isempty res then mkPC (cs_make true) (pc_deny res) (pc_pass res) else res)
  end.

(* allAllowedXgressConnections *)
Definition xgress_conns (w : world) (src dst : peer) (ingress : bool) : outcome connset :=
  do anpc <- anps_conns (w_anps w) src dst ingress pc_new;
  let captured := negb (pc_isempty anpc) in
  if captured && pc_determines_all anpc then Ok (pc_allow anpc)
  else
    do npc <- np_layer w src dst ingress;
    match npc with
    | Some np_allowed =>
        if captured
        then Ok (cs_union (pc_allow anpc) (cs_subtract np_allowed (pc_deny anpc)))   (* CollectAllowedConnsFromNetpols *)
        else Ok np_allowed
    | None =>
        do dflt <- default_conns w src dst ingress;
        (* CollectConnsFromBANP *)
        let d := cs_union (pc_deny anpc) (cs_subtract (pc_deny dflt) (pc_allow anpc)) in
        Ok (cs_subtract (cs_make true) d)
    end.

Definition pod_to_itself (src dst : peer) : bool :=
  match src, dst with
  | PPod a _, PPod b _ => String.eqb (p_name a) (p_name b) && String.eqb (p_ns a) (p_ns b)
  | _, _ => false
  end.

(* allAllowedConnectionsBetweenPeers (a host IP never equals an IP-block peer in this code:
   isPeerNodeIP's error test is inverted, so the node-IP shortcut is dead — see DESIGN.md) *)
Definition all_conns (w : world) (src dst : peer) : outcome connset :=
  if pod_to_itself src dst then Ok (cs_make true)
  else
    do eg <- xgress_conns w src dst false;
    if cs_isempty eg then Ok eg
    else do ing <- xgress_conns w src dst true;
         Ok (cs_inter eg ing).
