#!/bin/bash
# Runs the repository's test suite in the given tree (default /repo) and prints the failing tests that are
# NOT failing on the pinned baseline (the ipblockstest_4 golden file was emptied by the task setup).
T=${1:-/repo}
export GOFLAGS=-mod=mod GOPROXY=off GOSUMDB=off GOTOOLCHAIN=local
cd "$T" && go build ./... || { echo "BUILD FAILED"; exit 2; }
go test -vet=off -count=1 -timeout 25m -json ./... 2>/dev/null | python3 -c '
import sys, json
bad=[]
for l in sys.stdin:
    try: e=json.loads(l)
    except Exception: continue
    if e.get("Action")=="fail" and e.get("Test"):
        bad.append(e["Package"].split("/")[-1]+"::"+e["Test"])
leaf=[b for b in bad if not any(o!=b and o.startswith(b+"/") for o in bad)]
new=[b for b in leaf if "ipblockstest_4" not in b]
print("failing leaf tests:",len(leaf),"unexpected:",len(new))
for b in new: print("  UNEXPECTED FAIL",b)
sys.exit(1 if new else 0)
'
rc=$?
find "$T/test_outputs" -name 'actual_*' -newer "$T/go.mod" -delete 2>/dev/null
exit $rc
