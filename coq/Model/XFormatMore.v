(* XFormatMore.v — the md, csv and json outputs of `list --exposure`, byte for byte, from the same rows as the txt
   output (Model/XFormat.v): conns_formatter_md.go, conns_formatter_csv.go, conns_formatter_json.go.
   Every section prints the exposed workload first (the ingress sections are headed dst,src); json keeps src/dst.
   encoding/csv and encoding/json as in Model/Format.v (a field is quoted iff it holds a comma or a quote; no JSON
   escapes on this alphabet; a nil slice is null).  Executable definitions only. *)
From Coq Require Import List ZArith Bool String Ascii.
From NP Require Import IntervalSet ConnSet World Build Connlist Diff Format XFormat.
Import ListNotations.
Open Scope list_scope.
Open Scope string_scope.

Definition eg_rows (es : list rentry) (xps : list xpeer) : list row := rowsort (flat_map (xgress_rows es false) xps).
Definition ing_rows (es : list rentry) (xps : list xpeer) : list row := rowsort (flat_map (xgress_rows es true) xps).

(* ---- md ---- *)
Definition md_header_ing : string := "| dst | src | conn |" ++ nl ++ "|-----|-----|------|".
Definition md_subsection (rows : list row) (header : string) : string :=
  match rows with [] => "" | _ => header ++ join nl (map md_line rows) ++ nl end.
Definition list_exposure_md (es : list rentry) (xps : list xpeer) : string :=
  join nl ((md_header :: map md_line (rowsort (map row_of es)))
           ++ ["## Exposure Analysis Result:";
               md_subsection (eg_rows es xps) ("### Egress Exposure:" ++ nl ++ md_header ++ nl);
               md_subsection (ing_rows es xps) ("### Ingress Exposure:" ++ nl ++ md_header_ing ++ nl)]).

(* ---- csv ---- *)
Definition csv_rows (rows : list row) : string :=
  fold_right (fun r acc => csv_row [r_src r; r_dst r; r_conn r] ++ acc) EmptyString rows.
Definition csv_subsection (rows : list row) (title : string) (cols : list string) : string :=
  match rows with [] => "" | _ => csv_row [title; ""; ""] ++ csv_row cols ++ csv_rows rows end.
Definition list_exposure_csv (es : list rentry) (xps : list xpeer) : string :=
  csv_row ["src"; "dst"; "conn"] ++ csv_rows (rowsort (map row_of es))
  ++ csv_row ["Exposure Analysis Result:"; ""; ""]
  ++ csv_subsection (eg_rows es xps) "Egress Exposure:" ["src"; "dst"; "conn"]
  ++ csv_subsection (ing_rows es xps) "Ingress Exposure:" ["dst"; "src"; "conn"].

(* ---- json (MarshalIndent with two blanks) ---- *)
Definition ind (n : nat) : string := spaces (2 * n).
Definition json_item (depth : nat) (src dst conn : string) : string :=
  ind depth ++ "{" ++ nl ++
  ind (S depth) ++ """src"": """ ++ src ++ """," ++ nl ++
  ind (S depth) ++ """dst"": """ ++ dst ++ """," ++ nl ++
  ind (S depth) ++ """conn"": """ ++ conn ++ """" ++ nl ++
  ind depth ++ "}".
(* an array value at the given depth: [] for an empty non-nil slice, null for a nil one *)
Definition json_array (depth : nat) (nil_is_null : bool) (items : list string) : string :=
  match items with
  | [] => if nil_is_null then "null" else "[]"
  | _ => "[" ++ nl ++ join ("," ++ nl) items ++ nl ++ ind depth ++ "]"
  end.
Definition list_exposure_json (es : list rentry) (xps : list xpeer) : string :=
  "{" ++ nl ++
  ind 1 ++ """connlist_results"": " ++
    json_array 1 false (map (fun r => json_item 2 (r_src r) (r_dst r) (r_conn r)) (rowsort (map row_of es))) ++ "," ++ nl ++
  ind 1 ++ """exposure_results"": {" ++ nl ++
  ind 2 ++ """egress_exposure"": " ++
    json_array 2 true (map (fun r => json_item 3 (r_src r) (r_dst r) (r_conn r)) (eg_rows es xps)) ++ "," ++ nl ++
  ind 2 ++ """ingress_exposure"": " ++
    json_array 2 true (map (fun r => json_item 3 (r_dst r) (r_src r) (r_conn r)) (ing_rows es xps)) ++ nl ++
  ind 1 ++ "}" ++ nl ++ "}".

(* ---------- correspondence cases ---------- *)
Record xfmt3_case := mkXFmt3 { x3_id : nat; x3_entries : list rentry; x3_peers : list xpeer; x3_md : string; x3_csv : string; x3_json : string }.
(* codes: 2 md, 3 csv, 4 json differ from the model (only compared when no two lines share both ends) *)
Definition xfmt3_mismatches (cs : list xfmt3_case) : list (nat * nat) :=
  flat_map (fun c =>
    if xf_no_ties (x3_entries c) (x3_peers c) then
      ((if String.eqb (x3_md c) (list_exposure_md (x3_entries c) (x3_peers c)) then [] else [(x3_id c, 2%nat)]) ++
       (if String.eqb (x3_csv c) (list_exposure_csv (x3_entries c) (x3_peers c)) then [] else [(x3_id c, 3%nat)]) ++
       (if String.eqb (x3_json c) (list_exposure_json (x3_entries c) (x3_peers c)) then [] else [(x3_id c, 4%nat)]))%list
    else []) cs.
