#!/bin/bash
# confirm_mutant.sh WT OUTDIR : in scratch worktree WT (clean), confirm that OUTDIR/patch.diff (a) applies, (b) builds and passes the
# suite, (c) the Go-test demo OUTDIR/demo/zz_demo_test.go (package dir = first `cp ... <dir>/` in demo/README) fails with it and passes without.
WT=$1; OUT=$2
export GOFLAGS=-mod=mod GOPROXY=off GOSUMDB=off GOTOOLCHAIN=local
cd $WT && git checkout -q -- . && git clean -fdq -e test_outputs
PKG=$(grep -o "$WT/[a-zA-Z0-9_/.-]*" $OUT/demo/README | head -1 | sed "s#^$WT/##; s#/\$##")
[ -f $OUT/demo/run.sh ] && MODE=sh || MODE=go
rundemo() {
  if [ $MODE = go ]; then
    cp $OUT/demo/*_test.go $WT/$PKG/ 2>/dev/null; [ -d $OUT/demo/testdata ] && cp -r $OUT/demo/testdata $WT/$PKG/ 2>/dev/null
    (cd $WT && go test -vet=off -count=1 ./$PKG -run 'TestZZ' >/tmp/demo.$$ 2>&1); rc=$?
    (cd $WT/$PKG && for f in $OUT/demo/*_test.go; do rm -f $(basename $f); done)
  else
    # a demo that expects a CLI binary built from the tree under test at a fixed /tmp path gets it rebuilt first
    B=$(grep -o '/tmp/k8snp-[A-Za-z0-9_-]*' $OUT/demo/run.sh | head -1)
    [ -n "$B" ] && (cd $WT && go build -o $B ./cmd/netpolicy)
    (cd $OUT/demo && bash ./run.sh >/tmp/demo.$$ 2>&1); rc=$?
  fi
  return $rc
}
rundemo; CLEAN=$?
git apply $OUT/patch.diff || { echo "CONFIRM $OUT: patch does not apply"; exit 1; }
/verif/tools/suite.sh $WT > /tmp/suite.$$ 2>&1; SUITE=$?
rundemo; MUT=$?
git checkout -q -- . ; git clean -fdq -e test_outputs
echo "CONFIRM $OUT: pkg=$PKG mode=$MODE demo_clean_rc=$CLEAN suite_rc=$SUITE demo_mutant_rc=$MUT  => $([ $CLEAN = 0 ] && [ $SUITE = 0 ] && [ $MUT != 0 ] && echo CONFIRMED || echo NOT-CONFIRMED)"
[ $SUITE != 0 ] && tail -5 /tmp/suite.$$
rm -f /tmp/demo.$$ /tmp/suite.$$
