(* StrInj.v — generic facts about strings used to show that the printed forms are injective:
   characters of a decimal numeral, unique splitting at a separator, join over separator-free pieces. *)
From Coq Require Import List ZArith Bool String Ascii Lia Decimal DecimalString DecimalN DecimalPos.
From NP Require Import IntervalSet ConnSet.
Import ListNotations.
Open Scope string_scope.

Fixpoint all_chars (f : ascii -> bool) (s : string) : bool :=
  match s with EmptyString => true | String c t => f c && all_chars f t end.

Lemma all_chars_app f a b : all_chars f (a ++ b) = all_chars f a && all_chars f b.
Proof. induction a as [|c a IH]; cbn; [reflexivity|]. rewrite IH, andb_assoc. reflexivity. Qed.

Lemma all_chars_weaken (f g : ascii -> bool) s :
  (forall c, f c = true -> g c = true) -> all_chars f s = true -> all_chars g s = true.
Proof.
  intros Hfg. induction s as [|c s IH]; cbn; [reflexivity|]. intros H. apply andb_true_iff in H.
  destruct H as [H1 H2]. rewrite (Hfg c H1), (IH H2). reflexivity.
Qed.

Definition is_digit (c : ascii) : bool :=
  match c with
  | "0" | "1" | "2" | "3" | "4" | "5" | "6" | "7" | "8" | "9" => true
  | _ => false
  end%char.

Lemma append_inj_l (a b c : string) : a ++ b = a ++ c -> b = c.
Proof. induction a as [|x a IH]; cbn; intros H; [exact H|]. injection H as H. exact (IH H). Qed.

Lemma append_nil_r (a : string) : a ++ "" = a.
Proof. induction a as [|x a IH]; cbn; [reflexivity|]. rewrite IH. reflexivity. Qed.

Lemma append_assoc (a b c : string) : (a ++ b) ++ c = a ++ (b ++ c).
Proof. induction a as [|x a IH]; cbn; [reflexivity|]. rewrite IH. reflexivity. Qed.

(* unique splitting at the first occurrence of a character *)
Lemma split_unique (f : ascii -> bool) (c : ascii) (a a' r r' : string) :
  f c = false -> all_chars f a = true -> all_chars f a' = true ->
  a ++ String c r = a' ++ String c r' -> a = a' /\ r = r'.
Proof.
  intros Hc. revert a'. induction a as [|x a IH]; intros [|x' a'] Ha Ha' H; cbn in *.
  - injection H as H. split; [reflexivity|exact H].
  - injection H as H1 H2. subst x'. apply andb_true_iff in Ha'. destruct Ha' as [Ha' _]. congruence.
  - injection H as H1 H2. subst x. apply andb_true_iff in Ha. destruct Ha as [Ha _]. congruence.
  - injection H as H1 H2. subst x'. apply andb_true_iff in Ha. apply andb_true_iff in Ha'.
    destruct (IH a' (proj2 Ha) (proj2 Ha') H2) as [E1 E2]. subst. split; reflexivity.
Qed.

(* a piece over f followed by nothing vs followed by the separator *)
Lemma split_end (f : ascii -> bool) (c : ascii) (a a' r' : string) :
  f c = false -> all_chars f a = true -> a = a' ++ String c r' -> False.
Proof.
  intros Hc Ha H. subst a. rewrite all_chars_app in Ha. cbn in Ha. rewrite Hc in Ha.
  rewrite andb_false_r in Ha. discriminate.
Qed.

(* ---- join ---- *)
Lemma join_cons sep x y t : join sep (x :: y :: t) = x ++ sep ++ join sep (y :: t).
Proof. reflexivity. Qed.

Definition sep1 (c : ascii) : string := String c EmptyString.

Lemma join_inj (f : ascii -> bool) (c : ascii) (l l' : list string) :
  f c = false ->
  Forall (fun s => all_chars f s = true) l -> Forall (fun s => all_chars f s = true) l' ->
  l <> [] -> l' <> [] ->
  join (sep1 c) l = join (sep1 c) l' -> l = l'.
Proof.
  intros Hc. revert l'. induction l as [|x l IH]; intros l' Hl Hl' Hn Hn' H; [congruence|].
  destruct l' as [|x' l']; [congruence|].
  inversion Hl as [|? ? Hx Hl2]; subst. inversion Hl' as [|? ? Hx' Hl2']; subst.
  destruct l as [|y l], l' as [|y' l'].
  - cbn in H. subst. reflexivity.
  - rewrite join_cons in H. cbn [join] in H. exfalso. unfold sep1 in H. cbn [append] in H.
    exact (split_end f c x x' _ Hc Hx H).
  - rewrite join_cons in H. cbn [join] in H. exfalso. unfold sep1 in H. cbn [append] in H.
    symmetry in H. exact (split_end f c x' x _ Hc Hx' H).
  - rewrite !join_cons in H. unfold sep1 in H. cbn [append] in H.
    destruct (split_unique f c x x' _ _ Hc Hx Hx' H) as [E1 E2]. subst x'. f_equal.
    apply IH; [exact Hl2|exact Hl2'|discriminate|discriminate|exact E2].
Qed.

Lemma join_app_ne sep (a b : list string) :
  a <> [] -> b <> [] -> join sep (a ++ b) = join sep a ++ sep ++ join sep b.
Proof.
  intros Ha Hb. induction a as [|x a IH]; [congruence|]. destruct a as [|y a].
  - cbn [app]. destruct b as [|z b]; [congruence|]. reflexivity.
  - change ((x :: y :: a) ++ b)%list with (x :: y :: (a ++ b)%list). rewrite !join_cons.
    change (y :: (a ++ b)%list) with ((y :: a) ++ b)%list. rewrite IH by discriminate.
    rewrite !append_assoc. reflexivity.
Qed.

(* ---- decimal numerals ---- *)
Lemma nilempty_digits d : all_chars is_digit (NilEmpty.string_of_uint d) = true.
Proof. induction d; cbn; try rewrite IHd; reflexivity. Qed.

Lemma nilzero_digits d : all_chars is_digit (NilZero.string_of_uint d) = true.
Proof. destruct d; try reflexivity; apply nilempty_digits. Qed.

Lemma N_to_uint_nonnil n : N.to_uint n <> Nil.
Proof. destruct n as [|p]; cbn; [discriminate|]. apply DecimalPos.Unsigned.to_uint_nonnil. Qed.

Lemma Z_str_nonneg z : (0 <= z)%Z -> Z_str z = NilZero.string_of_uint (N.to_uint (Z.to_N z)).
Proof. intros H. unfold Z_str. destruct (Z.ltb_spec z 0); [lia|reflexivity]. Qed.

Lemma Z_str_digits z : (0 <= z)%Z -> all_chars is_digit (Z_str z) = true.
Proof. intros H. rewrite Z_str_nonneg by exact H. apply nilzero_digits. Qed.

Lemma Z_str_inj a b : (0 <= a)%Z -> (0 <= b)%Z -> Z_str a = Z_str b -> a = b.
Proof.
  intros Ha Hb H. rewrite !Z_str_nonneg in H by assumption.
  assert (E : Some (N.to_uint (Z.to_N a)) = Some (N.to_uint (Z.to_N b))).
  { rewrite <- (NilZero.usu _ (N_to_uint_nonnil (Z.to_N a))), <- (NilZero.usu _ (N_to_uint_nonnil (Z.to_N b))).
    rewrite H. reflexivity. }
  injection E as E. apply DecimalN.Unsigned.to_uint_inj in E. lia.
Qed.

Lemma Z_str_nonempty z : (0 <= z)%Z -> Z_str z <> "".
Proof.
  intros H E. rewrite Z_str_nonneg in E by exact H.
  pose proof (NilZero.usu _ (N_to_uint_nonnil (Z.to_N z))) as U. rewrite E in U. discriminate.
Qed.
