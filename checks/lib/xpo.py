# Exposure analysis: shared driver of C06 / C07 (and the exposure part of C09).
#  - model correspondence: the real `list --exposure` (ExposedPeers API) against Model/Exposure.v exposure_objs
#  - helpers to evaluate label selectors and to build a hypothetical pod satisfying a reported selector pair
import copy, json, re
from . import core, gen
from .core import cstr, cz, cnat, clist, cbool

NSKEY = gen.NSKEY
XCODES = {1: 'ok/error outcome differs between implementation and model (exposure mode)', 2: 'reported (src,dst,connection) entries differ', 3: 'peer lists differ',
          5: 'implementation panicked', 8: 'the set of exposed peers differs', 9: 'a protected flag differs', 10: 'exposure entries of a workload differ'}

HEADER = ['From Coq Require Import List ZArith String.',
          'From NP Require Import IntervalSet ConnSet World Eval Build Connlist Exposure.',
          'Import ListNotations.', 'Open Scope Z_scope.']

OPS = {'In': 'OpIn', 'NotIn': 'OpNotIn', 'Exists': 'OpExists', 'DoesNotExist': 'OpDoesNotExist'}


def c_obs_sel(s):
    reqs = ['(mkReq %s %s %s)' % (cstr(e['key']), OPS[e['op']], clist([cstr(v) for v in e.get('values') or []])) for e in s.get('exprs') or []]
    return '(mkSel %s %s)' % (gen.c_labels(s.get('matchLabels') or {}), clist(reqs))


def c_obs_entry(e):
    return '(mkOXE %s %s %s %s)' % (cbool(e['cluster']), c_obs_sel(e['ns_sel']), c_obs_sel(e['pod_sel']), cstr(e['conn_str']))


def c_obs_exposed(o):
    return clist(['(mkOXP %s %s %s %s %s)' % (cstr(x['peer']), cbool(x['ingress_protected']), cbool(x['egress_protected']),
                                            clist([c_obs_entry(e) for e in x['ingress']]), clist([c_obs_entry(e) for e in x['egress']]))
                  for x in (o.get('exposure') or [])])


def model_mismatches(cases):
    """cases: (id, obj terms, observation with exposure) -> [(id, code)]"""
    text = list(HEADER)
    text.append('Definition cases : list x_case := [')
    text.append(';\n'.join('(mkXC %s %s %s %s)' % (cnat(cid), clist(objs), gen.c_obs_list(o), c_obs_exposed(o)) for cid, objs, o in cases))
    text.append('].')
    text.append('Definition MM := Eval vm_compute in x_mismatches cases.')
    text.append('Print MM.')
    rc, out, err = core.run_coq_text('\n'.join(text))
    if rc != 0:
        raise RuntimeError('coqc on exposure cases failed: ' + err[-2000:])
    mm = core.parse_pairs(out, 'MM')
    if mm is None:
        raise RuntimeError('could not parse coqc output: ' + out[-800:])
    return mm


def evaluate(h, scenarios, rng=None):
    """scenarios: [(id, W)] -> per id {docs, obs (with exposure), base (without)}, and the model mismatches"""
    cmds, meta = [], {}
    for cid, W in scenarios:
        dl = gen.docs(W)
        if rng is not None:
            rng.shuffle(dl)
        d = h.dir_for('x%d' % cid)
        gen.write_dir(d, [m for m, _ in dl])
        cmds.append({'id': 'x%d' % cid, 'cmd': 'list', 'dir': d, 'exposure': True, 'format': 'txt', 'want_out': True})
        cmds.append({'id': 'b%d' % cid, 'cmd': 'list', 'dir': d})
        meta[cid] = dl
    outs = h.run(cmds)
    cases, res = [], {}
    for j, (cid, W) in enumerate(scenarios):
        ox, ob = outs[2 * j], outs[2 * j + 1]
        cases.append((cid, [t for _, t in meta[cid]], ox))
        res[cid] = {'docs': meta[cid], 'obs': ox, 'base': ob, 'world': W}
    return res, model_mismatches(cases)


# ---------------------------------------------------------------- selectors in Python (for the probes on the implementation)
def sel_matches(sel, labels):
    """sel: {'matchLabels':..., 'matchExpressions': [{'key','operator','values'}]} (manifest form) or the harness form ('exprs', 'op')"""
    if sel is None:
        return True
    for k, v in (sel.get('matchLabels') or {}).items():
        if labels.get(k) != v:
            return False
    for e in (sel.get('matchExpressions') or sel.get('exprs') or []):
        op = e.get('operator') or e.get('op')
        k, vals = e['key'], e.get('values') or []
        if op == 'In' and labels.get(k) not in vals:
            return False
        if op == 'NotIn' and k in labels and labels[k] in vals:
            return False
        if op == 'Exists' and k not in labels:
            return False
        if op == 'DoesNotExist' and k in labels:
            return False
    return True


def witness_labels(sel, r=None, extra=None):
    """labels satisfying the selector, or None if it is unsatisfiable by this simple construction"""
    labels = {}
    for k, v in (sel.get('matchLabels') or {}).items():
        labels[k] = v
    exprs = sel.get('matchExpressions') or sel.get('exprs') or []
    for e in exprs:
        op = e.get('operator') or e.get('op')
        k, vals = e['key'], e.get('values') or []
        if op == 'In' and k not in labels:
            labels[k] = vals[0]
        if op == 'Exists' and k not in labels:
            labels[k] = 'any'
    if extra:
        for k, v in extra.items():
            if k not in labels and not any(e['key'] == k for e in exprs):
                labels[k] = v
    return labels if sel_matches(sel, labels) else None


def conn_points(conn):
    """sample points (proto, port) of an API connection {'all':bool,'pp':{proto:[[lo,hi]]}}"""
    if conn['all']:
        return [(p, n) for p in ('TCP', 'UDP', 'SCTP') for n in (1, 80, 65535)]
    pts = []
    for p, rs in conn['pp'].items():
        for lo, hi in rs:
            pts += [(p, lo), (p, hi)]
    return pts


def conn_has(conn, proto, port):
    if conn['all']:
        return True
    return any(lo <= port <= hi for lo, hi in conn['pp'].get(proto, []))


NAMED_RE = re.compile(r'^[A-Za-z][A-Za-z0-9-]*$')


def parse_conn_str(s):
    """'All Connections' | 'SCTP 1-3,TCP 80,http' -> (all, {proto: ([(lo,hi)], [names])})"""
    if s == 'All Connections':
        return True, {}
    if s in ('No Connections', ''):
        return False, {}
    res = {}
    cur = None
    for tok in s.replace(',', ' ').split():
        if tok in ('TCP', 'UDP', 'SCTP'):
            cur = tok
            res[cur] = ([], [])
        elif cur is not None and re.match(r'^\d+(-\d+)?$', tok):
            a, _, b = tok.partition('-')
            res[cur][0].append((int(a), int(b or a)))
        elif cur is not None:
            res[cur][1].append(tok)
    return False, res
