(* C16 — --focusworkload is a pure filter of the full report.
   Statements only; proofs in Proofs/FocusProofs.v, on the model of connlist.go
   (Model/Connlist.v list_world; [mp_focus focus m]: the peer's name or namespace/name equals focus). *)
From Coq Require Import List ZArith Bool String.
From NP Require Import IntervalSet ConnSet World Eval Build Connlist ListProofs FocusProofs.
Import ListNotations.

Theorem C16_focused_entries_are_unfocused_entries w focus hi rf r0 :
  list_world w focus hi = Ok rf -> list_world w EmptyString hi = Ok r0 -> lr_warn rf = false -> w_pods w <> [] ->
  forall e, In e (lr_entries rf) ->
    In e (lr_entries r0) /\
    exists s d, In s (mpeers_of w (ip_partition_of w)) /\ In d (mpeers_of w (ip_partition_of w)) /\
                re_src e = mp_r s /\ re_dst e = mp_r d /\ (mp_focus focus s || mp_focus focus d) = true.
Proof. exact (focus_entries_subset w focus hi rf r0). Qed.
Print Assumptions C16_focused_entries_are_unfocused_entries.

Theorem C16_matching_unfocused_entries_are_kept w focus hi rf r0 :
  list_world w focus hi = Ok rf -> list_world w EmptyString hi = Ok r0 -> lr_warn rf = false -> w_pods w <> [] ->
  forall e s d, In e (lr_entries r0) ->
    In s (mpeers_of w (ip_partition_of w)) -> In d (mpeers_of w (ip_partition_of w)) ->
    re_src e = mp_r s -> re_dst e = mp_r d ->
    (forall s' d', In s' (mpeers_of w (ip_partition_of w)) -> In d' (mpeers_of w (ip_partition_of w)) ->
                   mp_r s' = mp_r s -> mp_r d' = mp_r d -> mp_focus focus s' || mp_focus focus d' = true) ->
    In e (lr_entries rf).
Proof. exact (focus_entries_complete w focus hi rf r0). Qed.
Print Assumptions C16_matching_unfocused_entries_are_kept.

Theorem C16_focus_absent_empty_warning w focus blocks :
  w_pods w <> [] -> owners_consistent (w_pods w) = true -> referenced_blocks (w_nps w) = Ok blocks ->
  String.eqb focus EmptyString = false ->
  existsb (mp_focus focus) (mpeers_of w (ip_partition blocks)) = false ->
  list_world w focus false = Ok (mkLR [] [] true).
Proof. exact (focus_absent_empty_warning w focus blocks). Qed.
Print Assumptions C16_focus_absent_empty_warning.
