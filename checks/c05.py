# C05 — the connectivity report is a well-formed, canonical relation.
# The verified checker wf_report_b (Properties/C05.v) is applied to every report the implementation
# produces for worlds with and without ANP/BANP, focus on/off; the peers list is also compared with
# the model's IP partition.
from . import c01
from .lib import core, gen, listcorr


def nontrivial(W, obs):
    return obs['outcome'] == 'ok' and len(obs['peers']) >= 3 and len(obs['conns']) >= 2


def main(tier):
    run = core.Run('C05', tier)
    run.cov['rule'] = ('random worlds (NetworkPolicy-only and with ANP/BANP; nested/touching/identical CIDRs with excepts; all port-set shapes; with and without --focusworkload) '
                       'analysed by the real `list`; the verified checker wf_report_b runs on every report (one entry per pair, no self/IP-IP pair, no empty connection, '
                       'canonical connections, IP peers tile 0.0.0.0-255.255.255.255) and the peer list / IP partition is compared with the model\'s; '
                       'non-trivial = at least 3 peers and 2 entries; distinct by scenario hash')
    run.stage_proofs()
    b = core.build_go(['verifapi'], run.log)
    if not b['verifapi'][0]:
        run.proof_ok = False
        run.proof_notes.append('harness verifapi does not build against this tree: ' + b['verifapi'][1][-600:])
        return run.finish()
    n = 240 if tier == 'quick' else 6000
    h = listcorr.Harness()
    try:
        shard, k = 120, 0
        while k < n and len(run.violations) < 3:
            worlds = [(k + i, gen.gen_world(run.rng, anp=(i % 3 == 0), big=(tier != 'quick'))) for i in range(min(shard, n - k))]
            if k == 0:
                run.sample({'world': worlds[0][1]})

            def focus_of(cid, W, r=run.rng):
                if cid % 4 == 0 and W['workloads']:
                    w = r.choice(W['workloads'])
                    return r.choice([w['name'], w['ns'] + '/' + w['name']])
                return ''
            c01.run_worlds(run, h, worlds, prop_codes=(3, 5), wf_prop=True, nontriv=nontrivial, focus_of=focus_of)
            k += shard
    finally:
        h.close()
    return run.finish()


replay = c01.replay
