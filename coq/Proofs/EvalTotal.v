(* EvalTotal.v — where list can analyse a pair, eval answers for every point of that pair (C03's last clause):
   the rule walkers of check_eval.go evaluate a subset of what the connection-set computation evaluates.  No axioms. *)
From Coq Require Import List ZArith Bool String Lia ZifyBool.
From NP Require Import IntervalSet IntervalSetProofs ConnSet ConnSetProofs World Eval Spec EvalProofs EvalPoint EvalPointProofs.
Import ListNotations.
Open Scope list_scope.
Open Scope Z_scope.

Definition okb {A} (x : outcome A) : Prop := exists a, x = Ok a.

Lemma np_ports_total ports dst pr n : forall res c, np_ports_conns ports dst res = Ok c -> okb (np_ports_contain ports dst pr n).
Proof.
  induction ports as [|pp t IH]; intros res c H; cbn [np_ports_conns np_ports_contain] in *; [eexists; reflexivity|].
  destruct (pp_port pp) as [|a|nm] eqn:Hp.
  - cbn [bind] in H. destruct (IH _ _ H) as [rest Hr]. rewrite Hr. cbn [bind]. eexists; reflexivity.
  - destruct (get_ports_range pp dst) as [r|e]; cbn [bind] in *; [|discriminate H].
    destruct (IH _ _ H) as [rest Hr]. rewrite Hr. cbn [bind]. eexists; reflexivity.
  - destruct (get_ports_range pp dst) as [r|e]; cbn [bind] in *; [|discriminate H].
    destruct (IH _ _ H) as [rest Hr]. rewrite Hr. cbn [bind]. eexists; reflexivity.
Qed.

Lemma np_rule_total ports dst pr n c : np_rule_conns ports dst = Ok c -> okb (np_rule_contains ports dst pr n).
Proof.
  unfold np_rule_conns, np_rule_contains. destruct ports as [|pp t]; [intros _; eexists; reflexivity|]. apply np_ports_total.
Qed.

Lemma np_rules_total npns rules other dst pr n : forall res c,
  np_rules_conns npns rules other dst res = Ok c -> okb (np_rules_allow npns rules other dst pr n).
Proof.
  induction rules as [|r t IH]; intros res c H; cbn [np_rules_conns np_rules_allow] in *; [eexists; reflexivity|].
  destruct (np_rule_selects npns (nr_peers r) other) as [sel|e]; cbn [bind] in *; [|discriminate H].
  destruct sel; cbn [negb] in *; [|apply (IH _ _ H)].
  destruct (np_rule_conns (nr_ports r) dst) as [rc|e] eqn:Erc; cbn [bind] in H; [|discriminate H].
  destruct (np_rule_total _ _ pr n _ Erc) as [b Hb]. rewrite Hb. cbn [bind].
  destruct (IH _ _ H) as [rest Hr]. rewrite Hr. cbn [bind]. eexists; reflexivity.
Qed.

Lemma nps_total sel src dst ingress pr n : forall acc c,
  nps_union_conns sel src dst ingress acc = Ok c -> okb (nps_allow sel src dst ingress pr n).
Proof.
  induction sel as [|np t IH]; intros acc c H; cbn [nps_union_conns nps_allow] in *; [eexists; reflexivity|].
  destruct (np_dir_conns np src dst ingress) as [pc|e] eqn:Epc; cbn [bind] in H; [|discriminate H].
  assert (Hp : okb (np_policy_allows np src dst ingress pr n)).
  { unfold np_dir_conns in Epc. unfold np_policy_allows. destruct ingress; apply (np_rules_total _ _ _ _ pr n _ _ Epc). }
  destruct Hp as [b Hb]. rewrite Hb. cbn [bind]. destruct (IH _ _ H) as [rest Hr]. rewrite Hr. cbn [bind]. eexists; reflexivity.
Qed.

Lemma np_layer_total w src dst ingress pr n r : np_layer w src dst ingress = Ok r -> okb (np_layer_point w src dst ingress pr n).
Proof.
  unfold np_layer, np_layer_point. destruct (if ingress then dst else src) as [p nsl|b]; [|intros _; eexists; reflexivity].
  destruct (selecting_nps (w_nps w) p (if ingress then Ingress else Egress)) as [sel|e]; cbn [bind]; [|discriminate].
  destruct sel as [|np t]; [intros _; eexists; reflexivity|].
  destruct (nps_union_conns (np :: t) src dst ingress (cs_make false)) as [c|e] eqn:Ec; cbn [bind]; [|discriminate]. intros _.
  destruct (nps_total _ _ _ _ pr n _ _ Ec) as [b Hb]. rewrite Hb. cbn [bind]. eexists; reflexivity.
Qed.

(* ---- admin policies ---- *)
Lemma admin_ports_total ports dst pr n : forall res c, admin_ports_conns ports dst res = Ok c -> okb (admin_ports_contain ports dst pr n).
Proof.
  induction ports as [|ap t IH]; intros res c H; cbn [admin_ports_conns admin_ports_contain] in *; [eexists; reflexivity|].
  destruct ap as [p a|p lo hi|nm|]; [| | |discriminate H].
  - destruct (rule_port_contains p pr (Some (a, a)) n); [eexists; reflexivity|apply (IH _ _ H)].
  - destruct (rule_port_contains p pr (Some (lo, hi)) n); [eexists; reflexivity|apply (IH _ _ H)].
  - destruct dst as [d nsl|b]; [|apply (IH _ _ H)].
    destruct (pod_named_port (p_ports d) nm) as [[q m]|]; [|apply (IH _ _ H)].
    destruct (rule_port_contains q pr (Some (m, m)) n); [eexists; reflexivity|apply (IH _ _ H)].
Qed.

Lemma admin_rule_total ports dst pr n c : admin_rule_conns ports dst = Ok c -> okb (admin_rule_contains ports dst pr n).
Proof.
  unfold admin_rule_conns, admin_rule_contains. destruct ports as [l|]; [apply admin_ports_total|intros _; eexists; reflexivity].
Qed.

Lemma admin_rules_total rules other dst is_banp pr n : forall pc pc',
  admin_rules_conns rules other dst is_banp pc = Ok pc' -> okb (admin_rules_check rules other dst is_banp pr n).
Proof.
  induction rules as [|r t IH]; intros pc pc' H; cbn [admin_rules_conns admin_rules_check] in *; [eexists; reflexivity|].
  destruct (ar_peers r) as [|p0 pt]; [discriminate H|].
  destruct (admin_peers_select (p0 :: pt) other) as [sel|e]; cbn [bind] in *; [|discriminate H].
  destruct sel; cbn [negb] in *; [|apply (IH _ _ H)].
  destruct (admin_rule_conns (ar_ports r) dst) as [rc|e] eqn:Erc; cbn [bind] in H; [|discriminate H].
  destruct (pc_update pc rc (ar_action r) is_banp) as [pc1|e] eqn:Eu; cbn [bind] in H; [|discriminate H].
  destruct (admin_rule_total _ _ pr n _ Erc) as [b Hb]. rewrite Hb. cbn [bind]. destruct b; cbn [negb]; [|apply (IH _ _ H)].
  unfold pc_update in Eu. unfold res_of_action. destruct (ar_action r); try (eexists; reflexivity); try discriminate Eu.
  destruct is_banp; [discriminate Eu|eexists; reflexivity].
Qed.

Lemma anps_total anps src dst ingress pr n : forall pc pc',
  anps_conns anps src dst ingress pc = Ok pc' -> okb (anps_check anps src dst ingress pr n).
Proof.
  induction anps as [|a t IH]; intros pc pc' H; cbn [anps_conns anps_check] in *; [eexists; reflexivity|].
  set (rules := if ingress then a_in a else a_eg a) in *.
  destruct (admin_selects (a_subject a) rules (if ingress then dst else src)) as [sel|e]; cbn [bind] in *; [|discriminate H].
  destruct sel; cbn [negb] in *.
  - destruct (admin_rules_conns rules (if ingress then src else dst) dst false pc_new) as [single|e] eqn:Es; cbn [bind] in H; [|discriminate H].
    destruct (admin_rules_total _ _ _ _ pr n _ _ Es) as [rr Hr]. rewrite Hr. cbn [bind].
    destruct rr; try (eexists; reflexivity). apply (IH _ _ H).
  - cbn [bind] in H. apply (IH _ _ H).
Qed.

Lemma default_total w src dst ingress pr n dflt : default_conns w src dst ingress = Ok dflt -> okb (banp_check w src dst ingress pr n).
Proof.
  unfold default_conns, banp_check. destruct (w_banp w) as [b|]; [|intros _; eexists; reflexivity].
  set (rules := if ingress then b_in b else b_eg b).
  destruct (admin_selects (b_subject b) rules (if ingress then dst else src)) as [sel|e]; cbn [bind]; [|discriminate].
  destruct sel; cbn [negb]; [|intros _; eexists; reflexivity].
  destruct (admin_rules_conns rules (if ingress then src else dst) dst true pc_new) as [res|e] eqn:Er; cbn [bind]; [|discriminate]. intros _.
  destruct (admin_rules_total _ _ _ _ pr n _ _ Er) as [rr Hr]. rewrite Hr. cbn [bind].
  destruct rr; try (eexists; reflexivity).
  (* Pass cannot come out of a BANP walk that succeeded as a set computation *)
  exfalso. clear - Er Hr.
  assert (G : forall rules pc pc', admin_rules_conns rules (if ingress then src else dst) dst true pc = Ok pc' ->
              admin_rules_check rules (if ingress then src else dst) dst true pr n <> Ok RPass).
  { induction rules0 as [|r t IH]; intros pc pc' H; cbn [admin_rules_conns admin_rules_check] in *; [discriminate|].
    destruct (ar_peers r) as [|p0 pt]; [discriminate H|].
    destruct (admin_peers_select (p0 :: pt) (if ingress then src else dst)) as [sel|e]; cbn [bind] in *; [|discriminate H].
    destruct sel; cbn [negb] in *; [|apply (IH _ _ H)].
    destruct (admin_rule_conns (ar_ports r) dst) as [rc|e]; cbn [bind] in H; [|discriminate H].
    destruct (pc_update pc rc (ar_action r) true) as [pc1|e] eqn:Eu; cbn [bind] in H; [|discriminate H].
    destruct (admin_rule_contains (ar_ports r) dst pr n) as [b0|e]; cbn [bind]; [|discriminate].
    destruct b0; cbn [negb]; [|apply (IH _ _ H)].
    unfold pc_update in Eu. unfold res_of_action. destruct (ar_action r); try discriminate; discriminate Eu. }
  apply (G rules pc_new res Er Hr).
Qed.

Theorem xgress_total w src dst ingress c pr n :
  peer_okb dst = true -> world_okb w = true -> valid_port n = true ->
  xgress_conns w src dst ingress = Ok c -> okb (xgress_allowed w src dst ingress pr n).
Proof.
  intros Hd Hw Hv H. destruct (world_ok_parts w Hw) as (Hnps & Hanps & Hbanp).
  unfold xgress_conns in H. unfold xgress_allowed.
  destruct (anps_conns (w_anps w) src dst ingress pc_new) as [anpc|e] eqn:Hanp; cbn [bind] in H; [|discriminate H].
  destruct (anps_total _ _ _ _ pr n _ _ Hanp) as [a Ha]. rewrite Ha. cbn [bind].
  destruct a as [b|]; [eexists; reflexivity|].
  destruct (anps_conns_ok _ _ _ _ _ _ _ Hd Hanps pc_new_ok pc_new_repr Hanp) as [(Hpa & Hpd & Hpp) Hrepr].
  pose proof (anps_check_ok _ _ _ _ _ _ _ Ha) as Hck.
  destruct (negb (pc_isempty anpc) && pc_determines_all anpc) eqn:Eshort.
  - (* the ANPs decide every point: the walk cannot have come back undecided *)
    exfalso. apply andb_true_iff in Eshort. destruct Eshort as [_ Hall]. unfold pc_determines_all in Hall.
    destruct (Hrepr pr n Hv) as (RA & RD & _). cbn [vcomp] in RA, RD.
    assert (Hu : cs_denote (cs_union (pc_allow anpc) (pc_deny anpc)) pr n = true) by (rewrite (cs_all_denote _ pr n Hall); exact Hv).
    rewrite cs_union_denote in Hu by (apply cs_ninv_wf; assumption). rewrite RA, RD in Hu.
    destruct (s_anps_verdict (w_anps w) src dst ingress pr n); cbn [isA isD orb] in Hu; try discriminate Hu; discriminate Hck.
  - destruct (np_layer w src dst ingress) as [npc|e] eqn:Hnp; cbn [bind] in H; [|discriminate H].
    destruct (np_layer_total w src dst ingress pr n npc Hnp) as [np' Hnp']. rewrite Hnp'. cbn [bind].
    destruct np' as [b|]; [eexists; reflexivity|].
    pose proof (np_layer_point_ok _ _ _ _ _ _ _ Hnp') as Hpoint.
    pose proof (np_layer_ok w src dst ingress npc Hd Hnps Hnp) as Hset.
    destruct npc as [npa|].
    + exfalso. destruct Hset as [_ Hex]. destruct (Hex pr n) as (b0 & Hb0 & _). rewrite Hb0 in Hpoint. discriminate Hpoint.
    + destruct (default_conns w src dst ingress) as [dflt|e] eqn:Edf; cbn [bind] in H; [|discriminate H].
      apply (default_total w src dst ingress pr n dflt Edf).
Qed.

(* C03: where list can analyse the pair, eval answers for every point of it *)
Theorem eval_total_when_list_ok w src dst c pr n :
  peer_okb dst = true -> world_okb w = true -> valid_port n = true ->
  all_conns w src dst = Ok c -> exists b, check_allowed w src dst pr n = Ok b.
Proof.
  intros Hd Hw Hv H. unfold all_conns in H. unfold check_allowed. destruct (pod_to_itself src dst); [eexists; reflexivity|].
  destruct (xgress_conns w src dst false) as [eg|e] eqn:Eeg; cbn [bind] in H; [|discriminate H].
  destruct (xgress_total w src dst false eg pr n Hd Hw Hv Eeg) as [b Hb]. rewrite Hb. cbn [bind].
  destruct b; cbn [negb]; [|eexists; reflexivity].
  destruct (xgress_conns_ok w src dst false eg Hd Hw Eeg) as [_ Hden].
  pose proof (xgress_allowed_ok _ _ _ _ _ _ _ Hb) as Hsem.
  destruct (cs_isempty eg) eqn:Eemp.
  - exfalso. pose proof (cs_isempty_denote eg pr n Eemp) as H0. rewrite Hden, Hv, <- Hsem in H0. discriminate H0.
  - destruct (xgress_conns w src dst true) as [ing|e] eqn:Eing; cbn [bind] in H; [|discriminate H].
    apply (xgress_total w src dst true ing pr n Hd Hw Hv Eing).
Qed.
