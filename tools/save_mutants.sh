#!/bin/bash
# save_mutants.sh P OFFSET : copy the confirmed mutants /tmp/mut/P-out/m1..m3 to seeded/P-m<k+OFFSET> (patch, demo, meta with the
# confirmation record).  Run only after tools/confirm_mutant.sh printed CONFIRMED for each.
P=$1; OFF=${2:-3}; cd /verif
for k in 1 2 3; do n=$((k+OFF)); d=seeded/$P-m$n; [ -f /tmp/mut/$P-out/m$k/patch.diff ] || continue
  mkdir -p $d; cp -r /tmp/mut/$P-out/m$k/patch.diff /tmp/mut/$P-out/m$k/demo $d/
  python3 - $P $k $d $OFF <<'PY'
import json,sys
P,k,d,off=sys.argv[1:]
try: m=json.load(open(f'/tmp/mut/{P}-out/m{k}/meta.json'))
except Exception: m={}
m['property']=P; m['round']=int(off)//3+1
m['confirmed']={"how":"tools/confirm_mutant.sh in a scratch git worktree of /repo: patch applies, go build ./... and the pinned suite pass (only the baseline ipblockstest_4 failures), the demonstration fails with the change and passes without it","suite_passed":True,"demo_clean":"pass","demo_mutant":"fail"}
json.dump(m,open(d+'/meta.json','w'),indent=1)
PY
done
