(* ConnSet.v — operation-by-operation mirror of
     /repo/pkg/netpol/internal/common/portset.go        (PortSet)
     /repo/pkg/netpol/internal/common/connectionset.go  (ConnectionSet)
   Go maps from protocol to *PortSet become a record with three optional fields; Go
   map[string]bool name sets become sorted duplicate-free string lists (so that Go's
   reflect.DeepEqual on the maps is list equality here).  Mutation through a pointer becomes
   a function returning the new value.  Executable definitions only. *)
From Coq Require Import List ZArith Bool String Ascii DecimalString.
From NP Require Import IntervalSet.
Import ListNotations.
Open Scope string_scope.
Open Scope list_scope.
Open Scope Z_scope.

Definition minPort : Z := 1.
Definition maxPort : Z := 65535.

Inductive proto := TCP | UDP | SCTP.
Definition proto_eqb (a b : proto) : bool :=
  match a, b with TCP, TCP | UDP, UDP | SCTP, SCTP => true | _, _ => false end.
Definition all_protos : list proto := [TCP; UDP; SCTP].
Definition proto_str (p : proto) : string :=
  match p with TCP => "TCP" | UDP => "UDP" | SCTP => "SCTP" end.

(* ---- sorted string sets (Go: map[string]bool with all values true) ---- *)
Definition sset := list string.
Fixpoint sset_add (x : string) (s : sset) : sset :=
  match s with
  | [] => [x]
  | y :: t => match String.compare x y with
              | Lt => x :: s
              | Eq => s
              | Gt => y :: sset_add x t
              end
  end.
Fixpoint sset_del (x : string) (s : sset) : sset :=
  match s with
  | [] => []
  | y :: t => if String.eqb x y then t else y :: sset_del x t
  end.
Fixpoint sset_mem (x : string) (s : sset) : bool :=
  match s with [] => false | y :: t => String.eqb x y || sset_mem x t end.
Fixpoint sset_eqb (a b : sset) : bool :=
  match a, b with
  | [], [] => true
  | x :: a', y :: b' => String.eqb x y && sset_eqb a' b'
  | _, _ => false
  end.

(* ---- PortSet ---- *)
Record portset := mkPS { ps_ports : iset; ps_named : sset; ps_excl : sset }.

Definition ps_make (all : bool) : portset :=
  mkPS (if all then ifull minPort maxPort else []) [] [].

Definition ps_equal (p o : portset) : bool :=
  iset_eqb (ps_ports p) (ps_ports o) && sset_eqb (ps_named p) (ps_named o)
  && sset_eqb (ps_excl p) (ps_excl o).

Definition ps_isempty (p : portset) : bool :=
  iempty (ps_ports p) && match ps_named p with [] => true | _ => false end.

Definition ps_add_named (p : portset) (n : string) : portset :=
  mkPS (ps_ports p) (sset_add n (ps_named p)) (sset_del n (ps_excl p)).
Definition ps_add_num (p : portset) (n : Z) : portset :=
  mkPS (iadd_ivl (n, n) (ps_ports p)) (ps_named p) (ps_excl p).
(* the name is dropped without being recorded as excluded (ReplaceNamedPortWithMatchingPortNum) *)
Definition ps_drop_named (p : portset) (n : string) : portset :=
  mkPS (ps_ports p) (sset_del n (ps_named p)) (ps_excl p).
Definition ps_remove_named (p : portset) (n : string) : portset :=
  mkPS (ps_ports p) (sset_del n (ps_named p)) (sset_add n (ps_excl p)).
Definition ps_remove_num (p : portset) (n : Z) : portset :=
  mkPS (ihole_ivl (ps_ports p) (n, n)) (ps_named p) (ps_excl p).
Definition ps_add_range (p : portset) (lo hi : Z) : portset :=
  mkPS (iadd_ivl (lo, hi) (ps_ports p)) (ps_named p) (ps_excl p).

(* Union: ports united; other's names added (and un-excluded); other's excluded names added
   unless they are (now) named. *)
Definition ps_union (p o : portset) : portset :=
  let named' := fold_left (fun acc k => sset_add k acc) (ps_named o) (ps_named p) in
  let excl1  := fold_left (fun acc k => sset_del k acc) (ps_named o) (ps_excl p) in
  let excl'  := fold_left (fun acc k => if sset_mem k named' then acc else sset_add k acc)
                          (ps_excl o) excl1 in
  mkPS (iunion (ps_ports p) (ps_ports o)) named' excl'.

(* ContainedIn: the numbered ports are a subset, and every named port of p is a named port of o
   unless o holds all the port numbers *)
Definition ps_containedin (p o : portset) : bool :=
  isubset (ps_ports p) (ps_ports o)
  && match ps_named p with
     | [] => true
     | names => iset_eqb (ps_ports o) (ifull minPort maxPort) || forallb (fun n => sset_mem n (ps_named o)) names
     end.

Definition ps_inter (p o : portset) : portset :=
  mkPS (iinter (ps_ports p) (ps_ports o)) (ps_named p) (ps_excl p).

(* IsAll: all the port numbers and no excluded named port (named ports add nothing to the full range) *)
Definition ps_isall (p : portset) : bool :=
  iset_eqb (ps_ports p) (ifull minPort maxPort) && match ps_excl p with [] => true | _ => false end.

Definition ps_contains (p : portset) (n : Z) : bool := imem n (ps_ports p).

Definition ps_subtract (p o : portset) : portset :=
  mkPS (isub (ps_ports p) (ps_ports o))
       (fold_left (fun acc k => sset_del k acc) (ps_named o) (ps_named p))
       (fold_left (fun acc k => sset_add k acc) (ps_named o) (ps_excl p)).

(* ---- printing ---- *)
Definition Z_str (z : Z) : string :=
  if z <? 0 then String "-" (NilZero.string_of_uint (N.to_uint (Z.to_N (- z))))
  else NilZero.string_of_uint (N.to_uint (Z.to_N z)).

Fixpoint join (sep : string) (l : list string) : string :=
  match l with
  | [] => EmptyString
  | [x] => x
  | x :: t => (x ++ sep ++ join sep t)%string
  end.

Definition ivl_str (v : ivl) : string :=
  if fst v =? snd v then Z_str (fst v) else (Z_str (fst v) ++ "-" ++ Z_str (snd v))%string.

Definition iset_str (s : iset) : string :=
  match s with [] => "Empty" | _ => join "," (map ivl_str s) end.

Definition ps_string (p : portset) : string :=
  let res := iset_str (ps_ports p) in
  match ps_named p with
  | [] => res
  | names => ((if iempty (ps_ports p) then EmptyString else res ++ ",") ++ join "," names)%string
  end.

(* ---- ConnectionSet ---- *)
Record connset := mkCS { cs_all : bool; cs_tcp : option portset; cs_udp : option portset;
                         cs_sctp : option portset }.

Definition cs_get (c : connset) (p : proto) : option portset :=
  match p with TCP => cs_tcp c | UDP => cs_udp c | SCTP => cs_sctp c end.
Definition cs_set (c : connset) (p : proto) (v : option portset) : connset :=
  match p with
  | TCP => mkCS (cs_all c) v (cs_udp c) (cs_sctp c)
  | UDP => mkCS (cs_all c) (cs_tcp c) v (cs_sctp c)
  | SCTP => mkCS (cs_all c) (cs_tcp c) (cs_udp c) v
  end.
(* apply f to each protocol entry independently (a Go `range` whose body touches only the
   visited key: the iteration order cannot matter) *)
Definition cs_map (f : proto -> option portset -> option portset) (c : connset) : connset :=
  mkCS (cs_all c) (f TCP (cs_tcp c)) (f UDP (cs_udp c)) (f SCTP (cs_sctp c)).
Definition cs_len (c : connset) : nat :=
  List.length (filter (fun p => match cs_get c p with Some _ => true | None => false end) all_protos).

Definition cs_make (all : bool) : connset := mkCS all None None None.

Definition cs_isempty (c : connset) : bool := negb (cs_all c) && Nat.eqb (cs_len c) 0.

Definition cs_inter (c o : connset) : connset :=
  if cs_all o then c
  else if cs_all c then
    cs_map (fun p mine => match cs_get o p with Some x => Some x | None => mine end)
           (mkCS false (cs_tcp c) (cs_udp c) (cs_sctp c))
  else cs_map (fun p mine =>
                 match mine with
                 | None => None
                 | Some ps =>
                     match cs_get o p with
                     | None => None
                     | Some ops => let r := ps_inter ps ops in
                                   if ps_isempty r then None else Some r
                     end
                 end) c.

Definition cs_is_all_without_allowall (c : connset) : bool :=
  negb (cs_all c) &&
  forallb (fun p => match cs_get c p with Some ps => ps_isall ps | None => false end) all_protos.

Definition cs_check_all (c : connset) : connset :=
  if cs_is_all_without_allowall c then cs_make true else c.

Definition cs_union (c o : connset) : connset :=
  if cs_all c || cs_isempty o then c
  else if cs_all o then cs_make true
  else cs_check_all
         (cs_map (fun p mine =>
                    match mine, cs_get o p with
                    | Some ps, Some ops => Some (ps_union ps ops)
                    | Some ps, None => Some ps
                    | None, other => other
                    end) c).

Definition cs_addconn (c : connset) (p : proto) (ports : portset) : connset :=
  if ps_isempty ports then c
  else match cs_get c p with
       | Some mine => cs_set c p (Some (ps_union mine ports))
       | None => cs_set c p (Some ports)
       end.

Definition cs_add_all_conns (c : connset) : connset :=
  fold_left (fun acc p => cs_addconn acc p (ps_make true)) all_protos c.

Definition cs_subtract (c o : connset) : connset :=
  if cs_isempty o then c
  else if cs_all o then cs_make false
  else
    let c1 := if cs_all c
              then cs_add_all_conns (mkCS false (cs_tcp c) (cs_udp c) (cs_sctp c)) else c in
    cs_map (fun p mine =>
              match mine, cs_get o p with
              | Some ps, Some ops => if ps_containedin ps ops then None else Some (ps_subtract ps ops)
              | m, _ => m
              end) c1.

Definition cs_contains (c : connset) (p : proto) (port : Z) : bool :=
  if cs_all c then true
  else match cs_get c p with Some ps => ps_contains ps port | None => false end.

Definition cs_containedin (c o : connset) : bool :=
  if cs_all o then true
  else if cs_all c then false
  else forallb (fun p => match cs_get c p with
                         | None => true
                         | Some ps => match cs_get o p with
                                      | None => false
                                      | Some ops => ps_containedin ps ops
                                      end
                         end) all_protos.

Definition allConnsStr : string := "All Connections".
Definition noConnsStr  : string := "No Connections".

(* sort.Strings on "<PROTO> <ports>" strings: the protocols differ in their first letter,
   so the sorted order is SCTP, TCP, UDP whatever the port strings are. *)
Definition cs_string (c : connset) : string :=
  if cs_all c then allConnsStr
  else if cs_isempty c then noConnsStr
  else join ","
         (flat_map (fun p => match cs_get c p with
                             | Some ps => [(proto_str p ++ " " ++ ps_string ps)%string]
                             | None => []
                             end) [SCTP; TCP; UDP]).

Definition opt_ps_equal (a b : option portset) : bool :=
  match a, b with
  | None, None => true
  | Some x, Some y => ps_equal x y
  | _, _ => false
  end.

(* Go: AllowAll flags equal, same number of protocols, every protocol of conn present in other
   with equal ports. With equal lengths that is: same key set and equal values. *)
Definition cs_equal (c o : connset) : bool :=
  Bool.eqb (cs_all c) (cs_all o) && Nat.eqb (cs_len c) (cs_len o) &&
  forallb (fun p => match cs_get c p with
                    | None => true
                    | Some ps => match cs_get o p with
                                 | None => false
                                 | Some ops => ps_equal ps ops
                                 end
                    end) all_protos.

Definition cs_copy (c : connset) : connset := c.

(* GetNamedPorts: protocol -> names (only protocols with at least one name) *)
Definition cs_named_ports (c : connset) : list (proto * list string) :=
  flat_map (fun p => match cs_get c p with
                     | Some ps => match ps_named ps with [] => [] | ns => [(p, ns)] end
                     | None => []
                     end) all_protos.

Definition NoPort : Z := -1.

(* ReplaceNamedPortWithMatchingPortNum; the Go code dereferences AllowedProtocols[protocol]
   unguarded — every caller obtains (protocol, name) from GetNamedPorts, so the entry exists;
   on a missing entry the model leaves the set unchanged and the harness does not issue the call. *)
Definition cs_replace_named (c : connset) (p : proto) (name : string) (num : Z) : connset :=
  match cs_get c p with
  | None => c
  | Some ps =>
      let ps1 := if num =? NoPort then ps else ps_add_num ps num in
      cs_set c p (Some (ps_drop_named ps1 name))
  end.

(* ProtocolsAndPortsMap / ConnStrFromConnProperties: what a Peer2PeerConnection carries *)
Definition cs_ports_map (c : connset) : list (proto * iset) :=
  flat_map (fun p => match cs_get c p with Some ps => [(p, ps_ports ps)] | None => [] end)
           all_protos.

(* structural equality used by the correspondence check (field for field) *)
Definition cs_struct_eqb (a b : connset) : bool :=
  Bool.eqb (cs_all a) (cs_all b) && opt_ps_equal (cs_tcp a) (cs_tcp b)
  && opt_ps_equal (cs_udp a) (cs_udp b) && opt_ps_equal (cs_sctp a) (cs_sctp b).

(* ---- denotation over numeric points ---- *)
Definition valid_port (n : Z) : bool := (minPort <=? n) && (n <=? maxPort).
Definition cs_denote (c : connset) (p : proto) (n : Z) : bool :=
  valid_port n && cs_contains c p n.
