(* ListProofs.v — the report of Model/Connlist.v lists exactly the non-empty connection sets of
   the included peer pairs.  No axioms. *)
From Coq Require Import List ZArith Bool String Lia.
From NP Require Import IntervalSet ConnSet ConnSetProofs World Eval Spec EvalProofs Build Connlist.
Import ListNotations.
Open Scope list_scope.
Open Scope Z_scope.

Lemma s_dir_np_only w src dst ingress pr n :
  w_anps w = [] -> w_banp w = None ->
  s_dir_allows w src dst ingress pr n = s_np_only_dir w src dst ingress pr n.
Proof.
  intros Ha Hb. unfold s_dir_allows, s_np_only_dir, s_banp_allows. rewrite Ha, Hb. reflexivity.
Qed.

Lemma all_conns_np_only w src dst c :
  peer_okb dst = true -> world_okb w = true -> w_anps w = [] -> w_banp w = None ->
  all_conns w src dst = Ok c ->
  cs_ninv c /\
  forall pr n, cs_denote c pr n = valid_port n && (pod_to_itself src dst || s_np_only_allows w src dst pr n).
Proof.
  intros Hd Hw Ha Hb H. destruct (all_conns_ok _ _ _ _ Hd Hw H) as [Hc Hden].
  split; [exact Hc|]. intros pr n. rewrite Hden. unfold s_allows, s_np_only_allows.
  rewrite !s_dir_np_only by assumption. reflexivity.
Qed.

Lemma named_port_err_documented pp dst :
  get_ports_range pp dst = Err ErrNamedPortIP ->
  (exists nm, pp_port pp = PName nm) /\ peer_is_ip dst = true.
Proof.
  unfold get_ports_range. destruct (pp_port pp) as [|a|nm]; try discriminate.
  destruct dst as [d nsl|b].
  - destruct (pod_named_port (p_ports d) nm) as [[q m]|]; [destruct (proto_eqb q (pp_proto pp))|]; discriminate.
  - intros _. split; [eexists; reflexivity | reflexivity].
Qed.

(* ---------- rows ---------- *)
Definition entry_of (w : world) (focus : string) (s d : mpeer) (e : rentry) : Prop :=
  include_pair focus s d = true /\ re_src e = mp_r s /\ re_dst e = mp_r d /\
  exists sp dp, eval_peer w s = Ok sp /\ eval_peer w d = Ok dp /\
                all_conns w sp dp = Ok (re_conn e) /\ cs_isempty (re_conn e) = false.

Lemma pair_conns_inv w s d c :
  pair_conns w s d = Ok c ->
  exists sp dp, eval_peer w s = Ok sp /\ eval_peer w d = Ok dp /\ all_conns w sp dp = Ok c.
Proof.
  unfold pair_conns. destruct (eval_peer w s) as [sp|]; cbn [bind]; [|discriminate].
  destruct (eval_peer w d) as [dp|]; cbn [bind]; [|discriminate].
  intros H. exists sp, dp. auto.
Qed.

Lemma row_conns_sound w focus s ds : forall es,
  row_conns w focus s ds = Ok es ->
  forall e, In e es -> exists d, In d ds /\ entry_of w focus s d e.
Proof.
  induction ds as [|d t IH]; intros es H e He; cbn [row_conns] in H.
  - inversion H; subst es. contradiction.
  - destruct (include_pair focus s d) eqn:Hinc.
    + destruct (pair_conns w s d) as [c|] eqn:Hc; cbn [bind] in H; [|discriminate].
      destruct (row_conns w focus s t) as [rest|] eqn:Hr; cbn [bind] in H; [|discriminate].
      inversion H; subst es; clear H.
      destruct (cs_isempty c) eqn:Hemp.
      * destruct (IH _ eq_refl e He) as (d' & Hin & Hent). exists d'. split; [right; exact Hin | exact Hent].
      * destruct He as [<- | He].
        -- exists d. split; [left; reflexivity|]. unfold entry_of. cbn [re_src re_dst re_conn].
           destruct (pair_conns_inv _ _ _ _ Hc) as (sp & dp & H1 & H2 & H3).
           repeat split; try assumption. exists sp, dp. auto.
        -- destruct (IH _ eq_refl e He) as (d' & Hin & Hent). exists d'. split; [right; exact Hin | exact Hent].
    + destruct (IH _ H e He) as (d' & Hin & Hent). exists d'. split; [right; exact Hin | exact Hent].
Qed.

Lemma row_conns_complete w focus s ds : forall es,
  row_conns w focus s ds = Ok es ->
  forall d sp dp c, In d ds -> include_pair focus s d = true ->
    eval_peer w s = Ok sp -> eval_peer w d = Ok dp -> all_conns w sp dp = Ok c -> cs_isempty c = false ->
    In (mkRE (mp_r s) (mp_r d) c) es.
Proof.
  induction ds as [|d0 t IH]; intros es H d sp dp c Hin Hinc Hs Hd Hc Hne; [contradiction|].
  cbn [row_conns] in H.
  destruct Hin as [-> | Hin].
  - rewrite Hinc in H. unfold pair_conns in H. rewrite Hs, Hd in H. cbn [bind] in H. rewrite Hc in H. cbn [bind] in H.
    destruct (row_conns w focus s t) as [rest|]; cbn [bind] in H; [|discriminate].
    inversion H; subst es. rewrite Hne. left; reflexivity.
  - destruct (include_pair focus s d0).
    + destruct (pair_conns w s d0) as [c0|]; cbn [bind] in H; [|discriminate].
      destruct (row_conns w focus s t) as [rest|] eqn:Hr; cbn [bind] in H; [|discriminate].
      inversion H; subst es.
      pose proof (IH _ eq_refl d sp dp c Hin Hinc Hs Hd Hc Hne) as Hi.
      destruct (cs_isempty c0); [exact Hi | right; exact Hi].
    + eapply IH; eassumption.
Qed.

Lemma all_rows_sound w focus ss ds : forall es,
  all_rows w focus ss ds = Ok es ->
  forall e, In e es -> exists s d, In s ss /\ In d ds /\ entry_of w focus s d e.
Proof.
  induction ss as [|s t IH]; intros es H e He; cbn [all_rows] in H.
  - inversion H; subst es. contradiction.
  - destruct (row_conns w focus s ds) as [a|] eqn:Ha; cbn [bind] in H; [|discriminate].
    destruct (all_rows w focus t ds) as [b|] eqn:Hb; cbn [bind] in H; [|discriminate].
    inversion H; subst es. apply in_app_or in He. destruct He as [He | He].
    + destruct (row_conns_sound _ _ _ _ _ Ha e He) as (d & Hd & Hent). exists s, d. split; [left; reflexivity | auto].
    + destruct (IH _ eq_refl e He) as (s' & d & Hs & Hd & Hent). exists s', d. split; [right; exact Hs | auto].
Qed.

Lemma all_rows_complete w focus ss ds : forall es,
  all_rows w focus ss ds = Ok es ->
  forall s d sp dp c, In s ss -> In d ds -> include_pair focus s d = true ->
    eval_peer w s = Ok sp -> eval_peer w d = Ok dp -> all_conns w sp dp = Ok c -> cs_isempty c = false ->
    In (mkRE (mp_r s) (mp_r d) c) es.
Proof.
  induction ss as [|s0 t IH]; intros es H s d sp dp c Hs Hd Hinc Hsp Hdp Hc Hne; [contradiction|].
  cbn [all_rows] in H.
  destruct (row_conns w focus s0 ds) as [a|] eqn:Ha; cbn [bind] in H; [|discriminate].
  destruct (all_rows w focus t ds) as [b|] eqn:Hb; cbn [bind] in H; [|discriminate].
  inversion H; subst es. apply in_or_app.
  destruct Hs as [-> | Hs].
  - left. eapply row_conns_complete; eassumption.
  - right. eapply IH; eauto.
Qed.

(* ---------- the report ---------- *)
Lemma list_world_entries_sound w focus hi r :
  list_world w focus hi = Ok r ->
  forall e, In e (lr_entries r) ->
  exists s d sp dp,
    In s (mpeers_of w (ip_partition_of w)) /\ In d (mpeers_of w (ip_partition_of w)) /\
    include_pair focus s d = true /\
    re_src e = mp_r s /\ re_dst e = mp_r d /\
    eval_peer w s = Ok sp /\ eval_peer w d = Ok dp /\
    all_conns w sp dp = Ok (re_conn e) /\ cs_isempty (re_conn e) = false.
Proof.
  unfold list_world, ip_partition_of. intros H e He.
  destruct (w_pods w) eqn:Hp; [inversion H; subst r; contradiction|]. rewrite <- Hp in *.
  destruct (owners_consistent (w_pods w)); cbn [negb] in H; [|discriminate].
  destruct (referenced_blocks (w_nps w)) as [blocks|] eqn:Hb; cbn [bind] in H; [|discriminate].
  match type of H with (if ?c then _ else _) = _ => destruct c end; [inversion H; subst r; contradiction|].
  destruct (all_rows w focus _ _) as [es|] eqn:Hes; cbn [bind] in H; [|discriminate].
  inversion H; subst r. cbn [lr_entries] in He.
  destruct (all_rows_sound _ _ _ _ _ Hes e He) as (s & d & Hs & Hd & Hinc & Hsrc & Hdst & sp & dp & H1 & H2 & H3 & H4).
  exists s, d, sp, dp. auto 10.
Qed.

Lemma list_world_entries_complete w focus hi r :
  list_world w focus hi = Ok r -> lr_warn r = false -> w_pods w <> [] ->
  forall s d sp dp c,
    In s (mpeers_of w (ip_partition_of w)) -> In d (mpeers_of w (ip_partition_of w)) ->
    include_pair focus s d = true ->
    eval_peer w s = Ok sp -> eval_peer w d = Ok dp -> all_conns w sp dp = Ok c ->
    cs_isempty c = false ->
    In (mkRE (mp_r s) (mp_r d) c) (lr_entries r).
Proof.
  unfold list_world, ip_partition_of. intros H Hw Hne s d sp dp c Hs Hd Hinc Hsp Hdp Hc Hnemp.
  destruct (w_pods w) eqn:Hp; [contradiction|]. rewrite <- Hp in *.
  destruct (owners_consistent (w_pods w)); cbn [negb] in H; [|discriminate].
  destruct (referenced_blocks (w_nps w)) as [blocks|] eqn:Hb; cbn [bind] in H; [|discriminate].
  match type of H with (if ?c then _ else _) = _ => destruct c end; [inversion H; subst r; discriminate|].
  destruct (all_rows w focus _ _) as [es|] eqn:Hes; cbn [bind] in H; [|discriminate].
  inversion H; subst r. cbn [lr_entries].
  eapply all_rows_complete; eassumption.
Qed.
