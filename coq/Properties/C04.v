(* C04 — diff is pointwise exact with respect to the two connectivity reports.
   Statements only; proofs in Proofs/DiffProofs.v.
   The check runs the boolean checker [diff_exact_b] on the IMPLEMENTATION's diff against the
   implementation's two list reports; the theorems say what a `true` answer means for reports and diffs of
   any size.  Model/Diff.v also mirrors diff.go (diff_model), compared with the implementation on every run. *)
From Coq Require Import List ZArith Bool String.
From NP Require Import IntervalSet IntervalSetProofs ConnSet ConnSetProofs World Build Connlist Diff DiffProofs.
Import ListNotations.
Open Scope Z_scope.

(* the checker examines every pair of points: all workloads named by either report or the diff, and for
   every IP range named anywhere its first address and the address after its last one *)
Theorem C04_checker_examines_all_point_pairs es1 ps1 es2 ps2 d :
  diff_exact_b es1 ps1 es2 ps2 d = true ->
  forall s t, In s (pt_dedup (dpts ps1 ps2 d)) -> In t (pt_dedup (dpts ps1 ps2 d)) ->
    match s, t with
    | PA _, PA _ => d_covering d s t = []
    | _, _ => point_exact es1 ps1 es2 ps2 d s t = true
    end.
Proof. exact (diff_exact_b_spec es1 ps1 es2 ps2 d). Qed.
Print Assumptions C04_checker_examines_all_point_pairs.

(* at every examined point: no covering entry when both reports have none; otherwise exactly one, of type
   unchanged / changed / added / removed, carrying exactly c1 and c2, new/lost flags set iff the workload is
   absent from the other set *)
Theorem C04_point_exact_meaning es1 ps1 es2 ps2 d s t :
  point_exact es1 ps1 es2 ps2 d s t = true ->
  match lookup_pt es1 s t, lookup_pt es2 s t with
  | None, None => d_covering d s t = []
  | c1, c2 =>
      exists e, d_covering d s t = [e] /\
        match c1, c2 with
        | Some a, Some b => de_type e = (if cs_struct_eqb a b then DUnchanged else DChanged) /\ de_c1 e = a /\ de_c2 e = b /\
                            de_src_flag e = false /\ de_dst_flag e = false
        | None, Some b => de_type e = DAdded /\ cs_isempty (de_c1 e) = true /\ de_c2 e = b /\
                          de_src_flag e = want_flag (workloads_of_peers ps1) s /\ de_dst_flag e = want_flag (workloads_of_peers ps1) t
        | Some a, None => de_type e = DRemoved /\ de_c1 e = a /\ cs_isempty (de_c2 e) = true /\
                          de_src_flag e = want_flag (workloads_of_peers ps2) s /\ de_dst_flag e = want_flag (workloads_of_peers ps2) t
        | None, None => False
        end
  end.
Proof. exact (point_exact_meaning es1 ps1 es2 ps2 d s t). Qed.
Print Assumptions C04_point_exact_meaning.

(* the mirror of diff.go: equal connections on both sides classify as unchanged (so diff(A,A) has no
   added / removed / changed entry), and re-merging the IP ranges of a group covers the same addresses *)
Theorem C04_model_equal_is_unchanged w1 w2 s t a :
  classify w1 w2 (mkDP s t (Some a) (Some a)) = [mkDE s t a a DUnchanged false false].
Proof. exact (classify_equal_is_unchanged w1 w2 s t a). Qed.
Print Assumptions C04_model_equal_is_unchanged.

Theorem C04_model_merge_covers_same ranges a : imem a (icanon_of ranges) = existsb (in_ivl a) ranges.
Proof. exact (merged_ranges_cover_same ranges a). Qed.
Print Assumptions C04_model_merge_covers_same.

(* the checker is not vacuous *)
Example C04_checker_rejects_missing_entry :
  let c := mkCS false (Some (mkPS [(80, 80)] [] [])) None None in
  let es := [mkRE (RW "a") (RW "b") c] in
  let ps := [RIP 0 maxIP; RW "a"; RW "b"] in
  diff_exact_b es ps [] ps [] = false /\
  diff_exact_b es ps [] ps [mkDE (RW "a") (RW "b") c empty_cs DRemoved false false] = true /\
  diff_exact_b es ps [] ps [mkDE (RW "a") (RW "b") c empty_cs DRemoved true false] = false.
Proof. vm_compute. repeat split; reflexivity. Qed.
