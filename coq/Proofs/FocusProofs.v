(* FocusProofs.v — --focusworkload is a pure filter of the full report (C16), on the model of
   connlist.go (Model/Connlist.v).  No axioms. *)
From Coq Require Import List ZArith Bool String.
From NP Require Import IntervalSet ConnSet World Eval Build Connlist ListProofs.
Import ListNotations.
Open Scope list_scope.

Lemma mp_focus_empty m : mp_focus EmptyString m = true.
Proof. reflexivity. Qed.

Lemma include_pair_focus focus s d :
  include_pair focus s d = include_pair EmptyString s d && (mp_focus focus s || mp_focus focus d).
Proof. unfold include_pair. rewrite !mp_focus_empty. cbn [orb]. rewrite andb_true_r. reflexivity. Qed.

Lemma rentry_eta e : e = mkRE (re_src e) (re_dst e) (re_conn e).
Proof. destruct e; reflexivity. Qed.

(* every entry of the focused report is an entry of the unfocused report, with the same connection,
   and its source or destination matches the focus *)
Theorem focus_entries_subset w focus hi rf r0 :
  list_world w focus hi = Ok rf -> list_world w EmptyString hi = Ok r0 -> lr_warn rf = false -> w_pods w <> [] ->
  forall e, In e (lr_entries rf) ->
    In e (lr_entries r0) /\
    exists s d, In s (mpeers_of w (ip_partition_of w)) /\ In d (mpeers_of w (ip_partition_of w)) /\
                re_src e = mp_r s /\ re_dst e = mp_r d /\ (mp_focus focus s || mp_focus focus d) = true.
Proof.
  intros Hf H0 Hw Hne e He.
  destruct (list_world_entries_sound _ _ _ _ Hf e He) as (s & d & sp & dp & Hs & Hd & Hinc & Hsrc & Hdst & Hsp & Hdp & Hc & Hnemp).
  rewrite include_pair_focus in Hinc. apply andb_true_iff in Hinc. destruct Hinc as [Hinc0 Hfoc].
  split.
  - rewrite (rentry_eta e), Hsrc, Hdst.
    assert (Hw0 : lr_warn r0 = false).
    { unfold list_world in H0. destruct (w_pods w); [contradiction|].
      destruct (owners_consistent _); cbn [negb] in H0; [|discriminate].
      destruct (referenced_blocks (w_nps w)); cbn [bind] in H0; [|discriminate].
      cbn [String.eqb negb andb] in H0. destruct (all_rows _ _ _ _); cbn [bind] in H0; [|discriminate]. inversion H0; reflexivity. }
    eapply list_world_entries_complete; eassumption.
  - exists s, d. auto.
Qed.

(* every entry of the unfocused report whose source or destination matches the focus is in the
   focused report, with the same connection *)
Theorem focus_entries_complete w focus hi rf r0 :
  list_world w focus hi = Ok rf -> list_world w EmptyString hi = Ok r0 -> lr_warn rf = false -> w_pods w <> [] ->
  forall e s d, In e (lr_entries r0) ->
    In s (mpeers_of w (ip_partition_of w)) -> In d (mpeers_of w (ip_partition_of w)) ->
    re_src e = mp_r s -> re_dst e = mp_r d ->
    (forall s' d', In s' (mpeers_of w (ip_partition_of w)) -> In d' (mpeers_of w (ip_partition_of w)) ->
                   mp_r s' = mp_r s -> mp_r d' = mp_r d -> mp_focus focus s' || mp_focus focus d' = true) ->
    In e (lr_entries rf).
Proof.
  intros Hf H0 Hw Hne e s d He Hs Hd Hsrc Hdst Hfoc.
  destruct (list_world_entries_sound _ _ _ _ H0 e He) as (s' & d' & sp & dp & Hs' & Hd' & Hinc & Hsrc' & Hdst' & Hsp & Hdp & Hc & Hnemp).
  rewrite (rentry_eta e), Hsrc', Hdst'.
  eapply list_world_entries_complete; try eassumption.
  rewrite include_pair_focus, Hinc. cbn [andb]. apply Hfoc; try assumption; congruence.
Qed.

(* a focus that matches no peer (and is not the ingress-controller of an input with Ingress/Route
   objects) yields an empty result with a warning, not an error *)
Theorem focus_absent_empty_warning w focus blocks :
  w_pods w <> [] -> owners_consistent (w_pods w) = true -> referenced_blocks (w_nps w) = Ok blocks ->
  String.eqb focus EmptyString = false ->
  existsb (mp_focus focus) (mpeers_of w (ip_partition blocks)) = false ->
  list_world w focus false = Ok (mkLR [] [] true).
Proof.
  intros Hne Hc Hb Hf Hex. unfold list_world. destruct (w_pods w); [contradiction|].
  rewrite Hc, Hb. cbn [negb bind]. rewrite Hf, Hex. rewrite andb_false_r. reflexivity.
Qed.
