(* Build.v — from the parsed objects to the policy engine's state:
     /repo/pkg/netpol/eval/resources.go  (addObjectsByKind, insert*, sortAdminNetpolsByPriority,
                                          resolveMissingNamespaces, createPodOwnersMap, getDisjointIPBlocks)
     /repo/pkg/netpol/eval/internal/k8s/pod.go (PodFromCoreObject, PodsFromWorkloadObject)
   Go maps become association lists with insert-or-overwrite; sort.Slice is an abstract sort
   whose conflict detection is the subject of C19 (Proofs/AbstractSort.v).
   Executable definitions only. *)
From Coq Require Import List ZArith Bool String Ascii.
From NP Require Import IntervalSet ConnSet World.
Import ListNotations.
Open Scope string_scope.
Open Scope list_scope.
Open Scope Z_scope.

Definition K8sNsNameLabelKey : string := "kubernetes.io/metadata.name".
Definition MinANPPriority : Z := 0.
Definition MaxANPPriority : Z := 1000.

(* conflict classes (ErrConflict k) *)
Definition cf_same_priority : nat := 1%nat.
Definition cf_priority_range : nat := 2%nat.
Definition cf_anp_same_name : nat := 3%nat.
Definition cf_np_same_name : nat := 4%nat.
Definition cf_second_banp : nat := 5%nat.
Definition cf_banp_name : nat := 6%nat.
Definition cf_owner_labels : nat := 7%nat.
Definition cf_pod_no_ip : nat := 8%nat.

(* a Pod manifest: owner = first ownerReference whose controller flag is true (kind Node ignored) *)
Record pod_doc := mkPodDoc { pd_ns : string; pd_name : string; pd_labels : labels; pd_ports : list cport;
                             pd_owner : option (string * string) (* name, kind *); pd_has_ip : bool }.
Record workload_doc := mkWl { wl_kind : string; wl_ns : string; wl_name : string; wl_replicas : option Z;
                              wl_labels : labels; wl_ports : list cport }.

Inductive obj :=
| ONamespace (n : namespace)            (* labels as written in the manifest *)
| ONetpol (np : netpol)
| OPod (p : pod_doc)
| OWorkload (wl : workload_doc)
| OAnp (a : anp)
| OBanp (b : banp)
| OOther.                               (* Service / Ingress / Route: not inserted *)

Record engine := mkEngine {
  e_nss : list namespace; e_pods : list pod; e_nps : list netpol;
  e_anps : list anp; e_anp_names : list string; e_banp : option banp
}.
Definition engine0 : engine := mkEngine [] [] [] [] [] None.

Definition ns_with_name_label (n : namespace) : namespace :=
  match lookup K8sNsNameLabelKey (ns_labels n) with
  | Some _ => n
  | None => mkNs (ns_name n) (ns_labels n ++ [(K8sNsNameLabelKey, ns_name n)])
  end.

Fixpoint upsert_ns (n : namespace) (l : list namespace) : list namespace :=
  match l with
  | [] => [n]
  | m :: t => if String.eqb (ns_name n) (ns_name m) then n :: t else m :: upsert_ns n t
  end.

Definition pod_key (p : pod) : string := p_ns p ++ "/" ++ p_name p.
Fixpoint upsert_pod (p : pod) (l : list pod) : list pod :=
  match l with
  | [] => [p]
  | q :: t => if String.eqb (pod_key p) (pod_key q) then p :: t else q :: upsert_pod p t
  end.

Definition pods_of_workload (wl : workload_doc) : list pod :=
  let n := match wl_replicas wl with Some r => if 1 <? r then 2%nat else 1%nat | None => 1%nat end in
  let mk i := mkPod (wl_ns wl) (wl_name wl ++ "-" ++ i) (wl_labels wl) (wl_ports wl) (wl_name wl) (wl_kind wl) false in
  match n with
  | 1%nat => [mk "1"]
  | _ => [mk "1"; mk "2"]
  end.

(* DaemonSet and CronJob always have one replica *)
Definition norm_workload (wl : workload_doc) : workload_doc :=
  if String.eqb (wl_kind wl) "DaemonSet" || String.eqb (wl_kind wl) "CronJob"
  then mkWl (wl_kind wl) (wl_ns wl) (wl_name wl) None (wl_labels wl) (wl_ports wl) else wl.

Definition pod_of_doc (d : pod_doc) : pod :=
  match pd_owner d with
  | Some (n, k) => mkPod (pd_ns d) (pd_name d) (pd_labels d) (pd_ports d) n k false
  | None => mkPod (pd_ns d) (pd_name d) (pd_labels d) (pd_ports d) "" "" false
  end.

Definition np_default_ns (np : netpol) : netpol :=
  if String.eqb (np_ns np) ""
  then mkNetpol "default" (np_name np) (np_sel np) (np_types np) (np_in np) (np_eg np) else np.

Definition insert_obj (e : engine) (o : obj) : outcome engine :=
  match o with
  | ONamespace n => Ok (mkEngine (upsert_ns (ns_with_name_label n) (e_nss e)) (e_pods e) (e_nps e) (e_anps e) (e_anp_names e) (e_banp e))
  | ONetpol np0 =>
      let np := np_default_ns np0 in
      if existsb (fun q => String.eqb (np_ns q) (np_ns np) && String.eqb (np_name q) (np_name np)) (e_nps e)
      then Err (ErrConflict cf_np_same_name)
      else Ok (mkEngine (e_nss e) (e_pods e) (e_nps e ++ [np]) (e_anps e) (e_anp_names e) (e_banp e))
  | OPod d =>
      if negb (pd_has_ip d) then Err (ErrConflict cf_pod_no_ip)
      else Ok (mkEngine (e_nss e) (upsert_pod (pod_of_doc d) (e_pods e)) (e_nps e) (e_anps e) (e_anp_names e) (e_banp e))
  | OWorkload wl =>
      Ok (mkEngine (e_nss e) (fold_left (fun acc p => upsert_pod p acc) (pods_of_workload (norm_workload wl)) (e_pods e))
                   (e_nps e) (e_anps e) (e_anp_names e) (e_banp e))
  | OAnp a =>
      if str_mem (a_name a) (e_anp_names e) then Err (ErrConflict cf_anp_same_name)
      else Ok (mkEngine (e_nss e) (e_pods e) (e_nps e) (e_anps e ++ [a]) (a_name a :: e_anp_names e) (e_banp e))
  | OBanp b =>
      match e_banp e with
      | Some _ => Err (ErrConflict cf_second_banp)
      | None => if String.eqb (b_name b) "default"
                then Ok (mkEngine (e_nss e) (e_pods e) (e_nps e) (e_anps e) (e_anp_names e) (Some b))
                else Err (ErrConflict cf_banp_name)
      end
  | OOther => Ok e
  end.

Fixpoint insert_objs (e : engine) (os : list obj) : outcome engine :=
  match os with
  | [] => Ok e
  | o :: t => do e' <- insert_obj e o; insert_objs e' t
  end.

(* ---- sortAdminNetpolsByPriority.
   The result list is the stable insertion sort by priority (any correct sort gives the same
   list when priorities are pairwise distinct: Proofs/AbstractSort.v, sorted_perm_unique);
   the error is what ANY correct comparison sort running the Go callback must record
   (Proofs/AbstractSort.v, sort_detects_conflict). *)
Definition valid_priority (p : Z) : bool := (MinANPPriority <=? p) && (p <=? MaxANPPriority).

Fixpoint insert_by_prio (a : anp) (l : list anp) : list anp :=
  match l with
  | [] => [a]
  | b :: t => if a_prio a <? a_prio b then a :: l else b :: insert_by_prio a t
  end.
Definition sort_by_prio (l : list anp) : list anp := fold_right insert_by_prio [] l.

Fixpoint has_dup_prio (l : list anp) : bool :=
  match l with
  | [] => false
  | a :: t => existsb (fun b => a_prio a =? a_prio b) t || has_dup_prio t
  end.

Definition sort_anps (l : list anp) : outcome (list anp) :=
  match l with
  | [a] => if valid_priority (a_prio a) then Ok l else Err (ErrConflict cf_priority_range)
  | _ =>
      if has_dup_prio l then Err (ErrConflict cf_same_priority)
      else if negb (forallb (fun a => valid_priority (a_prio a)) l) then Err (ErrConflict cf_priority_range)
      else Ok (sort_by_prio l)
  end.

(* resolveMissingNamespaces *)
Definition resolve_missing_ns (nss : list namespace) (pods : list pod) : list namespace :=
  fold_left (fun acc p => match find_ns (p_ns p) acc with
                          | Some _ => acc
                          | None => acc ++ [mkNs (p_ns p) [(K8sNsNameLabelKey, p_ns p)]]
                          end) pods nss.

(* NewPolicyEngineWithObjects *)
Definition build_world (os : list obj) : outcome world :=
  do e <- insert_objs engine0 os;
  do sorted <- sort_anps (e_anps e);
  Ok (mkWorld (resolve_missing_ns (e_nss e) (e_pods e)) (e_pods e) (e_nps e) sorted (e_banp e)).

(* ---- labels as maps: equality up to order ---- *)
Definition labels_sub (a b : labels) : bool :=
  forallb (fun kv => match lookup (fst kv) b with Some v => String.eqb v (snd kv) | None => false end) a.
Definition labels_eq (a b : labels) : bool := labels_sub a b && labels_sub b a.

(* createPodOwnersMap's consistency check: pods sharing (namespace, owner name) have equal labels *)
Fixpoint owners_consistent (pods : list pod) : bool :=
  match pods with
  | [] => true
  | p :: t =>
      (String.eqb (p_owner_name p) "" ||
       forallb (fun q => negb (String.eqb (p_ns q) (p_ns p) && String.eqb (p_owner_name q) (p_owner_name p))
                         || labels_eq (p_labels p) (p_labels q)) t)
      && owners_consistent t
  end.

(* workload peer identity: namespace/name[Kind] *)
Definition wl_name_of (p : pod) : string :=
  if String.eqb (p_owner_name p) "" then p_name p else p_owner_name p.
Definition wl_kind_of (p : pod) : string :=
  if String.eqb (p_owner_kind p) "" then "Pod" else p_owner_kind p.
Definition wl_str (p : pod) : string :=
  if p_fake p then "{" ++ p_name p ++ "}"
  else p_ns p ++ "/" ++ wl_name_of p ++ "[" ++ wl_kind_of p ++ "]".

(* one pod per workload string (the last one met, as the Go map assignment leaves it) *)
Fixpoint workloads_of (pods : list pod) (acc : list (string * pod)) : list (string * pod) :=
  match pods with
  | [] => acc
  | p :: t =>
      let k := wl_str p in
      workloads_of t (if existsb (fun e => String.eqb (fst e) k) acc
                      then map (fun e => if String.eqb (fst e) k then (k, p) else e) acc
                      else acc ++ [(k, p)])
  end.

(* ---- referenced IP blocks and the disjoint partition ---- *)
Definition maxIP : Z := 4294967295.

Fixpoint peers_blocks (peers : list np_peer) : outcome (list ivl) :=
  match peers with
  | [] => Ok []
  | NPIP c ex :: t => do r <- peers_blocks t; Ok (rule_block c ex ++ r)
  | NPIPBad :: t => Err ErrCidr
  | _ :: t => peers_blocks t
  end.

Fixpoint rules_blocks (rules : list np_rule) : outcome (list ivl) :=
  match rules with
  | [] => Ok []
  | r :: t => do a <- peers_blocks (nr_peers r); do b <- rules_blocks t; Ok (a ++ b)
  end.

(* GetReferencedIPBlocks over all policies *)
Fixpoint referenced_blocks (nps : list netpol) : outcome (list ivl) :=
  match nps with
  | [] => Ok []
  | np :: t => do a <- rules_blocks (np_in np); do b <- rules_blocks (np_eg np);
               do c <- referenced_blocks t; Ok (a ++ b ++ c)
  end.

(* sorted duplicate-free insertion *)
Fixpoint zinsert (x : Z) (l : list Z) : list Z :=
  match l with
  | [] => [x]
  | y :: t => if x <? y then x :: l else if x =? y then l else y :: zinsert x t
  end.

(* consecutive cut points c1 < c2 < ... < ck  =>  [c1, c2-1], ..., [c(k-1), ck - 1] *)
Fixpoint blocks_of_cuts (cuts : list Z) : list ivl :=
  match cuts with
  | a :: ((b :: _) as t) => (a, b - 1) :: blocks_of_cuts t
  | _ => []
  end.

(* netset.DisjointIPBlocks(referenced, [0.0.0.0/0]): the elementary partition induced by all
   interval end points (the library's own algorithm is outside /repo; that its result is this
   partition is checked by the correspondence on every run) *)
Definition ip_partition (blocks : list ivl) : list ivl :=
  let cuts := fold_left (fun acc b => zinsert (fst b) (zinsert (snd b + 1) acc)) blocks [0; maxIP + 1] in
  blocks_of_cuts cuts.
