# C19 — conflicting policy sets are always rejected, never resolved by input order.
# Valid worlds with 1..N AdminNetworkPolicies plus one injected conflict of each kind, at random
# positions and in sorted / reversed / random document order, through the real `list` and `diff`:
# the implementation must fail with an error naming the conflict; conflict-free controls must not
# be rejected; the outcome is also compared with the model (Model/Build.v build_world).
import copy
from . import c01
from .lib import core, gen, listcorr

KINDS = ['same_priority', 'priority_range', 'anp_name', 'np_name', 'second_banp', 'banp_name', 'owner_labels', 'none']
EXPECT = {'same_priority': 'have same priority', 'priority_range': 'Invalid Priority Value', 'anp_name': 'is already found',
          'np_name': 'already exists', 'second_banp': 'only one baseline admin network policy', 'banp_name': 'metadata.name=default',
          'owner_labels': 'different set of labels'}


def simple_anp(r, name, prio):
    return {'name': name, 'priority': prio, 'subject': {'namespaces': {}},
            'ingress': [{'name': 'r', 'action': r.choice(['Allow', 'Deny', 'Pass']), 'from': [{'namespaces': {}}],
                         'ports': [{'portNumber': {'protocol': 'TCP', 'port': r.choice(gen.PORTS)}}]}]}


def gen_case(r, tier):
    maxn = 40 if tier == 'quick' else 120
    n = r.choice([1, 1, 2, 2, 3, 5, 8, 12, 13, 20, 30, maxn])
    W = gen.gen_world(r, anp=False, pods=False)
    prios = r.sample(range(0, 1001), n)
    W['anps'] = [simple_anp(r, 'anp%d' % i, p) for i, p in enumerate(prios)]
    kind = r.choice(KINDS)
    if kind == 'same_priority':
        if n == 1:
            W['anps'].append(simple_anp(r, 'anpx', prios[0]))
        else:
            i, j = r.sample(range(n), 2)
            W['anps'][i]['priority'] = W['anps'][j]['priority']
    elif kind == 'priority_range':
        W['anps'][r.randrange(n)]['priority'] = r.choice([-1, 1001, 5000, -100])
    elif kind == 'anp_name':
        o = W['anps'][r.randrange(n)]
        # the second one has another priority, or (a copy edited in place) the very same one
        W['anps'].append(simple_anp(r, o['name'], o['priority'] if r.random() < 0.4 else r.choice([p for p in range(0, 1001) if p not in prios])))
    elif kind == 'np_name':
        if not W['netpols']:
            W['netpols'].append({'ns': W['workloads'][0]['ns'], 'name': 'np0', 'podSelector': {}})
        p = copy.deepcopy(r.choice(W['netpols']))
        p['podSelector'] = {}
        W['netpols'].append(p)
    elif kind == 'second_banp':
        W['banp'] = {'name': 'default', 'subject': {'namespaces': {}}, 'ingress': [{'name': 'b', 'action': 'Deny', 'from': [{'namespaces': {}}]}]}
        W['extra_banp'] = {'name': r.choice(['default', 'other']), 'subject': {'namespaces': {}}, 'egress': [{'name': 'b', 'action': 'Allow', 'to': [{'namespaces': {}}]}]}
        if r.random() < 0.4:
            W['extra_banp'] = copy.deepcopy(W['banp'])      # the same manifest twice (e.g. in two files) is still two BANPs
    elif kind == 'banp_name':
        W['banp'] = {'name': r.choice(['Default', 'baseline', 'default2']), 'subject': {'namespaces': {}},
                     'ingress': [{'name': 'b', 'action': 'Deny', 'from': [{'namespaces': {}}]}]}
    elif kind == 'owner_labels':
        ns = W['workloads'][0]['ns']
        own = {'name': 'shared-owner', 'kind': 'ReplicaSet'}
        l1, l2 = r.choice([({'app': 'a'}, {'app': 'b'}), ({'app': 'a'}, {'app': 'a', 'tier': 'c'}), ({'app': 'a'}, {}),
                           ({'app': 'a'}, {'app': 'a', 'canary': ''}), ({'app': 'a', 'canary': ''}, {'app': 'a'}), ({'app': ''}, {}),
                           ({'app': 'a', 'tier': ''}, {'app': 'a', 'env': ''})])
        xo = r.random() < 0.5      # the controller reference listed after a non-controller owner
        pods = [{'kind': 'Pod', 'ns': ns, 'name': 'px1', 'labels': l1, 'ports': [], 'replicas': None, 'owner': own, 'extra_owner': xo},
                {'kind': 'Pod', 'ns': ns, 'name': 'px2', 'labels': l2, 'ports': [], 'replicas': None, 'owner': own, 'extra_owner': xo}]
        if r.random() < 0.4:   # a third, consistent pod so that the inconsistent pair is not the only pair
            pods.insert(r.randrange(3), {'kind': 'Pod', 'ns': ns, 'name': 'px0', 'labels': dict(l1), 'ports': [], 'replicas': None, 'owner': own})
        W['workloads'].extend(pods)
    if kind in ('none', 'np_name', 'owner_labels', 'banp_name'):
        # legal corner values that must NOT be taken for a conflict: the two ends of the priority range, an ANP that shares its name
        # with the BANP
        ps = [a['priority'] for a in W['anps']]
        if r.random() < 0.4 and 1000 not in ps:
            W['anps'][0]['priority'] = 1000
            ps = [a['priority'] for a in W['anps']]
        if r.random() < 0.4 and 0 not in ps and len(W['anps']) > 1:
            W['anps'][-1]['priority'] = 0
        if kind == 'none' and r.random() < 0.4 and not any(a['name'] == 'default' for a in W['anps']):
            W['anps'][r.randrange(len(W['anps']))]['name'] = 'default'
            if W.get('banp') is None:
                W['banp'] = {'name': 'default', 'subject': {'namespaces': {}}, 'ingress': [{'name': 'b', 'action': 'Deny', 'from': [{'namespaces': {}}]}]}
    order = r.choice(['sorted', 'reversed', 'random'])
    return W, kind, order, n


def docs_of(W, order, r):
    dl = gen.docs(W)
    if W.get('extra_banp'):
        b = W['extra_banp']
        dl.append((gen.banp_manifest(b), '(OBanp %s)' % gen.c_banp(b)))
    if order == 'reversed':
        dl.reverse()
    elif order == 'random':
        r.shuffle(dl)
    return dl


def main(tier):
    run = core.Run('C19', tier)
    run.cov['rule'] = ('valid worlds with 1..40 (thorough 120) AdminNetworkPolicies of distinct in-range priorities, plus one injected conflict per case '
                       '(same priority / priority out of 0..1000 incl. the single-ANP case / same ANP name / same NetworkPolicy name in a namespace / second BANP / '
                       'BANP not named default / pods of one owner with different labels) or none (control), documents in canonical, reversed or random order; '
                       'real `list` and `diff` must fail with an error naming the conflict, controls must succeed; outcome compared with the model; '
                       'non-trivial = a conflict was injected among at least 2 ANPs; distinct by (kind, n, order, scenario hash)')
    run.stage_proofs()
    b = core.build_go(['verifapi'], run.log)
    if not b['verifapi'][0]:
        run.proof_ok = False
        run.proof_notes.append('harness verifapi does not build against this tree: ' + b['verifapi'][1][-600:])
        return run.finish()
    n = 160 if tier == 'quick' else 3000
    h = listcorr.Harness()
    try:
        shard, k = 80, 0
        while k < n and len(run.violations) < 3:
            cmds, meta, cases = [], {}, []
            for i in range(min(shard, n - k)):
                cid = k + i
                W, kind, order, na = gen_case(run.rng, tier)
                dl = docs_of(W, order, run.rng)
                d = h.dir_for('c%d' % cid)
                gen.write_dir(d, [m for m, _ in dl])
                cmds.append({'id': str(cid), 'cmd': 'list', 'dir': d})
                cmds.append({'id': 'd%d' % cid, 'cmd': 'diff', 'dir': d, 'dir2': d})
                meta[cid] = (W, kind, order, na, dl)
                run.dist('kind:' + kind)
                run.dist('order:' + order)
                run.dist('anps<=3' if na <= 3 else 'anps<=12' if na <= 12 else 'anps>12')
            outs = h.run(cmds)
            run.count(len(meta))
            run.cov['traces_validated_against_impl'] += len(meta)
            if k == 0:
                W0, kind0, order0, na0, dl0 = meta[0]
                run.sample({'kind': kind0, 'order': order0, 'anps': na0, 'manifests': [m for m, _ in dl0][:6]})
            for j, cid in enumerate(sorted(meta)):
                W, kind, order, na, dl = meta[cid]
                ol, od = outs[2 * j], outs[2 * j + 1]
                cases.append((cid, [t for _, t in dl], '', ol))
                if kind != 'none' and na >= 2:
                    run.nontrivial([kind, na, order, [m for m, _ in dl]])
                payload = {'kind': 'conflict-injection', 'conflict': kind, 'order': order, 'anps': na, 'manifests': [m for m, _ in dl],
                           'list': {'outcome': ol['outcome'], 'err': ol.get('err', '')}, 'diff': {'outcome': od['outcome'], 'err': od.get('err', '')},
                           'how': 'write the manifests (one per file, in this order) to DIR and run `k8snetpolicy list --dirpath DIR` and `k8snetpolicy diff --dir1 DIR --dir2 DIR`'}
                for name, o in (('list', ol), ('diff', od)):
                    if o['outcome'] == 'panic':
                        run.report(None, 'panic-%d' % cid, payload, '%s panicked' % name)
                    elif kind == 'none':
                        if o['outcome'] != 'ok' and any(s in o.get('err', '') for s in EXPECT.values()):
                            run.report(None, 'false-conflict-%d' % cid, payload, '%s rejected a conflict-free input as conflicting' % name)
                    else:
                        if o['outcome'] == 'ok':
                            run.report(None, 'missed-%d' % cid, payload, '%s produced a report although the input contains a %s conflict' % (name, kind))
                        elif EXPECT[kind] not in o.get('err', '') and not any(s in o.get('err', '') for s in EXPECT.values()):
                            run.report(None, 'unnamed-%d' % cid, payload, '%s failed without naming the %s conflict' % (name, kind))
            mm = listcorr.model_mismatches(cases)
            for cid, code in mm:
                if code in (1, 5):
                    W, kind, order, na, dl = meta[cid]
                    run.report(None, 'model-%d' % cid, {'kind': 'conflict-model-correspondence', 'conflict': kind, 'order': order,
                                                        'manifests': [m for m, _ in dl], 'meaning': listcorr.CODES[code]},
                               'accept/reject outcome differs from the model (Model/Build.v)')
            k += shard
    finally:
        h.close()
    return run.finish()


def replay(payload):
    run = core.Run('C19', 'quick')
    run.stage_proofs()
    core.build_go(['verifapi'], run.log)
    h = listcorr.Harness()
    try:
        d = h.dir_for('r')
        gen.write_dir(d, payload['manifests'])
        outs = h.run([{'id': '1', 'cmd': 'list', 'dir': d}, {'id': '2', 'cmd': 'diff', 'dir': d, 'dir2': d}])
        kind = payload.get('conflict', 'none')
        for o in outs:
            if kind != 'none' and o['outcome'] == 'ok':
                run.report(None, 'replay', payload, 'report produced although the input contains a %s conflict' % kind)
            if o['outcome'] == 'panic':
                run.report(None, 'replay', payload, 'panic')
        run.count(1)
    finally:
        h.close()
    return run.finish()
