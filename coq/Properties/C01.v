(* C01 — list reports exactly what Kubernetes NetworkPolicy semantics allow.
   Statements only; proofs in Proofs/EvalProofs.v, Proofs/ListProofs.v.
   Model: Model/Eval.v (mirror of eval/check.go + internal/k8s/netpol.go), Model/Connlist.v
   (mirror of connlist.go), Spec: Model/Spec.v (pointwise NetworkPolicy semantics).
   [peer_okb] / [world_okb]: all port numbers lie in 1..65535 (what the API server enforces;
   the generator's valid stream satisfies it by construction). *)
From Coq Require Import List ZArith Bool String.
From NP Require Import IntervalSet ConnSet ConnSetProofs World Eval Spec EvalProofs Build Connlist ListProofs PartitionProofs.
Import ListNotations.
Open Scope Z_scope.

(* Between any two peers (workload pods, or a pod and an IP block / single address): whenever
   the analysis succeeds, the computed connection set contains (pr, n) iff the NetworkPolicy
   semantics allow it in both directions; and the set is in canonical form. *)
Theorem C01_pair_exact w src dst c :
  peer_okb dst = true -> world_okb w = true -> w_anps w = [] -> w_banp w = None ->
  all_conns w src dst = Ok c ->
  cs_ninv c /\
  forall pr n, cs_denote c pr n = valid_port n && (pod_to_itself src dst || s_np_only_allows w src dst pr n).
Proof. exact (all_conns_np_only w src dst c). Qed.
Print Assumptions C01_pair_exact.

(* the NetworkPolicy layer alone, per direction (used by C14 as well) *)
Theorem C01_np_layer_exact w src dst ingress r :
  peer_okb dst = true -> forallb netpol_okb (w_nps w) = true ->
  np_layer w src dst ingress = Ok r ->
  match r with
  | None => forall pr n, s_np_layer w src dst ingress pr n = None
  | Some c => cs_ninv c /\
              forall pr n, exists b, s_np_layer w src dst ingress pr n = Some b /\
                                     cs_denote c pr n = valid_port n && b
  end.
Proof. exact (np_layer_ok w src dst ingress r). Qed.
Print Assumptions C01_np_layer_exact.

(* The report: an entry (s, d, c) is listed exactly for the included ordered pairs of peers whose
   connection set c = all_conns is not empty, carrying that set. *)
Theorem C01_report_entries w focus hi r :
  list_world w focus hi = Ok r ->
  forall e, In e (lr_entries r) ->
  exists s d sp dp,
    In s (mpeers_of w (ip_partition_of w)) /\ In d (mpeers_of w (ip_partition_of w)) /\
    include_pair focus s d = true /\
    re_src e = mp_r s /\ re_dst e = mp_r d /\
    eval_peer w s = Ok sp /\ eval_peer w d = Ok dp /\
    all_conns w sp dp = Ok (re_conn e) /\ cs_isempty (re_conn e) = false.
Proof. exact (list_world_entries_sound w focus hi r). Qed.
Print Assumptions C01_report_entries.

Theorem C01_report_complete w focus hi r :
  list_world w focus hi = Ok r -> lr_warn r = false -> w_pods w <> [] ->
  forall s d sp dp c,
    In s (mpeers_of w (ip_partition_of w)) -> In d (mpeers_of w (ip_partition_of w)) ->
    include_pair focus s d = true ->
    eval_peer w s = Ok sp -> eval_peer w d = Ok dp -> all_conns w sp dp = Ok c ->
    cs_isempty c = false ->
    In (mkRE (mp_r s) (mp_r d) c) (lr_entries r).
Proof. exact (list_world_entries_complete w focus hi r). Qed.
Print Assumptions C01_report_complete.

(* the only documented deviation: an error for a named port on an IP destination arises only
   from a rule that carries a named port and is evaluated against an IP peer *)
Theorem C01_named_port_error_documented pp dst :
  get_ports_range pp dst = Err ErrNamedPortIP ->
  (exists nm, pp_port pp = PName nm) /\ peer_is_ip dst = true.
Proof. exact (named_port_err_documented pp dst). Qed.
Print Assumptions C01_named_port_error_documented.

(* the IP peers of a report are the blocks of the partition induced by every ipBlock (and except) of every rule: what the
   analysis says of a block holds for every single address in it, as source and as destination (admin policies included) *)
Theorem C01_block_answer_holds_for_every_address w blocks P x :
  referenced_blocks (w_nps w) = Ok blocks -> In P (ip_partition blocks) -> fst P <= x <= snd P ->
  (forall dst pr n, s_allows w (PIP P) dst pr n = s_allows w (PIP (x, x)) dst pr n) /\
  (forall src pr n, s_allows w src (PIP P) pr n = s_allows w src (PIP (x, x)) pr n).
Proof. exact (block_answer_holds_for_every_address w blocks P x). Qed.
Print Assumptions C01_block_answer_holds_for_every_address.

(* no cut point of any referenced interval falls strictly inside a block *)
Theorem C01_rule_intervals_constant_on_blocks blocks iv P x y :
  In iv blocks -> In P (ip_partition blocks) ->
  fst P <= x <= snd P -> fst P <= y <= snd P -> in_ivl x iv = in_ivl y iv.
Proof. exact (interval_constant_on_block blocks iv P x y). Qed.
Print Assumptions C01_rule_intervals_constant_on_blocks.
