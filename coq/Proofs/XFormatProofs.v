(* XFormatProofs.v — the txt output of `list --exposure` is a function of the multiset of connections, of the
   set of exposed workloads and, per workload and direction, of the multiset of its exposure entries. *)
From Coq Require Import List ZArith Bool String Ascii Lia Permutation Sorted.
From NP Require Import IntervalSet ConnSet World Build Connlist Diff Format XFormat SortGeneric FormatProofs DotProofs.
Import ListNotations.
Open Scope string_scope.

Definition xp_equiv (p q : xpeer) : Prop :=
  xp_str p = xp_str q /\ xp_ing_prot p = xp_ing_prot q /\ xp_eg_prot p = xp_eg_prot q /\
  Permutation (xp_ing p) (xp_ing q) /\ Permutation (xp_eg p) (xp_eg q).

Lemma flat_map_forall2 {A B} (f g : A -> list B) l l' :
  Forall2 (fun x y => Permutation (f x) (g y)) l l' -> Permutation (flat_map f l) (flat_map g l').
Proof. intros H. induction H as [|x y l l' Hxy _ IH]; cbn [flat_map]; [constructor|]. apply Permutation_app; assumption. Qed.

Lemma forall2_impl {A B} (P Q : A -> B -> Prop) l l' : (forall x y, P x y -> Q x y) -> Forall2 P l l' -> Forall2 Q l l'.
Proof. intros H F. induction F; constructor; auto. Qed.

Lemma forall2_refl_ext {A B} (f g : A -> list B) l :
  (forall x, Permutation (f x) (g x)) -> Forall2 (fun x y => Permutation (f x) (g y)) l l.
Proof. intros H. induction l; constructor; auto. Qed.

Lemma ip_rows_perm es es' ingress peer : Permutation es es' -> Permutation (ip_rows es ingress peer) (ip_rows es' ingress peer).
Proof. intros P. unfold ip_rows. apply flat_map_perm. exact P. Qed.

Lemma xgress_rows_equiv es es' ingress p q :
  Permutation es es' -> xp_equiv p q -> Permutation (xgress_rows es ingress p) (xgress_rows es' ingress q).
Proof.
  intros Pe (E1 & E2 & E3 & P1 & P2). unfold xgress_rows. rewrite E1, E2, E3. apply Permutation_app.
  - destruct ingress.
    + destruct (xp_ing_prot q); [apply Permutation_map; exact P1|apply Permutation_refl].
    + destruct (xp_eg_prot q); [apply Permutation_map; exact P2|apply Permutation_refl].
  - apply ip_rows_perm. exact Pe.
Qed.

Lemma xp_equiv_refl p : xp_equiv p p.
Proof. repeat split; apply Permutation_refl. Qed.

Lemma max_peer_len_perm xps xps' : Permutation xps xps' -> max_peer_len xps = max_peer_len xps'.
Proof.
  intros P. unfold max_peer_len. induction P as [|x l l' P IH|x y l|l l' l'' P1 IH1 P2 IH2]; cbn [fold_right].
  - reflexivity.
  - rewrite IH. reflexivity.
  - lia.
  - congruence.
Qed.

Lemma max_peer_len_equiv xps xps' : Forall2 xp_equiv xps xps' -> max_peer_len xps = max_peer_len xps'.
Proof.
  intros H. unfold max_peer_len. induction H as [|p q l l' (E & _) _ IH]; cbn [fold_right]; [reflexivity|]. rewrite E, IH. reflexivity.
Qed.

Lemma unprotected_equiv xps xps' : Forall2 xp_equiv xps xps' -> flat_map unprotected_lines xps = flat_map unprotected_lines xps'.
Proof.
  intros H. induction H as [|p q l l' (E1 & E2 & E3 & _) _ IH]; cbn [flat_map]; [reflexivity|].
  unfold unprotected_lines at 1 3. rewrite E1, E2, E3, IH. reflexivity.
Qed.

Lemma rows_equiv es es' ingress xps mid xps' :
  Permutation es es' -> Permutation xps mid -> Forall2 xp_equiv mid xps' ->
  rowsort (flat_map (xgress_rows es ingress) xps) = rowsort (flat_map (xgress_rows es' ingress) xps').
Proof.
  intros Pe Pm Hq. apply rowsort_perm_invariant.
  eapply Permutation_trans; [apply flat_map_perm; exact Pm|].
  apply flat_map_forall2. eapply forall2_impl; [|exact Hq]. intros p q Hpq. apply xgress_rows_equiv; assumption.
Qed.

Theorem exposure_txt_order_independent es es' xps mid xps' :
  Permutation es es' -> Permutation xps mid -> Forall2 xp_equiv mid xps' ->
  list_exposure_txt es xps = list_exposure_txt es' xps'.
Proof.
  intros Pe Pm Hq. unfold list_exposure_txt. rewrite (list_txt_perm_invariant es es' Pe). f_equal. f_equal.
  unfold exposure_txt.
  rewrite (rows_equiv es es' false xps mid xps' Pe Pm Hq), (rows_equiv es es' true xps mid xps' Pe Pm Hq).
  rewrite (max_peer_len_perm xps mid Pm), (max_peer_len_equiv mid xps' Hq).
  rewrite (strsort_perm_invariant _ _ (flat_map_perm unprotected_lines _ _ Pm)), (unprotected_equiv mid xps' Hq).
  reflexivity.
Qed.

Corollary exposure_txt_perm_invariant es es' xps xps' :
  Permutation es es' -> Permutation xps xps' -> list_exposure_txt es xps = list_exposure_txt es' xps'.
Proof.
  intros Pe Px. apply (exposure_txt_order_independent es es' xps xps' xps' Pe Px).
  clear. induction xps'; constructor; [apply xp_equiv_refl|assumption].
Qed.

(* every line of the two sections is the line of exactly one entry / IP connection / unprotected direction *)
Theorem exposure_rows_are_the_entries es xps ingress :
  Permutation (rowsort (flat_map (xgress_rows es ingress) xps)) (flat_map (xgress_rows es ingress) xps).
Proof. apply rowsort_perm. Qed.

(* ---- sort.Slice compares (workload, other end) only and is not stable: when no two lines of a section share both
   (xf_no_ties, evaluated by the check on every implementation result), ANY correct sort by that key gives rowsort ---- *)
Definition key_leb (a b : row) : bool :=
  if String.eqb (r_src a) (r_src b) then String.leb (r_dst a) (r_dst b) else String.leb (r_src a) (r_src b).
Definition same_key (a b : row) : Prop := r_src a = r_src b /\ r_dst a = r_dst b.

Lemma key_nodupb_spec l : key_nodupb l = true ->
  forall a b l1 l2 l3, l = (l1 ++ a :: l2 ++ b :: l3)%list -> ~ same_key a b.
Proof.
  induction l as [|r t IH]; intros H a b l1 l2 l3 E [K1 K2].
  - destruct l1; discriminate.
  - cbn [key_nodupb] in H. apply andb_true_iff in H. destruct H as [H1 H2]. destruct l1 as [|x l1]; cbn in E; injection E as E1 E2.
    + subst r t. apply negb_true_iff in H1. rewrite existsb_app in H1. cbn [existsb] in H1.
      rewrite K1, K2, !String.eqb_refl in H1. cbn in H1. rewrite orb_true_r in H1. discriminate.
    + subst. exact (IH H2 a b l1 l2 l3 eq_refl (conj K1 K2)).
Qed.

Lemma key_nodupb_perm l l' : Permutation l l' -> key_nodupb l = true -> key_nodupb l' = true.
Proof.
  assert (EX : forall (f : row -> bool) a b, Permutation a b -> existsb f a = existsb f b).
  { intros f a b P. induction P as [|x l1 l2 P IH|x y l1|l1 l2 l3 P1 IH1 P2 IH2]; cbn [existsb];
      [reflexivity|rewrite IH; reflexivity|destruct (f x), (f y); reflexivity|congruence]. }
  intros P. induction P as [|x l1 l2 P IH|x y l1|l1 l2 l3 P1 IH1 P2 IH2]; intros H.
  - reflexivity.
  - cbn [key_nodupb] in *. apply andb_true_iff in H. destruct H as [H1 H2]. rewrite <- (EX _ _ _ P), H1, (IH H2). reflexivity.
  - cbn [key_nodupb existsb] in *. rewrite (String.eqb_sym (r_src y) (r_src x)), (String.eqb_sym (r_dst y) (r_dst x)).
    destruct (String.eqb (r_src x) (r_src y) && String.eqb (r_dst x) (r_dst y)); cbn [orb negb andb] in *; [discriminate|].
    rewrite !andb_true_iff in *. tauto.
  - auto.
Qed.

Theorem key_sort_is_rowsort (srt : list row -> list row) l :
  key_nodupb l = true ->
  Permutation (srt l) l -> StronglySorted (fun a b => key_leb a b = true) (srt l) -> srt l = rowsort l.
Proof.
  intros Hn Hp Hs. apply rowsort_is_the_sort; [exact Hp|].
  pose proof (key_nodupb_perm _ _ (Permutation_sym Hp) Hn) as Hn'. clear Hn Hp. revert Hn'.
  induction Hs as [|a t Hs IH Ha]; intros Hn; constructor.
  - apply IH. cbn [key_nodupb] in Hn. apply andb_true_iff in Hn. tauto.
  - apply Forall_forall. intros b Hb. rewrite Forall_forall in Ha. specialize (Ha b Hb).
    destruct (in_split _ _ Hb) as (l2 & l3 & E).
    assert (NK : ~ same_key a b). { apply (key_nodupb_spec _ Hn a b [] l2 l3). rewrite E. reflexivity. }
    unfold key_leb in Ha. unfold row_leb. destruct (String.eqb_spec (r_src a) (r_src b)) as [E1|E1]; [|exact Ha].
    destruct (String.eqb_spec (r_dst a) (r_dst b)) as [E2|E2]; [|exact Ha]. exfalso. apply NK. split; assumption.
Qed.
