# Regenerates coq/Gen/SrcFacts.v from /repo's CURRENT working tree: the constants the model and its
# theorems depend on.  A constant that changed makes the obligation in Proofs/Facts*.v fail to
# type-check (a broken proof obligation); one that can no longer be located becomes `None`
# (fact unavailable; the behavioural correspondence still covers it).
import os, re

FACTS = [
    # (coq name, file, regex with one group, kind)
    ('src_minPort', 'pkg/netpol/internal/common/portset.go', r'\bminPort\s+int64\s*=\s*(-?\d+)', 'Z'),
    ('src_maxPort', 'pkg/netpol/internal/common/portset.go', r'\bmaxPort\s+int64\s*=\s*(-?\d+)', 'Z'),
    ('src_NoPort', 'pkg/netpol/internal/common/portset.go', r'\bNoPort\s*=\s*(-?\d+)', 'Z'),
    ('src_MinANPPriority', 'pkg/internal/common/netpol_constants.go', r'\bMinANPPriority\s*=\s*(-?\d+)', 'Z'),
    ('src_MaxANPPriority', 'pkg/internal/common/netpol_constants.go', r'\bMaxANPPriority\s*=\s*(-?\d+)', 'Z'),
    ('src_allConnsStr', 'pkg/netpol/internal/common/connectionset.go', r'\ballConnsStr\s*=\s*"([^"]*)"', 'S'),
    ('src_noConnsStr', 'pkg/netpol/internal/common/connectionset.go', r'\bnoConnsStr\s*=\s*"([^"]*)"', 'S'),
    ('src_K8sNsNameLabelKey', 'pkg/netpol/internal/common/netpol_commands_common.go', r'\bK8sNsNameLabelKey\s*=\s*"([^"]*)"', 'S'),
    ('src_IngressPodName', 'pkg/netpol/internal/common/netpol_commands_common.go', r'\bIngressPodName\s*=\s*"([^"]*)"', 'S'),
    ('src_IngressPodNamespace', 'pkg/netpol/internal/common/netpol_commands_common.go', r'\bIngressPodNamespace\s*=\s*"([^"]*)"', 'S'),
    ('src_defaultCacheSize', 'pkg/netpol/eval/eval_cache.go', r'\bdefaultCacheSize\s*=\s*(\d+)', 'Z'),
    ('src_IPv4LoopbackAddr', 'pkg/manifests/parser/k8sobj.go', r'\bIPv4LoopbackAddr\s*=\s*"([^"]*)"', 'S'),
    ('src_RepresentativePodName', 'pkg/netpol/eval/internal/k8s/peer.go', r'\bRepresentativePodName\s*=\s*"([^"]*)"', 'S'),
]


def regenerate(repo, out_path):
    lines = ['(* GENERATED on every check run from /repo by checks/lib/srcfacts.py — do not edit. *)',
             'From Coq Require Import ZArith String.', 'Open Scope Z_scope.', '']
    missing = []
    for name, rel, rx, kind in FACTS:
        val = None
        p = os.path.join(repo, rel)
        if os.path.exists(p):
            m = re.search(rx, open(p).read())
            if m:
                val = m.group(1)
        if val is None:
            missing.append(name)
            lines.append('Definition %s : option %s := None.' % (name, 'Z' if kind == 'Z' else 'string'))
        elif kind == 'Z':
            lines.append('Definition %s : option Z := Some (%s).' % (name, val))
        else:
            lines.append('Definition %s : option string := Some "%s"%%string.' % (name, val.replace('"', '""')))
    text = '\n'.join(lines) + '\n'
    os.makedirs(os.path.dirname(out_path), exist_ok=True)
    old = open(out_path).read() if os.path.exists(out_path) else None
    if old != text:
        with open(out_path, 'w') as f:
            f.write(text)
    return {'missing': missing, 'count': len(FACTS)}
