(* AbstractSort.v — two facts about sorting that the analysis relies on, proved for ANY correct
   comparison sort (so nothing depends on Go's pdqsort, its insertion-sort cutoff or its heap-sort
   fallback):
   (1) conflict detection inside the sort callback (resources.go sortAdminNetpolsByPriority):
       a deterministic comparison-based procedure is a decision tree over element indices;
       if it sorts every injectively-keyed input, then running it with the Go callback
       (which records an error and answers `false` on equal or out-of-range priorities) records
       an error whenever two priorities are equal, and (n >= 2) whenever one is out of range;
   (2) the sorted result is unique: two sorted permutations of a list with pairwise distinct
       keys are equal (order independence of the sorted ANP list).
   No axioms. *)
From Coq Require Import List ZArith Lia Bool Permutation Sorting.Sorted Arith.
From NP Require Import World Build.
Import ListNotations.
Open Scope Z_scope.

Section DT.
Variable n : nat.

Inductive dtree := Leaf (out : list nat) | Node (i j : nat) (tt tf : dtree).

(* run the tree with a comparison function; return the output and the comparisons made *)
Fixpoint run (lt : nat -> nat -> bool) (t : dtree) : list nat * list (nat * nat) :=
  match t with
  | Leaf o => (o, [])
  | Node i j a b =>
      let r := run lt (if lt i j then a else b) in (fst r, (i, j) :: snd r)
  end.

Fixpoint wf (t : dtree) : Prop :=
  match t with
  | Leaf _ => True
  | Node i j a b => (i < n)%nat /\ (j < n)%nat /\ wf a /\ wf b
  end.

Definition inj_on (key : nat -> Z) := forall i j, (i < n)%nat -> (j < n)%nat -> key i = key j -> i = j.

(* a correct sort: on every injective key the output is the sorted permutation of the indices *)
Definition sorts (t : dtree) : Prop :=
  forall key, inj_on key ->
    let o := fst (run (fun i j => key i <? key j) t) in
    Permutation o (seq 0 n) /\ StronglySorted (fun a b => key a <= key b) o.

Lemma run_agree lt1 lt2 t :
  (forall a b, In (a, b) (snd (run lt1 t)) -> lt1 a b = lt2 a b) ->
  run lt2 t = run lt1 t.
Proof.
  induction t as [o | i j a IHa b IHb]; cbn [run]; intros H; [reflexivity|].
  assert (E : lt1 i j = lt2 i j) by (apply H; cbn; now left).
  rewrite <- E. cbn [snd] in H. destruct (lt1 i j).
  - rewrite IHa; [reflexivity|]. intros x y Hin. apply H. right. exact Hin.
  - rewrite IHb; [reflexivity|]. intros x y Hin. apply H. right. exact Hin.
Qed.

(* the Go callback: valid range lo..hi *)
Variables lo hi : Z.
Definition valid (p : Z) := (lo <=? p) && (p <=? hi).
Definition less (prio : nat -> Z) (i j : nat) : bool :=
  if prio i =? prio j then false
  else if negb (valid (prio i)) then false
  else if negb (valid (prio j)) then false
  else prio i <? prio j.
Definition flags (prio : nat -> Z) (ab : nat * nat) : bool :=
  (prio (fst ab) =? prio (snd ab)) || negb (valid (prio (fst ab))) || negb (valid (prio (snd ab))).
(* an error was recorded iff some comparison made along the run was flagged *)
Definition err (prio : nat -> Z) (t : dtree) : bool := existsb (flags prio) (snd (run (less prio) t)).

Lemma sorted_before (key : nat -> Z) (l : list nat) x y l1 l2 :
  StronglySorted (fun a b => key a <= key b) l -> l = l1 ++ x :: l2 -> In y l2 -> key x <= key y.
Proof.
  intros Hs -> Hin. induction l1 as [|a l1 IH]; cbn in Hs.
  - apply StronglySorted_inv in Hs. destruct Hs as [_ Hf]. rewrite Forall_forall in Hf. now apply Hf.
  - apply StronglySorted_inv in Hs. apply IH, Hs.
Qed.

Lemma two_in_split (l : list nat) x y :
  In x l -> In y l -> x <> y ->
  (exists l1 l2, l = l1 ++ x :: l2 /\ In y l2) \/ (exists l1 l2, l = l1 ++ y :: l2 /\ In x l2).
Proof.
  intros Hx Hy Hne. apply in_split in Hx. destruct Hx as (l1 & l2 & ->).
  apply in_app_or in Hy. destruct Hy as [Hy | [Hy | Hy]].
  - right. apply in_split in Hy. destruct Hy as (m1 & m2 & ->).
    exists m1, (m2 ++ x :: l2). split; [now rewrite <- app_assoc|]. apply in_or_app. right. now left.
  - congruence.
  - left. eauto.
Qed.

Lemma comparisons_in_range t prio : wf t ->
  forall a b, In (a, b) (snd (run (less prio) t)) -> (a < n)%nat /\ (b < n)%nat.
Proof.
  induction t as [o | x y a IHa b IHb]; cbn; [tauto|].
  intros (Hx & Hy & Wa & Wb) p q [E | Hin].
  - inversion E; subst; tauto.
  - destruct (less prio x y); auto.
Qed.

Lemma unflagged prio t :
  err prio t = false -> forall a b, In (a, b) (snd (run (less prio) t)) -> flags prio (a, b) = false.
Proof.
  unfold err. intros He a b Hin. destruct (flags prio (a, b)) eqn:F; [|reflexivity].
  rewrite <- not_true_iff_false, existsb_exists in He. exfalso. apply He. eauto.
Qed.

(* two injective keys that order some pair (i, j) oppositely but agree with the callback on every
   comparison made cannot both be sorted by the same output *)
Lemma two_keys_contradiction t prio key1 key2 i j :
  sorts t -> inj_on key1 -> inj_on key2 ->
  (forall a b, In (a, b) (snd (run (less prio) t)) -> less prio a b = (key1 a <? key1 b)) ->
  (forall a b, In (a, b) (snd (run (less prio) t)) -> less prio a b = (key2 a <? key2 b)) ->
  (i < n)%nat -> (j < n)%nat -> i <> j ->
  (key1 i < key1 j /\ key2 j < key2 i) \/ (key1 j < key1 i /\ key2 i < key2 j) -> False.
Proof.
  intros Hs I1 I2 A1 A2 Hi Hj Hne Hflip.
  pose proof (run_agree (less prio) (fun a b => key1 a <? key1 b) t A1) as R1.
  pose proof (run_agree (less prio) (fun a b => key2 a <? key2 b) t A2) as R2.
  destruct (Hs key1 I1) as [P1 S1]. destruct (Hs key2 I2) as [P2 S2].
  rewrite R1 in P1, S1. rewrite R2 in S2.
  set (o := fst (run (less prio) t)) in *.
  assert (Ii : In i o) by (eapply Permutation_in; [apply Permutation_sym, P1 | apply in_seq; lia]).
  assert (Ij : In j o) by (eapply Permutation_in; [apply Permutation_sym, P1 | apply in_seq; lia]).
  destruct (two_in_split o i j Ii Ij Hne) as [(l1 & l2 & E & Hin) | (l1 & l2 & E & Hin)].
  - pose proof (sorted_before key1 o i j l1 l2 S1 E Hin). pose proof (sorted_before key2 o i j l1 l2 S2 E Hin). lia.
  - pose proof (sorted_before key1 o j i l1 l2 S1 E Hin). pose proof (sorted_before key2 o j i l1 l2 S2 E Hin). lia.
Qed.

(* (1a) no error recorded => no two equal priorities *)
Theorem no_err_no_dup t prio :
  sorts t -> wf t -> err prio t = false ->
  forall i j, (i < n)%nat -> (j < n)%nat -> i <> j -> prio i <> prio j.
Proof.
  intros Hs Hwf He i j Hi Hj Hne Heq.
  set (N := Z.of_nat n + 1).
  set (sw := fun k : nat => if Nat.eqb k i then j else if Nat.eqb k j then i else k).
  set (key1 := fun k => prio k * N + Z.of_nat k).
  set (key2 := fun k => prio k * N + Z.of_nat (sw k)).
  assert (Hsw : forall k, (k < n)%nat -> (sw k < n)%nat).
  { intros k Hk. unfold sw. destruct (Nat.eqb k i); [lia|]. destruct (Nat.eqb k j); lia. }
  assert (Hswinj : forall a b, sw a = sw b -> a = b).
  { intros a b. unfold sw.
    destruct (Nat.eqb_spec a i), (Nat.eqb_spec b i), (Nat.eqb_spec a j), (Nat.eqb_spec b j); subst; intros; try congruence; try lia. }
  assert (I1 : inj_on key1).
  { intros a b Ha Hb E. unfold key1 in E. assert (prio a = prio b) by nia. nia. }
  assert (I2 : inj_on key2).
  { intros a b Ha Hb E. unfold key2 in E. pose proof (Hsw a Ha). pose proof (Hsw b Hb).
    assert (prio a = prio b) by nia. apply Hswinj. nia. }
  pose proof (unflagged _ _ He) as Hnf.
  pose proof (comparisons_in_range t prio Hwf) as Hbound.
  assert (A : forall (key : nat -> Z), (forall k, (k < n)%nat -> exists r, key k = prio k * N + r /\ 0 <= r < N) ->
              forall a b, In (a, b) (snd (run (less prio) t)) -> less prio a b = (key a <? key b)).
  { intros key Hk a b Hin. pose proof (Hnf a b Hin) as F. destruct (Hbound a b Hin) as [Ha Hb].
    unfold flags in F. cbn [fst snd] in F. apply orb_false_elim in F. destruct F as [F F3].
    apply orb_false_elim in F. destruct F as [F1 F2].
    unfold less. rewrite F1, F2, F3.
    destruct (Hk a Ha) as (ra & -> & Hra). destruct (Hk b Hb) as (rb & -> & Hrb).
    apply Z.eqb_neq in F1. apply eq_true_iff_eq. rewrite !Z.ltb_lt. nia. }
  assert (K1 : forall k, (k < n)%nat -> exists r, key1 k = prio k * N + r /\ 0 <= r < N).
  { intros k Hk. exists (Z.of_nat k). unfold key1, N. split; [reflexivity|lia]. }
  assert (K2 : forall k, (k < n)%nat -> exists r, key2 k = prio k * N + r /\ 0 <= r < N).
  { intros k Hk. exists (Z.of_nat (sw k)). unfold key2, N. split; [reflexivity|]. pose proof (Hsw k Hk). lia. }
  apply (two_keys_contradiction t prio key1 key2 i j Hs I1 I2 (A key1 K1) (A key2 K2) Hi Hj Hne).
  unfold key1, key2, sw. rewrite Nat.eqb_refl.
  destruct (Nat.eqb_spec j i); [congruence|]. rewrite Nat.eqb_refl. rewrite Heq.
  destruct (Nat.lt_ge_cases i j); [left | right]; lia.
Qed.

(* (1b) with at least two elements: no error recorded => every priority is in range *)
Theorem no_err_all_valid t prio :
  sorts t -> wf t -> err prio t = false -> (2 <= n)%nat ->
  forall i, (i < n)%nat -> valid (prio i) = true.
Proof.
  intros Hs Hwf He Hn i Hi. destruct (valid (prio i)) eqn:Hv; [reflexivity|]. exfalso.
  pose proof (no_err_no_dup t prio Hs Hwf He) as Hnd.
  pose proof (unflagged _ _ He) as Hnf.
  pose proof (comparisons_in_range t prio Hwf) as Hbound.
  (* some other index *)
  set (j := if Nat.eqb i 0 then 1%nat else 0%nat).
  assert (Hj : (j < n)%nat) by (unfold j; destruct (Nat.eqb i 0); lia).
  assert (Hne : i <> j) by (unfold j; destruct (Nat.eqb_spec i 0); lia).
  (* i is never compared: every comparison involving it would have been flagged *)
  assert (Hnot_i : forall a b, In (a, b) (snd (run (less prio) t)) -> a <> i /\ b <> i).
  { intros a b Hin. pose proof (Hnf a b Hin) as F. unfold flags in F. cbn [fst snd] in F.
    apply orb_false_elim in F. destruct F as [F F3]. apply orb_false_elim in F. destruct F as [F1 F2].
    split; intros ->; rewrite Hv in *; discriminate. }
  set (key1 := fun k => 2 * prio k).
  set (key2 := fun k => if Nat.eqb k i then (if prio i <? prio j then 2 * prio j + 1 else 2 * prio j - 1) else 2 * prio k).
  assert (I1 : inj_on key1).
  { intros a b Ha Hb E. unfold key1 in E. destruct (Nat.eq_dec a b); [assumption|].
    exfalso. apply (Hnd a b Ha Hb n0). lia. }
  assert (I2 : inj_on key2).
  { intros a b Ha Hb E. unfold key2 in E. destruct (Nat.eq_dec a b); [assumption|]. exfalso.
    destruct (Nat.eqb_spec a i), (Nat.eqb_spec b i); subst; try congruence.
    - destruct (prio i <? prio j); lia.
    - destruct (prio i <? prio j); lia.
    - apply (Hnd a b Ha Hb n0). lia. }
  assert (A1 : forall a b, In (a, b) (snd (run (less prio) t)) -> less prio a b = (key1 a <? key1 b)).
  { intros a b Hin. pose proof (Hnf a b Hin) as F. unfold flags in F. cbn [fst snd] in F.
    apply orb_false_elim in F. destruct F as [F F3]. apply orb_false_elim in F. destruct F as [F1 F2].
    unfold less. rewrite F1, F2, F3. unfold key1. apply eq_true_iff_eq. rewrite !Z.ltb_lt. lia. }
  assert (A2 : forall a b, In (a, b) (snd (run (less prio) t)) -> less prio a b = (key2 a <? key2 b)).
  { intros a b Hin. rewrite (A1 a b Hin). destruct (Hnot_i a b Hin) as [Ha Hb].
    unfold key1, key2. destruct (Nat.eqb_spec a i); [congruence|]. destruct (Nat.eqb_spec b i); [congruence|]. reflexivity. }
  apply (two_keys_contradiction t prio key1 key2 i j Hs I1 I2 A1 A2 Hi Hj Hne).
  unfold key1, key2. rewrite Nat.eqb_refl. destruct (Nat.eqb_spec j i); [congruence|].
  pose proof (Hnd i j Hi Hj Hne) as Hd.
  destruct (prio i <? prio j) eqn:Hlt; [left | right]; lia.
Qed.

End DT.

(* ---------- (2) uniqueness of the sorted ANP list ---------- *)
Fixpoint ssorted (l : list anp) : Prop :=
  match l with
  | [] => True
  | a :: t => (forall b, In b t -> a_prio a < a_prio b) /\ ssorted t
  end.

Lemma insert_perm a l : Permutation (insert_by_prio a l) (a :: l).
Proof.
  induction l as [|b t IH]; cbn [insert_by_prio]; [apply Permutation_refl|].
  destruct (a_prio a <? a_prio b); [apply Permutation_refl|].
  eapply Permutation_trans; [apply perm_skip, IH | apply perm_swap].
Qed.

Lemma sort_perm l : Permutation (sort_by_prio l) l.
Proof.
  induction l as [|a t IH]; cbn; [apply perm_nil|].
  eapply Permutation_trans; [apply insert_perm | apply perm_skip, IH].
Qed.

Lemma insert_ssorted a l :
  ssorted l -> (forall b, In b l -> a_prio a <> a_prio b) -> ssorted (insert_by_prio a l).
Proof.
  induction l as [|b t IH]; cbn [insert_by_prio]; intros Hs Hd.
  - cbn. split; [intros ? []|exact I].
  - destruct Hs as [Hb Ht]. destruct (a_prio a <? a_prio b) eqn:Hlt.
    + cbn [ssorted]. split; [|split; assumption].
      intros c [<- | Hc]; [lia|]. specialize (Hb c Hc). lia.
    + cbn [ssorted]. split.
      * intros c Hc. apply (Permutation_in _ (insert_perm a t)) in Hc. destruct Hc as [<- | Hc].
        -- specialize (Hd b (or_introl eq_refl)). lia.
        -- apply Hb; exact Hc.
      * apply IH; [exact Ht|]. intros c Hc. apply Hd. right; exact Hc.
Qed.

Lemma sort_ssorted l : NoDup (map a_prio l) -> ssorted (sort_by_prio l).
Proof.
  induction l as [|a t IH]; cbn [sort_by_prio fold_right map]; intros Hnd; [exact I|].
  inversion Hnd as [|x xs Hnin Hnd']; subst.
  apply insert_ssorted; [apply IH; exact Hnd'|].
  intros b Hb Heq. apply Hnin. rewrite Heq. apply in_map.
  eapply Permutation_in; [apply sort_perm | exact Hb].
Qed.

Lemma ssorted_perm_eq l1 : forall l2, ssorted l1 -> ssorted l2 -> Permutation l1 l2 -> l1 = l2.
Proof.
  induction l1 as [|a t1 IH]; intros l2 H1 H2 Hp.
  - apply Permutation_nil in Hp. subst; reflexivity.
  - destruct l2 as [|b t2]; [apply Permutation_sym, Permutation_nil in Hp; discriminate|].
    destruct H1 as [Ha Ht1]. destruct H2 as [Hb Ht2].
    assert (Hab : a = b).
    { assert (Ia : In a (b :: t2)) by (eapply Permutation_in; [exact Hp | left; reflexivity]).
      assert (Ib : In b (a :: t1)) by (eapply Permutation_in; [apply Permutation_sym, Hp | left; reflexivity]).
      destruct Ia as [<- | Ia]; [reflexivity|]. destruct Ib as [<- | Ib]; [reflexivity|].
      specialize (Ha b Ib). specialize (Hb a Ia). lia. }
    subst b. f_equal. apply IH; try assumption. eapply Permutation_cons_inv; exact Hp.
Qed.

Lemma has_dup_prio_spec l : has_dup_prio l = false <-> NoDup (map a_prio l).
Proof.
  induction l as [|a t IH]; cbn [has_dup_prio map]; [split; [constructor | reflexivity]|].
  rewrite orb_false_iff, IH. split.
  - intros [He Hn]. constructor; [|exact Hn]. intros Hin. apply in_map_iff in Hin. destruct Hin as (b & Hb & Hin).
    rewrite <- not_true_iff_false, existsb_exists in He. apply He. exists b. split; [exact Hin | lia].
  - intros Hnd. inversion Hnd as [|x xs Hnin Hnd']; subst. split; [|exact Hnd'].
    rewrite <- not_true_iff_false, existsb_exists. intros (b & Hb & Heq). apply Hnin.
    apply in_map_iff. exists b. split; [lia | exact Hb].
Qed.

(* the sorted list does not depend on the order in which the policies were given *)
Theorem sort_by_prio_perm_invariant l1 l2 :
  Permutation l1 l2 -> has_dup_prio l1 = false -> sort_by_prio l1 = sort_by_prio l2.
Proof.
  intros Hp Hnd. apply has_dup_prio_spec in Hnd.
  assert (Hnd2 : NoDup (map a_prio l2)) by (eapply Permutation_NoDup; [apply Permutation_map, Hp | exact Hnd]).
  apply ssorted_perm_eq; try (apply sort_ssorted; assumption).
  eapply Permutation_trans; [apply sort_perm|]. eapply Permutation_trans; [exact Hp | apply Permutation_sym, sort_perm].
Qed.

Lemma has_dup_prio_perm l1 l2 : Permutation l1 l2 -> has_dup_prio l1 = has_dup_prio l2.
Proof.
  intros Hp. destruct (has_dup_prio l1) eqn:H1, (has_dup_prio l2) eqn:H2; try reflexivity.
  - apply has_dup_prio_spec in H2. assert (NoDup (map a_prio l1))
      by (eapply Permutation_NoDup; [apply Permutation_map, Permutation_sym, Hp | exact H2]).
    apply has_dup_prio_spec in H. congruence.
  - apply has_dup_prio_spec in H1. assert (NoDup (map a_prio l2))
      by (eapply Permutation_NoDup; [apply Permutation_map, Hp | exact H1]).
    apply has_dup_prio_spec in H. congruence.
Qed.

Lemma forallb_perm {A} (f : A -> bool) l1 l2 : Permutation l1 l2 -> forallb f l1 = forallb f l2.
Proof.
  induction 1; cbn [forallb]; try congruence.
  - destruct (f x), (f y); reflexivity.
Qed.

(* sortAdminNetpolsByPriority: same verdict and, when it succeeds, the same list for every input order *)
Theorem sort_anps_perm_invariant l1 l2 :
  Permutation l1 l2 ->
  is_ok (sort_anps l1) = is_ok (sort_anps l2) /\
  forall s1 s2, sort_anps l1 = Ok s1 -> sort_anps l2 = Ok s2 -> s1 = s2.
Proof.
  intros Hp.
  assert (Hlen := Permutation_length Hp).
  assert (Hgen : forall l, (exists a, l = [a]) \/
                   sort_anps l = (if has_dup_prio l then Err (ErrConflict cf_same_priority)
                                  else if negb (forallb (fun a => valid_priority (a_prio a)) l)
                                       then Err (ErrConflict cf_priority_range) else Ok (sort_by_prio l))).
  { intros l. destruct l as [|a [|b t]]; [right; reflexivity | left; eauto | right; reflexivity]. }
  destruct (Hgen l1) as [[a ->] | E1].
  - apply Permutation_length_1_inv in Hp. subst l2. split; [reflexivity|]. intros; congruence.
  - destruct (Hgen l2) as [[a ->] | E2].
    + apply Permutation_sym, Permutation_length_1_inv in Hp. subst l1. split; [reflexivity|]. intros; congruence.
    + rewrite E1, E2. rewrite (has_dup_prio_perm _ _ Hp), (forallb_perm _ _ _ Hp).
      destruct (has_dup_prio l2) eqn:Hd; [split; [reflexivity | intros; discriminate]|].
      destruct (forallb (fun a => valid_priority (a_prio a)) l2); cbn [negb]; [|split; [reflexivity | intros; discriminate]].
      split; [reflexivity|]. intros s1 s2 H1 H2. inversion H1; inversion H2; subst.
      apply sort_by_prio_perm_invariant; [exact Hp|]. rewrite (has_dup_prio_perm _ _ Hp). exact Hd.
Qed.
