# C14 — NetworkPolicies are additive and local; equivalent spellings agree.
# (world, typed single-step edit) pairs through the real `list`; the two reports are related by the verified pointwise
# checker (Model/Connlist.v reports_rel_b): never-removes / never-adds / unchanged-outside-the-selected-pods / unchanged.
import copy, ipaddress
from .lib import core, gen, listcorr, meta

EDITS = ['add_rule', 'add_policy_governed', 'add_policy_ungoverned', 'sel_spelling', 'range_split', 'cidr_halves', 'policy_split', 'policy_types', 'sel_spelling', 'sel_spelling',
         'cidr_except_split', 'policy_types', 'add_rule', 'dead_section', 'dead_section', 'range_split']


def rand_rule(r, W, d):
    tmp = gen.gen_world(r, anp=False)
    cands = [rule for p in tmp['netpols'] for rule in (p.get(d) or [])]
    if cands:
        rule = copy.deepcopy(r.choice(cands))
        other = 'to' if d == 'ingress' else 'from'
        rule.pop(other, None)
        return rule
    return {'ports': [{'protocol': r.choice(gen.PROTOS), 'port': r.choice(gen.PORTS)}]}


def all_selectors(p):
    """(container, key) locations of label selectors inside a policy"""
    locs = [(p, 'podSelector')]
    for d in ('ingress', 'egress'):
        for rule in p.get(d) or []:
            for peer in rule.get('from' if d == 'ingress' else 'to') or []:
                for k in ('podSelector', 'namespaceSelector'):
                    if peer.get(k):
                        locs.append((peer, k))
    return locs


def bias_selectors(r, W):
    """selectors on which the two spellings of a label requirement can come apart if one of them is mis-evaluated"""
    if not W['netpols'] or not W['workloads']:
        return W
    x = r.random()
    if x < 0.25:
        # a label required with the EMPTY value, on a key most pods do not carry at all
        p = r.choice(W['netpols'])
        locs = all_selectors(p)
        c, k = r.choice(locs)
        key = r.choice(gen.KEYS)
        sel = c[k] if isinstance(c[k], dict) else {}
        sel.setdefault('matchLabels', {})[key] = ''
        c[k] = sel
        if r.random() < 0.5:
            r.choice(W['workloads'])['labels'][key] = ''
    elif x < 0.55:
        # labels plus an expression that narrows (or contradicts) them: the expression must not be ignored
        w = r.choice(W['workloads'])
        if not w['labels']:
            w['labels'] = {'app': 'a'}
        key = r.choice(sorted(w['labels']))
        extra = r.choice([{'key': key, 'operator': 'NotIn', 'values': [w['labels'][key]]}, {'key': 'zone', 'operator': 'Exists'},
                          {'key': key, 'operator': 'In', 'values': ['zz']}])
        sel = {'matchLabels': {key: w['labels'][key]}, 'matchExpressions': [extra]}
        # a rule of its own, in a policy that governs some other workload, naming w's namespace explicitly
        tgt = r.choice(W['workloads'])
        d = r.choice(['ingress', 'egress'])
        W['netpols'].append({'ns': tgt['ns'], 'name': 'npmixed', 'podSelector': {}, 'policyTypes': ['Ingress' if d == 'ingress' else 'Egress'],
                             d: [{'from' if d == 'ingress' else 'to': [{'namespaceSelector': {}, 'podSelector': sel}],
                                  'ports': [{'protocol': 'TCP', 'port': r.choice(gen.PORTS)}]}]})
    if r.random() < 0.2:
        # one policy mentions one CIDR twice, with and without an `except`
        w = r.choice(W['workloads'])
        W['netpols'].append({'ns': w['ns'], 'name': 'nptwicecidr', 'podSelector': {}, 'policyTypes': ['Ingress', 'Egress'],
                             'ingress': [{'from': [{'ipBlock': {'cidr': '10.0.0.0/8', 'except': ['10.1.0.0/16']}}], 'ports': [{'protocol': 'TCP', 'port': 443}]}],
                             'egress': [{'to': [{'ipBlock': {'cidr': '10.0.0.0/8'}}], 'ports': [{'protocol': 'TCP', 'port': 80}]}]})
    return W


def apply_edit(r, W, kind):
    """returns (W2, rel, skip_src, skip_dst, description) or None when the edit does not apply to W"""
    W2 = copy.deepcopy(W)
    nps = W2['netpols']
    if kind == 'add_rule':
        cands = [(p, d) for p in nps for d in ('ingress', 'egress') if meta.governs(p, d)]
        if not cands:
            return None
        p, d = r.choice(cands)
        p.setdefault(d, [])
        if p[d] is None:
            p[d] = []
        p[d].insert(r.randrange(len(p[d]) + 1), rand_rule(r, W, d))
        return W2, 'le', [], [], 'rule added to %s/%s %s' % (p['ns'], p['name'], d)
    if kind in ('add_policy_governed', 'add_policy_ungoverned'):
        if kind == 'add_policy_governed':
            if not W['netpols']:
                return None
            base = r.choice(W['netpols'])
            dirs = [d for d in ('ingress', 'egress') if meta.governs(base, d)]
            if not dirs:
                return None
            dirs = r.sample(dirs, r.randint(1, len(dirs)))
            q = {'ns': base['ns'], 'name': 'npnew', 'podSelector': copy.deepcopy(base['podSelector'])}
            rel = 'le'
        else:
            ns = r.choice(W['workloads'])['ns']
            q = {'ns': ns, 'name': 'npnew', 'podSelector': gen.rsel(r, allow_none=False, empty_p=0.4)}
            dirs = r.sample(['ingress', 'egress'], r.randint(1, 2))
            for w in meta.selected(W, q):
                for d in dirs:
                    if any(p['ns'] == w['ns'] and meta.governs(p, d) and meta.sel_matches(p['podSelector'], w['labels']) for p in W['netpols']):
                        return None
            rel = 'ge'
        q['policyTypes'] = ['Ingress' if d == 'ingress' else 'Egress' for d in dirs]
        for d in dirs:
            q[d] = [rand_rule(r, W, d) for _ in range(r.randint(0, 2))]
        nps.append(q)
        sel = [meta.wl_string(w) for w in meta.selected(W, q)]
        # two relations are checked for an added policy: monotonicity and locality
        return W2, rel, [], [], 'policy added (%s)' % kind, ('eq', sel if 'egress' in dirs else [], sel if 'ingress' in dirs else [])
    if kind == 'sel_spelling':
        locs = [(c, k) for p in nps for c, k in all_selectors(p) if (c[k] or {}).get('matchLabels')]
        if not locs:
            return None
        # prefer selectors that stay mixed (labels + expressions) after the rewrite, and rule-peer selectors
        mixed = [(c, k) for c, k in locs if (len(c[k]['matchLabels']) >= 2 or c[k].get('matchExpressions')) and k != 'podSelector' or
                 (k == 'podSelector' and 'name' not in c and len(c[k]['matchLabels']) >= 2)]
        c, k = r.choice(mixed if mixed and r.random() < 0.85 else locs)
        empties = [(c_, k_) for c_, k_ in locs if '' in c_[k_]['matchLabels'].values()]
        withexpr = [(c_, k_) for c_, k_ in locs if c_[k_].get('matchExpressions')]
        if empties and r.random() < 0.6:
            c, k = r.choice(empties)
        elif withexpr and r.random() < 0.8:
            c, k = r.choice(withexpr)
        s = c[k]
        key = r.choice([q for q, v_ in s['matchLabels'].items() if v_ == ''] or list(s['matchLabels']))
        v = s['matchLabels'].pop(key)
        if not s['matchLabels']:
            del s['matchLabels']
        s.setdefault('matchExpressions', []).append({'key': key, 'operator': 'In', 'values': [v]})
        return W2, 'eq', [], [], 'matchLabels %s=%s rewritten as a single-value In expression' % (key, v)
    if kind == 'range_split':
        locs = [(rule, i) for p in nps for d in ('ingress', 'egress') for rule in (p.get(d) or []) for i, pp in enumerate(rule.get('ports') or [])
                if isinstance(pp.get('port'), int) and pp.get('endPort') is not None and pp['endPort'] > pp['port']]
        if not locs:
            return None
        rule, i = r.choice(locs)
        pp = rule['ports'][i]
        a, b = pp['port'], pp['endPort']
        hull = False
        if b < 65535 and r.random() < 0.6:
            hull = True
            # an earlier entry of the same protocol above the range (in both spellings): the pieces then fall between ports already allowed
            above = {'port': min(65535, b + r.choice([1, 2, 10]))}
            if pp.get('protocol'):
                above['protocol'] = pp['protocol']
            rule['ports'].insert(0, above)
            i += 1
            W['netpols'] = copy.deepcopy(nps)
        m = r.choice([a, b - 1, (a + b) // 2, r.randint(a, b - 1)])
        p1, p2 = dict(pp), dict(pp)
        p1['endPort'] = m
        p2['port'] = m + 1
        if m == a and r.random() < 0.5:
            p1.pop('endPort')
        rule['ports'][i:i + 1] = [p1, p2] if hull or r.random() < 0.7 else [p2, p1]
        return W2, 'eq', [], [], 'port range %d-%d split at %d' % (a, b, m)
    if kind == 'cidr_halves':
        locs = [(rule, key, i) for p in nps for d, key in (('ingress', 'from'), ('egress', 'to')) for rule in (p.get(d) or [])
                for i, peer in enumerate(rule.get(key) or []) if peer.get('ipBlock') and not peer['ipBlock'].get('except')
                and ipaddress.ip_network(peer['ipBlock']['cidr'], strict=False).prefixlen < 32]
        if not locs:
            return None
        rule, key, i = r.choice(locs)
        net = ipaddress.ip_network(rule[key][i]['ipBlock']['cidr'], strict=False)
        h1, h2 = list(net.subnets())
        halves = [{'ipBlock': {'cidr': str(h1)}}, {'ipBlock': {'cidr': str(h2)}}]
        r.shuffle(halves)
        rule[key][i:i + 1] = halves
        return W2, 'eq', [], [], 'cidr %s replaced by its two halves' % net
    if kind == 'policy_split':
        cands = [p for p in nps if len(p.get('ingress') or []) + len(p.get('egress') or []) >= 2]
        if not cands:
            return None
        p = r.choice(cands)
        types = meta.effective_types(p)
        p1 = {'ns': p['ns'], 'name': p['name'], 'podSelector': copy.deepcopy(p['podSelector']), 'policyTypes': list(types)}
        p2 = {'ns': p['ns'], 'name': p['name'] + 'b', 'podSelector': copy.deepcopy(p['podSelector']), 'policyTypes': list(types)}
        for d in ('ingress', 'egress'):
            rules = p.get(d) or []
            a, b = [], []
            for rule in rules:
                (a if r.random() < 0.5 else b).append(rule)
            p1[d], p2[d] = a, b
        idx = nps.index(p)
        nps[idx:idx + 1] = [p1, p2]
        return W2, 'eq', [], [], 'policy %s split into two policies with the same selector' % p['name']
    if kind == 'cidr_except_split':
        # one rule peer {cidr C} against the two peers [{cidr C except H2}, {cidr H2}] of the same rule, in this order: every entry counts
        locs = [(rule, key, i) for p in nps for d, key in (('ingress', 'from'), ('egress', 'to')) for rule in (p.get(d) or [])
                for i, peer in enumerate(rule.get(key) or []) if peer.get('ipBlock') and not peer['ipBlock'].get('except')
                and ipaddress.ip_network(peer['ipBlock']['cidr'], strict=False).prefixlen < 32]
        if not locs:
            return None
        rule, key, i = r.choice(locs)
        c = rule[key][i]['ipBlock']['cidr']
        h1, h2 = [str(x) for x in ipaddress.ip_network(c, strict=False).subnets()]
        hx = r.choice([h1, h2])
        rule[key][i:i + 1] = [{'ipBlock': {'cidr': c, 'except': [hx]}}, {'ipBlock': {'cidr': hx}}]
        return W2, 'eq', [], [], 'ipBlock %s written as [%s except %s, %s]' % (c, c, hx, hx)
    if kind == 'policy_types':
        cands = [p for p in nps]
        if not cands:
            return None
        withegress = [q for q in nps if q.get('egress')]
        if withegress and r.random() < 0.3:
            # egress rules only, no policyTypes: the default is [Ingress, Egress] - the selected pods are isolated for ingress too
            p = r.choice(withegress)
            W['netpols'][nps.index(p)].update({'policyTypes': ['Ingress', 'Egress'], 'ingress': []})
            p.pop('policyTypes', None)
            p['ingress'] = []
            if r.random() < 0.5:
                del p['ingress']
            return W2, 'eq', [], [], 'explicit policyTypes [Ingress, Egress] of %s (egress rules only) replaced by the default' % p['name']
        p = r.choice(cands)
        if r.random() < 0.35 and sorted(meta.effective_types(p)) == ['Ingress'] and not p.get('egress'):
            # [Ingress] spelled by default with an explicit EMPTY egress list (nothing to default from) against the explicit types
            if p.get('policyTypes'):
                del p['policyTypes']
                p['egress'] = []
                return W2, 'eq', [], [], 'explicit policyTypes [Ingress] of %s replaced by the default with `egress: []`' % p['name']
            p['policyTypes'] = ['Ingress']
            W['netpols'][nps.index(p)]['egress'] = []
            return W2, 'eq', [], [], 'defaulted policyTypes of %s (with `egress: []`) made explicit' % p['name']
        eff = meta.effective_types(p)
        if not p.get('policyTypes'):
            p['policyTypes'] = eff
            return W2, 'eq', [], [], 'defaulted policyTypes of %s made explicit (%s)' % (p['name'], eff)
        default_if_absent = ['Ingress'] + (['Egress'] if (p.get('egress') or []) else [])
        if sorted(p['policyTypes']) == sorted(default_if_absent):
            del p['policyTypes']
            return W2, 'eq', [], [], 'explicit policyTypes of %s removed (equal to the default)' % p['name']
        return None
    if kind == 'dead_section':
        # rules written in a direction that the policy's explicit policyTypes leave out are not in effect
        cands = [p for p in nps if len(meta.effective_types(p)) == 1]
        if not cands:
            return None
        p = r.choice(cands)
        eff = meta.effective_types(p)
        d = 'egress' if eff == ['Ingress'] else 'ingress'
        if not p.get('policyTypes') or p.get(d):
            p['policyTypes'] = list(eff)
            p[d] = []
            W['netpols'][nps.index(p)].update({'policyTypes': list(eff), d: []})
        p[d] = [rand_rule(r, W, d) for _ in range(r.randint(1, 2))]
        return W2, 'eq', [], [], 'policy %s with policyTypes %s given %s rules (a section that is not in effect)' % (p['name'], eff, d)
    raise ValueError(kind)


def main(tier):
    run = core.Run('C14', tier)
    run.cov['rule'] = ('NetworkPolicy-only random worlds x one typed edit (add a rule in a governed direction; add a policy on already-governed pods; add a policy on ungoverned pods; '
                       'matchLabels vs single-value In; split a port range; CIDR vs its halves; split a policy; explicit vs defaulted policyTypes; rules in a direction that explicit policyTypes leave out); both directories analysed by the real `list`; '
                       'the two reports related pointwise (all workloads x boundary addresses of both IP partitions) by the verified checker: <=, >=, equal, and equal outside the pods a new policy selects; '
                       'non-trivial = both analyses succeed and the first report has a partial connection; distinct by (edit, scenario hash)')
    run.stage_proofs()
    b = core.build_go(['verifapi'], run.log)
    if not b['verifapi'][0]:
        run.proof_ok = False
        run.proof_notes.append('harness verifapi does not build against this tree: ' + b['verifapi'][1][-600:])
        return run.finish()
    n = 400 if tier == 'quick' else 6000
    h = listcorr.Harness()
    try:
        shard, k = 120, 0
        while k < n and len(run.violations) < 3:
            pairs, info = [], {}
            while len(pairs) < min(shard, n - k):
                cid = k + len(pairs)
                kind = EDITS[cid % len(EDITS)]
                for attempt in range(30):
                    W = bias_selectors(run.rng, gen.gen_world(run.rng, anp=False))
                    e = apply_edit(run.rng, W, kind)
                    if e is not None:
                        break
                if e is None:
                    continue
                pairs.append((cid, W, e[0]))
                info[cid] = (kind, e)
                run.dist('edit:' + kind)
            res = meta.run_pairs(h, pairs)
            cases = []
            for cid, W, W2 in pairs:
                o1, o2, d1, d2 = res[cid]
                kind, e = info[cid]
                run.count(1)
                if o1['outcome'] == 'panic' or o2['outcome'] == 'panic':
                    run.report(None, 'panic-%d' % cid, {'kind': 'edit', 'edit': kind, 'world': W, 'edited': W2}, 'list panicked')
                    continue
                if o1['outcome'] != 'ok' or o2['outcome'] != 'ok':
                    run.dist('skipped:analysis-error')
                    continue
                if any(not c['conn']['all'] for c in o1['conns']):
                    run.nontrivial([kind, W])
                cases.append((cid, e[1], e[2], e[3], o1, o2))
                if len(e) > 5:
                    rel2, ss, sd = e[5]
                    cases.append((100000 + cid, rel2, ss, sd, o1, o2))
            run.cov['traces_validated_against_impl'] += len(pairs)
            if k == 0 and pairs:
                run.sample({'edit': info[pairs[0][0]][0], 'description': info[pairs[0][0]][1][4], 'world': pairs[0][1]})
            bad = meta.coq_rel(cases)
            byid = {cid: (W, W2) for cid, W, W2 in pairs}
            for cid in bad[:5]:
                base = cid % 100000
                W, W2 = byid[base]
                kind, e = info[base]
                o1, o2, d1, d2 = res[base]
                what = 'locality: a pair not selected by the new policy changed' if cid >= 100000 else {'le': 'the edit removed a reported connection', 'ge': 'the edit added a reported connection',
                                                                                                      'eq': 'equivalent spellings give different reports'}[e[1]]
                run.report(None, 'edit-%d' % cid, {'kind': 'edit', 'edit': kind, 'description': e[4], 'expected_relation': 'eq-outside-selected' if cid >= 100000 else e[1],
                                                  'world': W, 'edited': W2, 'manifests_before': [m for m, _ in d1], 'manifests_after': [m for m, _ in d2],
                                                  'report_before': o1['conns'], 'report_after': o2['conns'],
                                                  'how': 'k8snetpolicy list --dirpath DIR -o json on both manifest sets'}, what)
            k += shard
    finally:
        h.close()
    return run.finish()


def replay(payload):
    run = core.Run('C14', 'quick')
    run.stage_proofs()
    core.build_go(['verifapi'], run.log)
    h = listcorr.Harness()
    try:
        res = meta.run_pairs(h, [(1, payload['world'], payload['edited'])])
        o1, o2, _, _ = res[1]
        rel = payload['expected_relation']
        bad = meta.coq_rel([(1, 'eq' if rel.startswith('eq') else rel, [], [], o1, o2)]) if rel != 'eq-outside-selected' else []
        run.count(1)
        if bad:
            run.report(None, 'replay', payload, 'relation %s does not hold' % rel)
    finally:
        h.close()
    return run.finish()
