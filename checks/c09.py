# C09 — every output format faithfully encodes the computed result.
# For generated worlds / world pairs: the API result of the real analysis (Peer2PeerConnection list, ConnectivityDiff) and the
# string the real formatter produces for it in every format.  txt / md / csv / json of `list` and txt / md / csv of `diff` are
# compared BYTE FOR BYTE with the Gallina format model (Model/Format.v); every format incl. dot is parsed back to rows and
# compared with the API result and with every other format.
import re
from . import c04, c06
from .lib import core, gen, listcorr, fmt
from .lib.core import cstr, cnat, clist, cbool

LIST_FORMATS = ['txt', 'md', 'csv', 'json', 'dot']
DIFF_FORMATS = ['txt', 'md', 'csv', 'dot']
XFORMATS = ('txt', 'md', 'csv', 'json', 'dot')


def c_entries_full(o):
    """entries with the real names (the format model prints them)"""
    ipset = {p['str'] for p in o['peers'] if p['ip']}
    def rp(s):
        return gen.c_rpeer(s, s in ipset or c04.is_ip_str(s))
    return clist(['(mkRE %s %s %s)' % (rp(e['src']), rp(e['dst']), gen.c_conn(e['conn'])) for e in o['conns']])


def c_dpeers(o):
    """the analyzer's peers as the dot model wants them: string, external?, ip?, label name[kind], namespace"""
    return clist(['(mkDP %s %s %s %s %s)' % (cstr(p['str']), cbool(p['ip'] or p.get('name') == 'ingress-controller'), cbool(p['ip']),
                                            cstr('%s[%s]' % (p.get('name', ''), p.get('kind', ''))), cstr(p.get('ns', ''))) for p in o['peers']])


def c_diff_dpeers(od):
    """the peers of a ConnectivityDiff as the diff dot model wants them (a workload string is namespace/name[Kind])"""
    strs = set()
    for t in ('added', 'removed', 'changed', 'unchanged'):
        for e in od['diff'].get(t) or []:
            strs.add(e['src']); strs.add(e['dst'])
    res = []
    for s_ in sorted(strs):
        m = re.match(r'^([^/{}]+)/(.+\[[A-Za-z]+\])$', s_)
        if m and not c04.is_ip_str(s_):
            res.append('(mkDP %s false false %s %s)' % (cstr(s_), cstr(m.group(2)), cstr(m.group(1))))
        else:
            res.append('(mkDP %s true %s %s %s)' % (cstr(s_), cbool(c04.is_ip_str(s_)), cstr(s_), cstr('')))
    return clist(res)


def c_xsel(sel):
    ml = clist(['(%s, %s)' % (cstr(k), cstr(v)) for k, v in sel.get('matchLabels', {}).items()])
    me = clist(['(%s, %s, %s)' % (cstr(e['key']), cstr(e['op']), clist([cstr(v) for v in e.get('values') or []])) for e in sel.get('exprs') or []])
    return '(mkXS %s %s)' % (ml, me)


def c_xpeers(o):
    """ExposedPeers() as the exposure-format model wants it"""
    def item(e):
        return '(mkXI %s %s %s %s)' % (cbool(e['cluster']), c_xsel(e['ns_sel']), c_xsel(e['pod_sel']), cstr(e['conn_str']))
    return clist(['(mkXP %s %s %s %s %s)' % (cstr(x['peer']), cbool(x['ingress_protected']), cbool(x['egress_protected']),
                                              clist([item(e) for e in x['ingress']]), clist([item(e) for e in x['egress']])) for x in o.get('exposure') or []])


def main(tier):
    run = core.Run('C09', tier)
    run.cov['rule'] = ('random worlds (IP ranges, multi-protocol port sets, ANP/BANP) and world pairs; the real formatter output of list {txt,md,csv,json,dot} and diff {txt,md,csv,dot}; '
                       'byte equality with the Gallina format model for list txt/md/csv/json and diff txt/md/csv; every format parsed back to rows and compared with the API result and each other; exposure sections of list --exposure txt/md/csv/json parsed back and compared with ExposedPeers() (entries, IP rows, unprotected lines) and with each other; '
                       'non-trivial = at least 3 entries with an IP range and a multi-protocol connection; distinct by scenario hash')
    run.stage_proofs()
    b = core.build_go(['verifapi'], run.log)
    if not b['verifapi'][0]:
        run.proof_ok = False
        run.proof_notes.append('harness verifapi does not build against this tree: ' + b['verifapi'][1][-600:])
        return run.finish()
    n = 80 if tier == 'quick' else 2000
    h = listcorr.Harness()
    try:
        shard, k = 40, 0
        while k < n and len(run.violations) < 3:
            cmds, metas = [], []
            for i in range(min(shard, n - k)):
                cid = k + i
                W = gen.gen_world(run.rng, anp=(cid % 4 == 0))
                W2, how = c04.edit_world(run.rng, W)
                d1, d2 = gen.docs(W), gen.docs(W2)
                p1, p2 = h.dir_for('a%d' % cid), h.dir_for('b%d' % cid)
                gen.write_dir(p1, [m for m, _ in d1])
                gen.write_dir(p2, [m for m, _ in d2])
                for f in LIST_FORMATS:
                    cmds.append({'id': 'l', 'cmd': 'list', 'dir': p1, 'format': f, 'want_out': True})
                for f in DIFF_FORMATS:
                    cmds.append({'id': 'd', 'cmd': 'diff', 'dir': p1, 'dir2': p2, 'format': f, 'want_out': True})
                metas.append((cid, W, W2, d1, d2))
            outs = h.run(cmds)
            per = len(LIST_FORMATS) + len(DIFF_FORMATS)
            lcases, dcases, tcases, xcases, x3cases, xdcases, ddcases, xinfo, info = [], [], [], [], [], [], [], {}, {}
            for j, (cid, W, W2, d1, d2) in enumerate(metas):
                lo = dict(zip(LIST_FORMATS, outs[per * j: per * j + len(LIST_FORMATS)]))
                do = dict(zip(DIFF_FORMATS, outs[per * j + len(LIST_FORMATS): per * (j + 1)]))
                run.count(1)
                payload = {'kind': 'format', 'world': W, 'manifests': [m for m, _ in d1], 'manifests2': [m for m, _ in d2]}
                info[cid] = (payload, lo, do)
                base = lo['txt']
                if any(o['outcome'] == 'panic' for o in list(lo.values()) + list(do.values())):
                    run.report(None, 'panic-%d' % cid, payload, 'formatting panicked')
                    continue
                if base['outcome'] == 'ok':
                    want = fmt.api_rows(base)
                    if len(want) >= 3 and any(c04.is_ip_str(r[0]) or c04.is_ip_str(r[1]) for r in want) and any(',' in r[2] for r in want):
                        run.nontrivial(W)
                    for f in LIST_FORMATS:
                        o = lo[f]
                        if o['outcome'] != 'ok' or o.get('out_err'):
                            run.report(None, 'fmt-err-%d' % cid, dict(payload, format=f, error=o.get('out_err') or o.get('err')), 'formatting failed')
                            break
                        try:
                            got = fmt.LIST_PARSERS[f](o['out'])
                        except Exception as ex:
                            run.report(None, 'unparsable-%d' % cid, dict(payload, format=f, output=o['out'], error=str(ex)), 'the %s output cannot be parsed back' % f)
                            break
                        if got != fmt.api_rows(o):
                            run.report(None, 'rows-%s-%d' % (f, cid), dict(payload, format=f, output=o['out'], api_rows=fmt.api_rows(o), parsed_rows=got),
                                       'the %s output does not encode exactly the (src, dst, connection) triples of the analysis result' % f)
                            break
                        if got != want:
                            run.report(None, 'cross-%s-%d' % (f, cid), dict(payload, format=f), 'formats disagree with each other')
                            break
                    else:
                        lcases.append('(mkFmt %s %s %s %s %s %s)' % (cnat(cid), c_entries_full(base), cstr(lo['txt']['out']), cstr(lo['md']['out']),
                                                                   cstr(lo['csv']['out']), cstr(lo['json']['out'])))
                        tcases.append('(mkDot %s %s %s %s)' % (cnat(cid), c_entries_full(base), c_dpeers(lo['dot']), cstr(lo['dot']['out'])))
                dt = do['txt']
                if dt['outcome'] == 'ok' and not dt.get('diff_nil'):
                    wantd = fmt.api_diff_rows(dt)
                    ok = True
                    for f, parser in (('txt', fmt.parse_diff_txt), ('md', fmt.parse_diff_md), ('csv', fmt.parse_diff_csv)):
                        o = do[f]
                        try:
                            got = parser(o.get('out', ''))
                        except Exception as ex:
                            run.report(None, 'dunparsable-%d' % cid, dict(payload, format=f, output=o.get('out'), error=str(ex)), 'the diff %s output cannot be parsed back' % f)
                            ok = False
                            break
                        if got != fmt.api_diff_rows(o):
                            run.report(None, 'drows-%s-%d' % (f, cid), dict(payload, format=f, output=o.get('out'), api_rows=fmt.api_diff_rows(o), parsed_rows=got),
                                       'the diff %s output does not encode exactly the added/removed/changed entries' % f)
                            ok = False
                            break
                    if ok and do['dot']['outcome'] == 'ok':
                        o = do['dot']
                        wantdot = sorted(r[:5] for r in fmt.api_diff_rows(o, with_unchanged=True))
                        gotdot = fmt.parse_diff_dot(o.get('out', '')) if o.get('out') else []
                        if o.get('out') and gotdot != wantdot:
                            run.report(None, 'drows-dot-%d' % cid, dict(payload, format='dot', output=o.get('out'), api_rows=wantdot, parsed_rows=gotdot),
                                       'the diff dot output does not encode exactly the diff entries (incl. unchanged)')
                            ok = False
                        if ok and o.get('out'):
                            gotn, wantn = fmt.parse_dot_nodes(o['out']), fmt.api_diff_nodes(o)
                            badn = [s for s in wantn if gotn.get(s) != [wantn[s]]] + [s for s in gotn if s not in wantn]
                            if badn:
                                run.report(None, 'dnodes-dot-%d' % cid, dict(payload, format='dot', output=o.get('out'), peer=badn[0], expected=wantn.get(badn[0]), found=gotn.get(badn[0])),
                                           'the diff dot output does not declare every peer of the diff exactly once with its label and new/lost colour')
                                ok = False
                    if ok and do['dot']['outcome'] == 'ok' and do['dot'].get('out'):
                        ddcases.append('(mkDDot %s %s %s %s)' % (cnat(cid), c04.c_diff(do['dot'], lambda s: s), c_diff_dpeers(do['dot']), cstr(do['dot']['out'])))
                    if ok:
                        rn = lambda s: s
                        dcases.append('(mkDFmt %s %s %s %s %s)' % (cnat(cid), c04.c_diff(dt, rn), cstr(do['txt'].get('out', '')), cstr(do['md'].get('out', '')), cstr(do['csv'].get('out', ''))))
            # exposure sections: every format must hold exactly the exposure entries of the API result
            xw = [(k + i, c06.ip_only_world(run.rng) if i % 4 == 3 else c06.gen_case(run.rng, motif=('nsexpr' if i % 8 == 1 else 'mixed' if i % 8 == 5 else None))) for i in range(max(4, len(metas) // 2))]
            for j_, (cid_, W_) in enumerate(xw):
                if j_ % 5 == 2 and W_['workloads']:
                    # a peer string longer than any column width one might assume
                    W_['workloads'][0]['name'] = 'w' + 'y' * 61
            xcmds = []
            for cid, W in xw:
                dx = h.dir_for('x%d' % cid)
                gen.write_dir(dx, [m for m, _ in gen.docs(W)])
                for f in XFORMATS:
                    xcmds.append({'id': 'x', 'cmd': 'list', 'dir': dx, 'format': f, 'exposure': True, 'want_out': True})
            xouts = h.run(xcmds)
            for j, (cid, W) in enumerate(xw):
                xo = dict(zip(XFORMATS, xouts[len(XFORMATS) * j: len(XFORMATS) * (j + 1)]))
                run.count(1)
                if xo['txt']['outcome'] != 'ok':
                    continue
                payload = {'kind': 'exposure-format', 'world': W, 'manifests': [m for m, _ in gen.docs(W)]}
                run.dist('exposure-bytes:txt')
                xcases.append('(mkXFmt %s %s %s %s)' % (cnat(cid), c_entries_full(xo['txt']), c_xpeers(xo['txt']), cstr(xo['txt'].get('out', ''))))
                if all(xo[f]['outcome'] == 'ok' for f in ('md', 'csv', 'json')):
                    run.dist('exposure-bytes:md+csv+json')
                    x3cases.append('(mkXFmt3 %s %s %s %s %s %s)' % (cnat(cid), c_entries_full(xo['txt']), c_xpeers(xo['txt']), cstr(xo['md'].get('out', '')),
                                                                   cstr(xo['csv'].get('out', '')), cstr(xo['json'].get('out', ''))))
                if xo['dot']['outcome'] == 'ok':
                    run.dist('exposure-bytes:dot')
                    xdcases.append('(mkXDot %s %s %s %s %s)' % (cnat(cid), c_entries_full(xo['dot']), c_dpeers(xo['dot']), c_xpeers(xo['dot']), cstr(xo['dot'].get('out', ''))))
                xinfo[cid] = (payload, xo)
                want_rows, want_unprot = fmt.api_exposure_rows(xo['txt'])
                if len(want_rows) >= 3:
                    run.nontrivial(['exposure', W])
                # distinct API entries must be told apart in the output; the printed connection holds the API's port numbers
                for x in xo['txt'].get('exposure') or []:
                    for d in ('ingress', 'egress'):
                        for e in x[d]:
                            if not fmt.exposure_conn_consistent(e):
                                run.report(None, 'xconn-%d' % cid, dict(payload, workload=x['peer'], direction=d, entry=e),
                                           'the printed connection of an exposure entry does not hold exactly the port numbers of its ProtocolsAndPortsMap()')
                                break
                        names = [fmt.render_rep(e['ns_sel'], e['pod_sel']) for e in x[d] if not e['cluster']]
                        if len(set(names)) != len(names):
                            run.report(None, 'xnames-%d' % cid, dict(payload, workload=x['peer'], direction=d, entries=x[d]), 'two different exposure entries are printed under the same name')
                for f, parser in (('txt', lambda o: fmt.parse_exposure_txt(o)[0]), ('md', fmt.parse_exposure_md), ('csv', fmt.parse_exposure_csv), ('json', fmt.parse_exposure_json)):
                    o = xo[f]
                    try:
                        got = parser(o.get('out', ''))
                    except Exception as ex:
                        run.report(None, 'xunparsable-%d' % cid, dict(payload, format=f, output=o.get('out'), error=str(ex)), 'the exposure section of the %s output cannot be parsed back' % f)
                        break
                    want_f, _ = fmt.api_exposure_rows(o)
                    if got != want_f:
                        run.report(None, 'xrows-%s-%d' % (f, cid), dict(payload, format=f, output=o.get('out'), api_rows=want_f, parsed_rows=got, exposure=o.get('exposure')),
                                   'the exposure section of the %s output does not encode exactly the exposure entries of the analysis result' % f)
                        break
                    if got != want_rows:
                        run.report(None, 'xcross-%s-%d' % (f, cid), dict(payload, format=f), 'exposure sections of two formats disagree')
                        break
                else:
                    if fmt.parse_exposure_txt(xo['txt'].get('out', ''))[1] != want_unprot:
                        run.report(None, 'xunprot-%d' % cid, dict(payload, output=xo['txt'].get('out'), expected=want_unprot), 'the list of unprotected workloads does not match the analysis result')
            run.cov['traces_validated_against_impl'] += len(metas)
            if k == 0 and metas:
                run.sample({'list_txt': info[metas[0][0]][1]['txt'].get('out', '')[:600]})
            text = ['From Coq Require Import List ZArith String.', 'From NP Require Import IntervalSet ConnSet World Build Connlist Diff Format DiffDot XFormat XFormatMore XDot RowInj DiffInj DiffCsvInj DotInj.',
                    'Import ListNotations.', 'Open Scope Z_scope.', 'Definition lcases : list fmt_case := [', ';\n'.join(lcases), '].',
                    'Definition dcases : list dfmt_case := [', ';\n'.join(dcases), '].',
                    'Definition xcases : list xfmt_case := [', ';\n'.join(xcases), '].', 'Definition XM := Eval vm_compute in xfmt_mismatches xcases.',
                    'Definition ddcases : list ddot_case := [', ';\n'.join(ddcases), '].', 'Definition DDM := Eval vm_compute in ddot_mismatches ddcases.',
                    'Definition xdcases : list xdot_case := [', ';\n'.join(xdcases), '].', 'Definition XDM := Eval vm_compute in xdot_mismatches xdcases.',
                    'Definition x3cases : list xfmt3_case := [', ';\n'.join(x3cases), '].', 'Definition X3M := Eval vm_compute in xfmt3_mismatches x3cases.',
                    'Definition tcases : list dot_case := [', ';\n'.join(tcases), '].', 'Definition TM := Eval vm_compute in (dot_mismatches tcases ++ dot_printable_mismatches tcases)%list.',
                    'Definition MM := Eval vm_compute in fmt_mismatches lcases.', 'Definition DM := Eval vm_compute in dfmt_mismatches dcases.', 'Definition PM := Eval vm_compute in printable_mismatches lcases.', 'Definition DPM := Eval vm_compute in dcsv_printable_mismatches dcases.', 'Print MM.', 'Print DM.', 'Print PM.', 'Print TM.', 'Print XM.', 'Print X3M.', 'Print DDM.', 'Print DPM.', 'Print XDM.']
            rc, out, err = core.run_coq_text('\n'.join(text))
            if rc != 0:
                raise RuntimeError('coqc on format cases failed: ' + err[-1500:])
            names = {1: 'txt', 2: 'md', 3: 'csv', 4: 'json'}
            for cid, code in (core.parse_pairs(out, 'MM') or [])[:4]:
                payload, lo, do = info[cid]
                run.report(None, 'bytes-%s-%d' % (names[code], cid), dict(payload, format=names[code], output=lo[names[code]]['out']),
                           'list %s output differs byte-wise from the format model applied to the API result' % names[code])
            xm = core.parse_pairs(out, 'XM')
            if xm is None:
                raise RuntimeError('no XM in coqc output')
            for cid, code in xm[:4]:
                payload, xo = xinfo[cid]
                if code == 8:
                    run.report(None, 'xties-%d' % cid, dict(payload, format='txt', output=xo['txt'].get('out'), exposure=xo['txt'].get('exposure')),
                               'two lines of an exposure section name the same workload and the same other end: sort.Slice leaves their order unspecified')
                else:
                    run.report(None, 'xbytes-txt-%d' % cid, dict(payload, format='txt', output=xo['txt'].get('out'), exposure=xo['txt'].get('exposure')),
                               'list --exposure txt output differs byte-wise from the exposure-format model applied to the API result')
            xdm = core.parse_pairs(out, 'XDM')
            if xdm is None:
                raise RuntimeError('no XDM in coqc output')
            for cid, code in xdm[:4]:
                payload, xo = xinfo[cid]
                if code == 9:
                    run.report(None, 'xnodes-%d' % cid, dict(payload, format='dot', output=xo['dot'].get('out'), exposure=xo['dot'].get('exposure')),
                               'two exposure entries share a dot node name but not its label / namespace: which one is drawn depends on the order they are met in')
                else:
                    run.report(None, 'xbytes-dot-%d' % cid, dict(payload, format='dot', output=xo['dot'].get('out'), exposure=xo['dot'].get('exposure')),
                               'list --exposure dot output differs byte-wise from the exposure-format model applied to the API result')
            dpm = core.parse_pairs(out, 'DPM')
            if dpm is None:
                raise RuntimeError('no DPM in coqc output')
            for cid, code in dpm[:4]:
                payload, lo, do = info[cid]
                run.report(None, 'dunprintable-%d' % cid, dict(payload, format='md', output=do['md'].get('out')),
                           'an entry of the ConnectivityDiff is outside the domain on which the diff rendering is proved injective (non-canonical set, a non-empty absent side, equal ends, or an unusual peer name)')
            ddm = core.parse_pairs(out, 'DDM')
            if ddm is None:
                raise RuntimeError('no DDM in coqc output')
            for cid, code in ddm[:4]:
                payload, lo, do = info[cid]
                run.report(None, 'dbytes-dot-%d' % cid, dict(payload, format='dot', output=do['dot'].get('out')),
                           'diff dot output differs byte-wise from the format model applied to the API result')
            x3m = core.parse_pairs(out, 'X3M')
            if x3m is None:
                raise RuntimeError('no X3M in coqc output')
            for cid, code in x3m[:4]:
                payload, xo = xinfo[cid]
                f = names[code]
                run.report(None, 'xbytes-%s-%d' % (f, cid), dict(payload, format=f, output=xo[f].get('out'), exposure=xo['txt'].get('exposure')),
                           'list --exposure %s output differs byte-wise from the exposure-format model applied to the API result' % f)
            tm = core.parse_pairs(out, 'TM')
            if tm is None:
                raise RuntimeError('no TM in coqc output')
            for cid, code in tm[:4]:
                payload, lo, do = info[cid]
                if code in (7, 8):
                    run.report(None, 'dotunprintable-%d' % cid, dict(payload, format='dot', output=lo['dot']['out']),
                               'an entry or a peer of the report is outside the domain on which the dot rendering is proved injective (a quote, blank or line break in a peer string, a line break in a label or namespace)')
                    continue
                run.report(None, 'bytes-dot-%d' % cid, dict(payload, format='dot', output=lo['dot']['out']),
                           'list dot output differs byte-wise from the format model applied to the API result')
            pm = core.parse_pairs(out, 'PM')
            if pm is None:
                raise RuntimeError('no PM in coqc output')
            for cid, code in pm[:4]:
                payload, lo, do = info[cid]
                run.report(None, 'unprintable-%d' % cid, dict(payload, format='txt', output=lo['txt']['out']),
                           'an entry of the API result is outside the domain on which the rendering is proved injective (non-canonical connection set, or a peer name with a blank/comma/quote or made of address characters only)')
            for cid, code in (core.parse_pairs(out, 'DM') or [])[:4]:
                payload, lo, do = info[cid]
                run.report(None, 'dbytes-%s-%d' % (names[code], cid), dict(payload, format=names[code], output=do[names[code]].get('out')),
                           'diff %s output differs byte-wise from the format model applied to the API result' % names[code])
            k += shard
    finally:
        h.close()
    return run.finish()


def replay(payload):
    run = core.Run('C09', 'quick')
    run.stage_proofs()
    core.build_go(['verifapi'], run.log)
    h = listcorr.Harness()
    try:
        p1 = h.dir_for('a')
        gen.write_dir(p1, payload['manifests'])
        f = payload.get('format', 'txt')
        if payload.get('kind') == 'exposure-format':
            o = h.run([{'id': 'x', 'cmd': 'list', 'dir': p1, 'format': 'txt', 'exposure': True, 'want_out': True}])[0]
            run.count(1)
            if o['outcome'] == 'ok':
                rows, unprot = fmt.api_exposure_rows(o)
                bad = [e for x in o.get('exposure') or [] for d in ('ingress', 'egress') for e in x[d] if not fmt.exposure_conn_consistent(e)]
                if bad or fmt.parse_exposure_txt(o.get('out', '')) != (rows, unprot):
                    run.report(None, 'replay', payload, 'the exposure section does not encode the exposure result')
            return run.finish()
        o = h.run([{'id': 'l', 'cmd': 'list', 'dir': p1, 'format': f, 'want_out': True}])[0]
        run.count(1)
        if o['outcome'] == 'ok' and f in fmt.LIST_PARSERS and fmt.LIST_PARSERS[f](o['out']) != fmt.api_rows(o):
            run.report(None, 'replay', payload, 'format does not encode the result')
    finally:
        h.close()
    return run.finish()
