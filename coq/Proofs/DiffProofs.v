(* DiffProofs.v — what the pointwise diff checker decides, and the classification / merging steps of the
   diff mirror (Model/Diff.v).  No axioms. *)
From Coq Require Import List ZArith Bool String Lia.
From NP Require Import IntervalSet IntervalSetProofs ConnSet ConnSetProofs World Build Connlist Diff.
Import ListNotations.
Open Scope list_scope.
Open Scope Z_scope.

(* ---------- the checker ---------- *)
Theorem diff_exact_b_spec es1 ps1 es2 ps2 d :
  diff_exact_b es1 ps1 es2 ps2 d = true ->
  forall s t, In s (pt_dedup (dpts ps1 ps2 d)) -> In t (pt_dedup (dpts ps1 ps2 d)) ->
    match s, t with
    | PA _, PA _ => d_covering d s t = []
    | _, _ => point_exact es1 ps1 es2 ps2 d s t = true
    end.
Proof.
  unfold diff_exact_b. intros H s t Hs Ht.
  rewrite forallb_forall in H. specialize (H s Hs). rewrite forallb_forall in H. specialize (H t Ht).
  destruct s, t; try exact H. destruct (d_covering d (PA a) (PA a0)); [reflexivity | discriminate].
Qed.

(* what point_exact says at a point where it holds *)
Theorem point_exact_meaning es1 ps1 es2 ps2 d s t :
  point_exact es1 ps1 es2 ps2 d s t = true ->
  match lookup_pt es1 s t, lookup_pt es2 s t with
  | None, None => d_covering d s t = []
  | c1, c2 =>
      exists e, d_covering d s t = [e] /\
        match c1, c2 with
        | Some a, Some b => de_type e = (if cs_struct_eqb a b then DUnchanged else DChanged) /\ de_c1 e = a /\ de_c2 e = b /\
                            de_src_flag e = false /\ de_dst_flag e = false
        | None, Some b => de_type e = DAdded /\ cs_isempty (de_c1 e) = true /\ de_c2 e = b /\
                          de_src_flag e = want_flag (workloads_of_peers ps1) s /\ de_dst_flag e = want_flag (workloads_of_peers ps1) t
        | Some a, None => de_type e = DRemoved /\ de_c1 e = a /\ cs_isempty (de_c2 e) = true /\
                          de_src_flag e = want_flag (workloads_of_peers ps2) s /\ de_dst_flag e = want_flag (workloads_of_peers ps2) t
        | None, None => False
        end
  end.
Proof.
  unfold point_exact.
  assert (T : forall a b, dtype_eqb a b = true -> a = b) by (intros [] []; cbn; congruence).
  assert (B : forall a b, Bool.eqb a b = true -> a = b) by (intros [] []; cbn; congruence).
  destruct (lookup_pt es1 s t) as [a|], (lookup_pt es2 s t) as [b|], (d_covering d s t) as [|e [|e' l]]; try discriminate; intros H.
  - exists e. split; [reflexivity|]. repeat (apply andb_true_iff in H; destruct H as [H ?]).
    apply T in H. apply (proj1 (cs_struct_eqb_spec _ _)) in H3, H2. apply negb_true_iff in H1, H0. auto.
  - exists e. split; [reflexivity|]. repeat (apply andb_true_iff in H; destruct H as [H ?]).
    apply T in H. apply (proj1 (cs_struct_eqb_spec _ _)) in H3. apply B in H1, H0. auto.
  - exists e. split; [reflexivity|]. repeat (apply andb_true_iff in H; destruct H as [H ?]).
    apply T in H. apply (proj1 (cs_struct_eqb_spec _ _)) in H2. apply B in H1, H0. auto.
  - reflexivity.
Qed.

(* ---------- classification ---------- *)
Theorem classify_both w1 w2 s t a b :
  classify w1 w2 (mkDP s t (Some a) (Some b)) =
  [mkDE s t a b (if cs_equal a b then DUnchanged else DChanged) false false].
Proof. reflexivity. Qed.

Theorem classify_equal_is_unchanged w1 w2 s t a :
  classify w1 w2 (mkDP s t (Some a) (Some a)) = [mkDE s t a a DUnchanged false false].
Proof. cbn [classify dp_c1 dp_c2 dp_src dp_dst]. rewrite (proj2 (cs_equal_spec a a) eq_refl). reflexivity. Qed.

(* ---------- re-merging the ranges of a group never changes which addresses are covered ---------- *)
Theorem merged_ranges_cover_same ranges a :
  imem a (icanon_of ranges) = existsb (in_ivl a) ranges.
Proof. apply icanon_of_mem. Qed.

Theorem merged_ranges_canonical ranges : canon (icanon_of ranges).
Proof. apply icanon_of_canon. Qed.
