# C16 — --focusworkload is a pure filter of the full report.
# For every world and every workload name present (both spellings), names shared across namespaces, absent names and
# `ingress-controller`: the real `list --focusworkload W` against the real unfocused `list`, related by a Coq-evaluated
# checker (focus_filter_b); nothing matching => empty result + warning, never an error; formats on a sample.
import os, subprocess
from . import c08, c10
from .lib import core, gen, listcorr, meta, fmt
from .lib.core import cstr, cnat, clist


def short_ids(obs_list):
    ids = {}
    def rn(s):
        if s not in ids:
            ids[s] = 'w%d' % len(ids)
        return ids[s]
    return rn


def c_entries(o, rn):
    ipset = {p['str'] for p in o['peers'] if p['ip']}
    def rp(s):
        if s in ipset or (s[:1].isdigit() and '-' in s and '/' not in s):
            return gen.c_rpeer(s, True)
        return gen.c_rpeer(rn(s), False)
    return clist(['(mkRE %s %s %s)' % (rp(e['src']), rp(e['dst']), gen.c_conn(e['conn'])) for e in o['conns']])


def main(tier):
    run = core.Run('C16', tier)
    run.cov['rule'] = ('random worlds (NetworkPolicy, sometimes ANP/BANP, workload names deliberately shared across namespaces) x focus values: every workload name, namespace/name, '
                       'absent names, `ingress-controller`; the focused report of the real `list` must equal the unfocused report filtered to entries whose source or destination matches '
                       '(decided by the Coq-evaluated checker focus_filter_b), with identical connections; nothing matching => ok + empty + warning; '
                       'non-trivial = the focus matches a workload and filters out at least one entry; distinct by (scenario, focus)')
    run.stage_proofs()
    b = core.build_go(['verifapi', 'k8snetpolicy'], run.log)
    if not (b['verifapi'][0] and b['k8snetpolicy'][0]):
        run.proof_ok = False
        run.proof_notes.append('harness verifapi or the CLI does not build against this tree: ' + (b['verifapi'][1] + b['k8snetpolicy'][1])[-600:])
        return run.finish()
    binp = os.path.join(core.BUILD, 'k8snetpolicy')
    n = 100 if tier == 'quick' else 2500
    h = listcorr.Harness()
    try:
        shard, k = 50, 0
        while k < n and len(run.violations) < 3:
            cmds, meta_, dotcmds, dotmeta = [], [], [], []
            for i in range(min(shard, n - k)):
                cid = k + i
                W = gen.gen_world(run.rng, anp=(cid % 4 == 0))
                # share workload names across namespaces
                if len(W['workloads']) >= 2 and run.rng.random() < 0.5:
                    a, b_ = run.rng.sample(W['workloads'], 2)
                    if a['ns'] != b_['ns']:
                        b_['name'] = a['name']
                if run.rng.random() < 0.15:
                    run.rng.choice(W['workloads'])['name'] = 'ingress-controller'      # a real workload with the synthetic pod's name
                if len(W['workloads']) >= 2 and run.rng.random() < 0.5:
                    a, b_ = run.rng.sample(W['workloads'], 2)
                    b_['name'] = run.rng.choice(['x', 'asset-', 'a']) + a['name']     # one name is a proper suffix of another
                if run.rng.random() < 0.4:
                    # Services / Ingresses / Routes: the {ingress-controller} lines are filtered by their target like any other entry
                    for w in W['workloads']:
                        if not w['ports']:
                            w['ports'].append({'port': run.rng.choice(gen.PORTS), 'proto': 'TCP', 'name': ''})
                    objs = c10.gen_ingress_objs(run.rng, W)
                    # ... and every workload is certainly targeted once (one Service each, one Ingress per namespace), so that names
                    # containing one another meet among the {ingress-controller} lines
                    for wi, w in enumerate(W['workloads']):
                        if not w['labels']:
                            w['labels'] = {'app': 'l%d' % wi}
                        tcp = [p_ for p_ in w['ports'] if p_['proto'] == 'TCP']
                        if not tcp:
                            w['ports'].append({'port': 8000 + wi, 'proto': 'TCP', 'name': ''})
                            tcp = [w['ports'][-1]]
                        objs.append({'kind': 'Service', 'ns': w['ns'], 'name': 'tsvc%d' % wi, 'selector': dict(w['labels']),
                                     'ports': [{'name': '', 'port': 80, 'targetPort': tcp[0]['port']}]})
                    for ns_ in sorted({w['ns'] for w in W['workloads']}):
                        rules = [[{'svc': 'tsvc%d' % wi, 'pname': '', 'pnum': 80}] for wi, w in enumerate(W['workloads']) if w['ns'] == ns_]
                        objs.append({'kind': 'Ingress', 'ns': ns_, 'name': 'ting', 'default': None, 'rules': rules})
                    W['others'] = c08.dedupe_named([c10.manifest(o) for o in objs])
                dl = gen.docs(W)
                d = h.dir_for('c%d' % cid)
                gen.write_dir(d, [m for m, _ in dl])
                names = set()
                for w in W['workloads']:
                    nm = (w.get('owner') or {}).get('name') if w['kind'] == 'Pod' and w.get('owner') else w['name']
                    names.add(nm); names.add(w['ns'] + '/' + nm)
                focuses = sorted(names)
                if len(focuses) > 5:
                    focuses = run.rng.sample(focuses, 5)
                anyname = sorted(names)[0]
                bare = sorted(x for x in names if '/' not in x)
                focuses += [run.rng.choice(['nosuch', 'ns1/nosuch', 'w0x']), 'ingress-controller',
                            anyname[1:] if len(anyname) > 1 else 'zz', anyname[:-1] if len(anyname) > 1 else 'zz',   # proper suffix / prefix of a present name
                            run.rng.choice(bare).upper(),                 # the same letters in another case: names are case sensitive
                            'default/' + run.rng.choice(bare),            # namespace/name with the default namespace spelled out
                            run.rng.choice(sorted(x for x in names if '/' in x)) + run.rng.choice(['/', '/v2'])]   # more than one slash names nothing
                cmds.append({'id': 'f%d' % cid, 'cmd': 'list', 'dir': d})
                for f in focuses:
                    cmds.append({'id': '%d:%s' % (cid, f), 'cmd': 'list', 'dir': d, 'focus': f})
                # the dot output under focus (it is drawn from the focused peers list): same edges as the focused report
                dotf = ['ingress-controller', focuses[0]]
                for f in dotf:
                    dotcmds.append({'id': 'dot', 'cmd': 'list', 'dir': d, 'focus': f, 'format': 'dot', 'want_out': True})
                dotmeta.append((cid, W, dl, dotf))
                meta_.append((cid, W, dl, focuses, d))
            outs = h.run(cmds)
            douts = h.run(dotcmds)
            dpos = 0
            for cid, W, dl, dotf in dotmeta:
                for f in dotf:
                    o = douts[dpos]; dpos += 1
                    run.dist('dot-under-focus')
                    if o['outcome'] != 'ok' or o.get('out_err'):
                        continue
                    try:
                        rows = fmt.LIST_PARSERS['dot'](o.get('out', ''))
                    except Exception as ex:
                        rows = ['unparsable: %s' % ex]
                    if rows != fmt.api_rows(o):
                        run.report(None, 'dotfocus-%d' % cid, {'kind': 'focus-dot', 'focus': f, 'world': W, 'manifests': [m for m, _ in dl], 'output': o.get('out'),
                                                              'api_rows': fmt.api_rows(o), 'parsed_rows': rows},
                                   'the dot output of list --focusworkload does not hold exactly the entries of the focused report')
                        break
            pos = 0
            cases, info = [], {}
            for cid, W, dl, focuses, d_ in meta_:
                full = outs[pos]; pos += 1
                for f in focuses:
                    of = outs[pos]; pos += 1
                    run.count(1)
                    key = len(info)
                    payload = {'kind': 'focus', 'focus': f, 'world': W, 'manifests': [m for m, _ in dl],
                               'how': 'k8snetpolicy list --dirpath DIR -o json [--focusworkload W]'}
                    if of['outcome'] == 'panic':
                        run.report(None, 'panic-%d' % key, payload, 'list --focusworkload panicked')
                        continue
                    if f.startswith('default/') or (cid % 5 == 0 and f == focuses[0]):
                        # the command line itself (the flag is parsed by the CLI before it reaches the library)
                        pr = subprocess.run([binp, 'list', '--dirpath', d_, '-o', 'json', '--focusworkload', f, '-q'], capture_output=True, text=True, timeout=300)
                        run.dist('cli:run')
                        if of['outcome'] == 'ok':
                            try:
                                rows = fmt.LIST_PARSERS['json'](pr.stdout) if pr.returncode == 0 else None
                            except Exception:
                                rows = None
                            if rows != fmt.api_rows(of):
                                run.report(None, 'cli-%d' % key, dict(payload, args=['list', '--dirpath', 'DIR', '-o', 'json', '--focusworkload', f], exit=pr.returncode,
                                                                        stdout=pr.stdout[-2000:], library_rows=fmt.api_rows(of)),
                                           'k8snetpolicy list --focusworkload prints a different report than the library computes for the same focus')
                                continue
                    if full['outcome'] != 'ok':
                        run.dist('skipped:unfocused-analysis-error')
                        continue
                    matching = [p['str'] for p in full['peers'] if not p['ip'] and (p['name'] == f or (p['ns'] + '/' + p['name']) == f)]
                    if f == 'ingress-controller':
                        matching = matching + [p for p in ['{ingress-controller}'] if any(e['src'] == p for e in full['conns'])]
                    if of['outcome'] != 'ok':
                        run.report(None, 'err-%d' % key, dict(payload, error=of.get('err')), 'focused list fails where the unfocused list succeeds')
                        continue
                    if not matching and f == 'ingress-controller' and W.get('others'):
                        # with Services/Ingresses/Routes in the input the ingress-controller pod exists even when it reaches nothing:
                        # an empty result without a warning is right then (and whether the analyzer counts as non-empty is its business)
                        run.dist('focus:ingress-controller-without-lines')
                        if of['conns']:
                            run.report(None, 'absent-%d' % key, dict(payload, observed=of), 'entries reported for a focus that matches nothing')
                        continue
                    if not matching:
                        run.dist('focus:absent')
                        if of['conns'] or not any(e['sev'] == 'warning' for e in of['errors']) or any(e['sev'] != 'warning' for e in of['errors'] if 'exist' in e['msg'].lower()):
                            run.report(None, 'absent-%d' % key, dict(payload, observed=of), 'nothing matches the focus: expected an empty result with a warning')
                        continue
                    run.dist('focus:present')
                    rn = short_ids(None)
                    info[key] = (payload, full, of)
                    kept = [e for e in full['conns'] if e['src'] in matching or e['dst'] in matching]
                    if len(kept) < len(full['conns']) and kept:
                        run.nontrivial([f, W])
                    cases.append('(mkFC %s %s %s %s)' % (cnat(key), clist([cstr(rn(s)) for s in matching]), c_entries(full, rn), c_entries(of, rn)))
            run.cov['traces_validated_against_impl'] += len(meta_)
            if k == 0 and meta_:
                run.sample({'focuses': meta_[0][3], 'world': meta_[0][1]})
            text = list(listcorr.HEADER) + ['Definition cases : list focus_case := [', ';\n'.join(cases), '].',
                                            'Definition MM := Eval vm_compute in focus_mismatches cases.', 'Print MM.']
            rc, out, err = core.run_coq_text('\n'.join(text))
            if rc != 0:
                raise RuntimeError('coqc on focus cases failed: ' + err[-1500:])
            for key, _ in core.parse_pairs(out, 'MM') or []:
                payload, full, of = info[key]
                run.report(None, 'filter-%d' % key, dict(payload, unfocused=full['conns'], focused=of['conns']),
                           'the focused report is not the unfocused report filtered by the focus workload')
            k += shard
    finally:
        h.close()
    return run.finish()


def replay(payload):
    run = core.Run('C16', 'quick')
    run.stage_proofs()
    core.build_go(['verifapi'], run.log)
    h = listcorr.Harness()
    try:
        d = h.dir_for('r')
        gen.write_dir(d, payload['manifests'])
        outs = h.run([{'id': 'a', 'cmd': 'list', 'dir': d}, {'id': 'b', 'cmd': 'list', 'dir': d, 'focus': payload['focus']}])
        full, of = outs
        f = payload['focus']
        matching = [p['str'] for p in full['peers'] if not p['ip'] and (p['name'] == f or (p['ns'] + '/' + p['name']) == f)]
        want = sorted(json_key(e) for e in full['conns'] if e['src'] in matching or e['dst'] in matching)
        got = sorted(json_key(e) for e in of['conns'])
        run.count(1)
        if of['outcome'] != 'ok' or want != got:
            run.report(None, 'replay', payload, 'focused report differs from the filtered unfocused report')
    finally:
        h.close()
    return run.finish()


def json_key(e):
    import json
    return json.dumps(e, sort_keys=True)
