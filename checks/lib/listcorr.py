# Shared driver for the checks that compare `list` results of the implementation with the Gallina
# model (Model/Connlist.v list_objs) and run the verified well-formedness checker on the
# implementation's own reports.
import json, os, shutil, subprocess, tempfile
from . import core, gen


class Harness:
    """one verifapi process per batch of commands; scratch cwd (the engine's cache writes a log file there)"""

    def __init__(self):
        self.tmp = tempfile.mkdtemp(prefix='verif-h-')

    def run(self, cmds, timeout=1800):
        inp = '\n'.join(json.dumps(c) for c in cmds) + '\n'
        p = subprocess.run([os.path.join(core.BUILD, 'verifapi')], input=inp, capture_output=True, text=True,
                           timeout=timeout, cwd=self.tmp)
        outs = [json.loads(l) for l in p.stdout.splitlines() if l.strip()]
        if len(outs) != len(cmds):
            raise RuntimeError('verifapi: %d answers for %d commands (rc=%s) %s' % (len(outs), len(cmds), p.returncode, p.stderr[-800:]))
        return outs

    def dir_for(self, name):
        d = os.path.join(self.tmp, name)
        shutil.rmtree(d, ignore_errors=True)
        os.makedirs(d)
        return d

    def close(self):
        shutil.rmtree(self.tmp, ignore_errors=True)


CODES = {1: 'ok/error outcome differs between implementation and model', 2: 'reported (src,dst,connection) entries differ',
         3: 'peer lists differ', 4: 'focus-workload warning differs', 5: 'implementation panicked',
         6: 'the implementation\'s report is not a well-formed canonical relation (C05 checker)'}

HEADER = ['From Coq Require Import List ZArith String.',
          'From NP Require Import IntervalSet ConnSet World Eval Build Connlist.',
          'Import ListNotations.', 'Open Scope Z_scope.']


def model_mismatches(cases):
    """cases: list of (id, objs_terms, focus, obs) -> list of (id, code)"""
    text = list(HEADER)
    text.append('Definition cases : list list_case := [')
    text.append(';\n'.join('(mkLC %s %s %s %s)' % (core.cnat(cid), core.clist(objs), core.cstr(focus), gen.c_obs_list(obs))
                           for cid, objs, focus, obs in cases))
    text.append('].')
    text.append('Definition MM := Eval vm_compute in list_mismatches cases.')
    text.append('Print MM.')
    rc, out, err = core.run_coq_text('\n'.join(text))
    if rc != 0:
        raise RuntimeError('coqc on list cases failed: ' + err[-2000:])
    mm = core.parse_pairs(out, 'MM')
    if mm is None:
        raise RuntimeError('could not parse coqc output: ' + out[-800:])
    return mm


def eval_list(h, scenarios, focus_of=None, shuffle_rng=None):
    """scenarios: list of (id, world).  Returns per id: (docs, obs, focus) and the mismatch list."""
    cmds, meta = [], {}
    for cid, W in scenarios:
        dl = gen.docs(W)
        if shuffle_rng is not None:
            shuffle_rng.shuffle(dl)
        d = h.dir_for('c%d' % cid)
        gen.write_dir(d, [m for m, _ in dl])
        focus = focus_of(cid, W) if focus_of else ''
        cmds.append({'id': str(cid), 'cmd': 'list', 'dir': d, 'focus': focus})
        meta[cid] = (dl, focus)
    outs = h.run(cmds)
    cases = []
    res = {}
    for (cid, W), o in zip(scenarios, outs):
        dl, focus = meta[cid]
        cases.append((cid, [t for _, t in dl], focus, o))
        res[cid] = {'docs': dl, 'obs': o, 'focus': focus, 'world': W}
    mm = model_mismatches(cases)
    return res, mm
