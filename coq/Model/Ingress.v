(* Ingress.v — Ingress / Route -> Service -> workload analysis and its intersection with the policies:
     /repo/pkg/netpol/connlist/internal/ingressanalyzer/ingress_analyzer.go
         (mapServiceToPeers, getRouteServices, getK8sIngressServices, getServiceInfo,
          allowedIngressConnectionsByResourcesType, getIngressObjectTargetedPeersAndPorts,
          getIngressPeerConnection, getPeerAccessPort, mergeResults, IsEmpty)
     /repo/pkg/netpol/connlist/connlist.go   (getConnectionsList's tail, getIngressAllowedConnections,
                                              warnBlockedIngress)
     /repo/pkg/netpol/eval/resources.go      (GetSelectedPeers, ConvertPeerNamedPort, AddPodByNameAndNamespace)
     /repo/pkg/netpol/eval/internal/k8s/pod.go (PodExposedTCPConnections, ConvertPodNamedPort)
   Go maps become association lists with insert-or-overwrite; a map from peers to accumulated
   connection sets becomes, per workload, the union over the objects that reach it.
   [strict] selects how a k8s-Ingress backend designates a service port:
     strict = true  : by the service port's number or name (what C10 states and what Kubernetes does);
     strict = false : additionally by the service port's targetPort, as getPeerAccessPort does for every
                      kind of object (known finding c10-ingress-backend-by-targetport).
   Executable definitions only. *)
From Coq Require Import List ZArith Bool String.
From NP Require Import IntervalSet ConnSet World Eval Build Connlist.
Import ListNotations.
Open Scope string_scope.
Open Scope list_scope.
Open Scope Z_scope.

(* intstr.IntOrString, all three fields (Go compares the structs with ==) *)
Record ios := mkIOS { io_is_str : bool; io_int : Z; io_str : string }.
Definition ios_eqb (a b : ios) : bool :=
  Bool.eqb (io_is_str a) (io_is_str b) && (io_int a =? io_int b) && String.eqb (io_str a) (io_str b).
Definition ios_unset (a : ios) : bool := (io_int a =? 0) && String.eqb (io_str a) "".
Definition ios_num (n : Z) : ios := mkIOS false n "".
Definition ios_name (s : string) : ios := mkIOS true 0 s.
Definition ios_none : ios := mkIOS false 0 "".

Record svc_port := mkSP { sp_name : string; sp_port : Z; sp_target : ios }.
Record service := mkSvc { sv_ns : string; sv_name : string; sv_sel : option labels; sv_ports : list svc_port }.

(* netv1.IngressServiceBackend: port name and number are mutually exclusive *)
Record backend_ref := mkBR { br_svc : string; br_pname : string; br_pnum : Z }.
(* an Ingress: the default backend and, per rule, its http paths (None = rule without http);
   a backend is None when it is not a Service (resource backend) *)
Record ing_doc := mkIngDoc { ig_ns : string; ig_name : string;
                             ig_default : option (option backend_ref);
                             ig_rules : list (option (list (option backend_ref))) }.
(* a Route: spec.port.targetPort (if spec.port is set), spec.to (kind, name), alternateBackends (kind, name) *)
Record route_doc := mkRouteDoc { rt_ns : string; rt_name : string; rt_port : option ios;
                                 rt_to : string * string; rt_alts : list (string * string) }.

Inductive iobj := ISvc (s : service) | IIng (d : ing_doc) | IRoute (d : route_doc).

(* serviceInfo *)
Record svc_ref := mkSR { sr_svc : string; sr_port : ios }.

Definition kind_is_service (k : string) : bool := String.eqb k "" || String.eqb k "Service".

(* getRouteServices *)
Definition route_services (r : route_doc) : list svc_ref :=
  let port := match rt_port r with Some p => p | None => ios_none end in
  (if kind_is_service (fst (rt_to r)) then [mkSR (snd (rt_to r)) port] else []) ++
  flat_map (fun b => if kind_is_service (fst b) then [mkSR (snd b) port] else []) (rt_alts r).

(* getServiceInfo: the Type field stays Int also for a port name *)
Definition backend_service (b : backend_ref) : svc_ref :=
  if negb (String.eqb (br_pname b) "") then mkSR (br_svc b) (mkIOS false 0 (br_pname b))
  else mkSR (br_svc b) (mkIOS false (br_pnum b) "").

(* getK8sIngressServices *)
Definition ingress_services (d : ing_doc) : list svc_ref :=
  (match ig_default d with Some (Some b) => [backend_service b] | _ => [] end) ++
  flat_map (fun r => match r with
                     | None => []
                     | Some paths => flat_map (fun p => match p with Some b => [backend_service b] | None => [] end) paths
                     end) (ig_rules d).

(* ---- the analyzer's three maps ---- *)
Definition key2 := (string * string)%type.
Definition key2_eqb (a b : key2) : bool := String.eqb (fst a) (fst b) && String.eqb (snd a) (snd b).
Fixpoint upsert {A} (k : key2) (v : A) (l : list (key2 * A)) : list (key2 * A) :=
  match l with
  | [] => [(k, v)]
  | (k', v') :: t => if key2_eqb k k' then (k, v) :: t else (k', v') :: upsert k v t
  end.
Fixpoint lookup2 {A} (k : key2) (l : list (key2 * A)) : option A :=
  match l with
  | [] => None
  | (k', v) :: t => if key2_eqb k k' then Some v else lookup2 k t
  end.

(* GetSelectedPeers: workloads of that namespace whose (representative pod's) labels satisfy the selector *)
Definition selected_peers (wls : list (string * pod)) (ns : string) (sel : labels) : list (string * pod) :=
  filter (fun e => String.eqb (p_ns (snd e)) ns && labels_sub sel (p_labels (snd e))) wls.

Record analyzer := mkIA {
  ia_svcs : list (key2 * (list (string * pod) * list svc_port));
  ia_routes : list (key2 * list svc_ref);
  ia_ings : list (key2 * list svc_ref)
}.

Definition ia_add (wls : list (string * pod)) (ia : analyzer) (o : iobj) : analyzer :=
  match o with
  | ISvc s =>
      match sv_sel s with
      | None => ia                                   (* service without selector: ignored *)
      | Some sel =>
          match selected_peers wls (sv_ns s) sel with
          | [] => ia                                 (* selects nothing: ignored *)
          | ps => mkIA (upsert (sv_ns s, sv_name s) (ps, sv_ports s) (ia_svcs ia)) (ia_routes ia) (ia_ings ia)
          end
      end
  | IRoute r =>
      match route_services r with
      | [] => ia
      | l => mkIA (ia_svcs ia) (upsert (rt_ns r, rt_name r) l (ia_routes ia)) (ia_ings ia)
      end
  | IIng d =>
      match ingress_services d with
      | [] => ia
      | l => mkIA (ia_svcs ia) (ia_routes ia) (upsert (ig_ns d, ig_name d) l (ia_ings ia))
      end
  end.

Definition analyze (wls : list (string * pod)) (os : list iobj) : analyzer :=
  fold_left (ia_add wls) os (mkIA [] [] []).

(* IsEmpty *)
Definition ia_empty (ia : analyzer) : bool :=
  match ia_svcs ia with
  | [] => true
  | _ => match ia_routes ia, ia_ings ia with [], [] => true | _, _ => false end
  end.

(* ---- getPeerAccessPort ---- *)
Definition access_port (sp : svc_port) : ios :=
  if ios_unset (sp_target sp) then ios_num (sp_port sp) else sp_target sp.

(* does the service port match the required port?  [by_target]: the targetPort clause applies *)
Definition designates (by_target : bool) (sp : svc_port) (req : ios) : bool :=
  (negb (String.eqb (sp_name sp) "") && String.eqb (sp_name sp) (io_str req))
  || (sp_port sp =? io_int req)
  || (by_target && ios_eqb (sp_target sp) req).

Fixpoint access_ports (by_target : bool) (sps : list svc_port) (req : ios) : list ios :=
  match sps with
  | [] => []
  | sp :: t =>
      if ios_unset req then access_port sp :: access_ports by_target t req
      else if designates by_target sp req then [access_port sp]
      else access_ports by_target t req
  end.

(* PodExposedTCPConnections *)
Definition exposed_tcp (p : pod) : connset :=
  fold_left (fun acc c => match cp_proto c with
                          | TCP => cs_addconn acc TCP (ps_add_range (ps_make false) (cp_num c) (cp_num c))
                          | _ => acc
                          end) (p_ports p) (cs_make false).

(* the port number a pod access port means on this pod: None = no TCP container port of that name *)
Definition resolve_access (p : pod) (a : ios) : option Z :=
  if negb (String.eqb (io_str a) "")
  then match pod_named_port (p_ports p) (io_str a) with
       | Some (TCP, n) => if n <? 0 then None else Some n
       | _ => None
       end
  else Some (io_int a).

(* getIngressPeerConnection *)
Definition peer_ing_conn (by_target : bool) (p : pod) (sps : list svc_port) (req : ios) : connset :=
  let tcp := exposed_tcp p in
  fold_left (fun acc a =>
               match resolve_access p a with
               | Some n => if cs_contains tcp TCP n
                           then cs_addconn acc TCP (ps_add_num (ps_make false) n) else acc
               | None => acc
               end) (access_ports by_target sps req) (cs_make false).

(* accumulate into a map entry that may not exist yet *)
Definition opt_union (acc c : option connset) : option connset :=
  match c with
  | None => acc
  | Some x => Some (match acc with None => x | Some a => cs_union a x end)
  end.

(* one backend's contribution to workload [k]: None when the backend's service is unknown in the object's
   namespace or does not select the workload *)
Definition ref_conn (by_target : bool) (ia : analyzer) (ns : string) (k : string) (r : svc_ref) : option connset :=
  match lookup2 (ns, sr_svc r) (ia_svcs ia) with
  | None => None
  | Some (peers, ports) =>
      match find (fun e => String.eqb (fst e) k) peers with
      | None => None
      | Some e => Some (peer_ing_conn by_target (snd e) ports (sr_port r))
      end
  end.

(* one Ingress/Route object's contribution to workload [k]: None when no backend of the object is a
   service selecting the workload (the workload is then not in the object's result map) *)
Definition obj_conn (by_target : bool) (ia : analyzer) (ns : string) (refs : list svc_ref) (k : string)
  : option connset :=
  fold_left (fun acc r => opt_union acc (ref_conn by_target ia ns k r)) refs None.

(* allowedIngressConnectionsByResourcesType, for one workload: the names of the objects reaching it, and the union *)
Definition kind_names (by_target : bool) (ia : analyzer) (tbl : list (key2 * list svc_ref)) (k : string) : list string :=
  flat_map (fun o => match obj_conn by_target ia (fst (fst o)) (snd o) k with
                     | Some _ => [(fst (fst o) ++ "/" ++ snd (fst o))%string]
                     | None => []
                     end) tbl.
Definition kind_conn (by_target : bool) (ia : analyzer) (tbl : list (key2 * list svc_ref)) (k : string)
  : option connset :=
  fold_left (fun acc o => opt_union acc (obj_conn by_target ia (fst (fst o)) (snd o) k)) tbl None.

Record ing_target := mkIT { it_key : string; it_pod : pod; it_conn : connset;
                            it_ings : list string; it_routes : list string }.

(* AllowedIngressConnections: routes merged into ingresses *)
Definition ing_targets (strict : bool) (wls : list (string * pod)) (ia : analyzer) : list ing_target :=
  flat_map (fun e =>
              let rc := kind_conn true ia (ia_routes ia) (fst e) in
              let ic := kind_conn (negb strict) ia (ia_ings ia) (fst e) in
              match opt_union ic rc with
              | None => []
              | Some c => [mkIT (fst e) (snd e) c
                                (kind_names (negb strict) ia (ia_ings ia) (fst e))
                                (kind_names true ia (ia_routes ia) (fst e))]
              end) wls.

(* the ingress-controller pod and its namespace (AddPodByNameAndNamespace + resolveSingleMissingNamespace) *)
Definition ingress_pod : pod := mkPod IngressPodNamespace IngressPodName [] [] "" "" true.
Definition ingress_peer (w : world) : peer :=
  match find_ns IngressPodNamespace (w_nss w) with
  | Some n => PPod ingress_pod (ns_labels n)
  | None => PPod ingress_pod [(K8sNsNameLabelKey, IngressPodNamespace)]
  end.
Definition ingress_mpeer : mpeer :=
  mkMP (RW ("{" ++ IngressPodName ++ "}")%string) (Some ingress_pod) (0, 0) IngressPodName IngressPodNamespace.

(* a blocked-ingress warning: the workload, whether a k8s-Ingress is named (else a Route), and the
   objects one of which is named (Go names the first of a list filled in map-iteration order) *)
Record ing_warn := mkIW { iw_peer : string; iw_is_ing : bool; iw_objs : list string }.

(* getIngressAllowedConnections *)
Fixpoint ingress_lines (w : world) (focus : string) (ts : list ing_target)
  : outcome (list rentry * list ing_warn) :=
  match ts with
  | [] => Ok ([], [])
  | t :: rest =>
      let d := mkMP (RW (it_key t)) (Some (it_pod t)) (0, 0) (wl_name_of (it_pod t)) (p_ns (it_pod t)) in
      if include_pair focus ingress_mpeer d
      then do dp <- pod_peer w (it_pod t);
           do pc <- all_conns w (ingress_peer w) dp;
           do r <- ingress_lines w focus rest;
           let c := cs_inter (it_conn t) pc in
           if cs_isempty c
           then Ok (fst r, (match it_ings t with
                            | [] => mkIW (it_key t) false (it_routes t)
                            | l => mkIW (it_key t) true l
                            end) :: snd r)
           else Ok (mkRE (RW ("{" ++ IngressPodName ++ "}")%string) (RW (it_key t)) c :: fst r, snd r)
      else ingress_lines w focus rest
  end.

Record ing_result := mkIR { ir_list : list_result; ir_warns : list ing_warn }.

(* connsListFromParsedResources with Services, Ingresses and Routes *)
Definition list_world_ing (strict : bool) (w : world) (ios : list iobj) (focus : string) : outcome ing_result :=
  match w_pods w with
  | [] => Ok (mkIR (mkLR [] [] false) [])
  | _ =>
      if negb (owners_consistent (w_pods w)) then Err (ErrConflict cf_owner_labels)
      else
        let wls := workloads_of (w_pods w) [] in
        let ia := analyze wls ios in
        do r <- list_world w focus (negb (ia_empty ia));
        if lr_warn r || ia_empty ia then Ok (mkIR r [])
        else do lw <- ingress_lines w focus (ing_targets strict wls ia);
             Ok (mkIR (mkLR (lr_entries r ++ fst lw) (lr_peers r) false) (snd lw))
  end.

Definition list_objs_ing (strict : bool) (os : list obj) (ios : list iobj) (focus : string) : outcome ing_result :=
  do w <- build_world os;
  list_world_ing strict w ios focus.

(* ---------- the statement of C10, pointwise ----------
   [svc_of]: the service a name denotes in a namespace — the one the analyzer kept. *)
Definition spec_designates (is_route : bool) (sp : svc_port) (req : ios) : bool :=
  designates is_route sp req.

(* the pod port reached through a service for a required port: the access ports of the designated service port
   (all service ports when the backend names none), resolved on the workload, if TCP container ports *)
Definition tcp_container_port (p : pod) (n : Z) : bool :=
  existsb (fun c => proto_eqb (cp_proto c) TCP && (cp_num c =? n)) (p_ports p).
Definition reaches (by_target : bool) (p : pod) (sps : list svc_port) (req : ios) (n : Z) : bool :=
  existsb (fun a => match resolve_access p a with
                    | Some m => (m =? n) && tcp_container_port p n
                    | None => false
                    end) (access_ports by_target sps req).

(* some object of the table, in namespace of the service, has a backend naming a kept service that selects workload k
   and reaches port n *)
Definition table_reaches (by_target : bool) (ia : analyzer) (tbl : list (key2 * list svc_ref)) (k : string) (n : Z) : bool :=
  existsb (fun o =>
     existsb (fun r => match lookup2 (fst (fst o), sr_svc r) (ia_svcs ia) with
                       | None => false
                       | Some (peers, ports) =>
                           match find (fun e => String.eqb (fst e) k) peers with
                           | None => false
                           | Some e => reaches by_target (snd e) ports (sr_port r) n
                           end
                       end) (snd o)) tbl.

Definition table_targets (ia : analyzer) (tbl : list (key2 * list svc_ref)) (k : string) : bool :=
  existsb (fun o =>
     existsb (fun r => match lookup2 (fst (fst o), sr_svc r) (ia_svcs ia) with
                       | None => false
                       | Some (peers, _) => existsb (fun e => String.eqb (fst e) k) peers
                       end) (snd o)) tbl.

Definition spec_ing_port (strict : bool) (ia : analyzer) (k : string) (n : Z) : bool :=
  table_reaches true ia (ia_routes ia) k n || table_reaches (negb strict) ia (ia_ings ia) k n.
Definition spec_ing_targeted (ia : analyzer) (k : string) : bool :=
  table_targets ia (ia_routes ia) k || table_targets ia (ia_ings ia) k.

(* ---------- correspondence ---------- *)
Record obs_warn := mkOW { ow_is_ing : bool; ow_obj : string; ow_peer : string }.
Record ing_case := mkIC { ic_id : nat; ic_objs : list obj; ic_iobjs : list iobj; ic_focus : string;
                          ic_obs : obs_list; ic_warns : list obs_warn }.

Definition warn_matches (o : obs_warn) (m : ing_warn) : bool :=
  String.eqb (ow_peer o) (iw_peer m) && Bool.eqb (ow_is_ing o) (iw_is_ing m) && str_mem (ow_obj o) (iw_objs m).
Definition warns_eqb (os : list obs_warn) (ms : list ing_warn) : bool :=
  forallb (fun o => existsb (warn_matches o) ms) os
  && forallb (fun m => existsb (fun o => warn_matches o m) os) ms
  && Nat.eqb (List.length os) (List.length ms).

(* 0 agree; 1 ok/err class; 2 entries; 3 peers; 4 focus warning; 5 panic; 7 blocked-ingress warnings *)
Definition ing_case_code (strict : bool) (c : ing_case) : nat :=
  match ic_obs c, list_objs_ing strict (ic_objs c) (ic_iobjs c) (ic_focus c) with
  | ObsPanic, _ => 5%nat
  | ObsErr, Err _ => 0%nat
  | ObsErr, Ok _ => 1%nat
  | ObsOk _ _ _, Err _ => 1%nat
  | ObsOk es ps wn, Ok r =>
      if negb (entries_eqb es (lr_entries (ir_list r))) then 2%nat
      else if negb (rpeers_eqb ps (lr_peers (ir_list r))) then 3%nat
      else if negb (Bool.eqb wn (lr_warn (ir_list r))) then 4%nat
      else if negb (warns_eqb (ic_warns c) (ir_warns r)) then 7%nat else 0%nat
  end.

(* (id, code under the stated rule, code under the implementation's rule) for every case whose strict code is not 0 *)
Definition ing_mismatches (cs : list ing_case) : list (nat * (nat * nat)) :=
  flat_map (fun c => let k := ing_case_code true c in
                     if Nat.eqb k 0 then [] else [(ic_id c, (k, ing_case_code false c))]) cs.
