//go:build verif

// verifapi: correspondence harness over the PUBLIC API of netpol-analyzer (connlist, diff, eval,
// manifests).  Injected into the /repo module with `go build -tags verif -overlay` as
// pkg/netpol/verifapi; nothing is written to /repo.  Reads one JSON command per line on stdin
// and prints one canonical JSON observation per line on stdout: peers as strings, IP ranges as
// the strings the tool prints, connections as (all, proto -> [[lo,hi]]), errors as
// (severity, text), never map order, addresses or timestamps.  Every call runs under recover().
package main

import (
	"bufio"
	"encoding/json"
	"fmt"
	"io"
	"log"
	"os"
	"sort"
	"strings"

	appsv1 "k8s.io/api/apps/v1"
	batchv1 "k8s.io/api/batch/v1"
	corev1 "k8s.io/api/core/v1"
	netv1 "k8s.io/api/networking/v1"
	metav1 "k8s.io/apimachinery/pkg/apis/meta/v1"
	"k8s.io/apimachinery/pkg/runtime"
	apisv1a "sigs.k8s.io/network-policy-api/apis/v1alpha1"

	"github.com/np-guard/netpol-analyzer/pkg/manifests/fsscanner"
	"github.com/np-guard/netpol-analyzer/pkg/manifests/parser"
	"github.com/np-guard/netpol-analyzer/pkg/netpol/connlist"
	"github.com/np-guard/netpol-analyzer/pkg/netpol/diff"
	"github.com/np-guard/netpol-analyzer/pkg/netpol/eval"
)

type silentLogger struct{}

func (silentLogger) Debugf(string, ...interface{})        {}
func (silentLogger) Infof(string, ...interface{})         {}
func (silentLogger) Warnf(string, ...interface{})         {}
func (silentLogger) Errorf(error, string, ...interface{}) {}

type histOp struct {
	Op   string          `json:"op"`   // insert | delete | query | setres | clear
	Kind string          `json:"kind"` // Namespace Pod NetworkPolicy AdminNetworkPolicy BaselineAdminNetworkPolicy Deployment ...
	Obj  json.RawMessage `json:"obj"`
	Q    []string        `json:"q"` // src dst proto port
	// setres
	Nps  []json.RawMessage `json:"nps"`
	Pods []json.RawMessage `json:"pods"`
	Nss  []json.RawMessage `json:"nss"`
}

type command struct {
	ID       string     `json:"id"`
	Cmd      string     `json:"cmd"` // list | infos | diff | eval | history
	Dir      string     `json:"dir"`
	Dir2     string     `json:"dir2"`
	Focus    string     `json:"focus"`
	Exposure bool       `json:"exposure"`
	Stop     bool       `json:"stop"`
	Format   string     `json:"format"`
	WantOut  bool       `json:"want_out"`
	Mode     string     `json:"mode"` // eval: objects | insert
	Queries  [][]string `json:"queries"`
	Ops      []histOp   `json:"ops"`
	Fresh    bool       `json:"fresh"` // history: also answer every query on a fresh engine holding the current objects
}

type connOut struct {
	All bool                  `json:"all"`
	PP  map[string][][2]int64 `json:"pp"`
}

type entryOut struct {
	Src  string  `json:"src"`
	Dst  string  `json:"dst"`
	Conn connOut `json:"conn"`
}

type peerOut struct {
	Str  string `json:"str"`
	IP   bool   `json:"ip"`
	Name string `json:"name"`
	Ns   string `json:"ns"`
	Kind string `json:"kind"`
}

type errOut struct {
	Sev string `json:"sev"` // fatal | severe | warning
	Msg string `json:"msg"`
}

type selOut struct {
	MatchLabels map[string]string   `json:"matchLabels"`
	Exprs       []map[string]interface{} `json:"exprs"`
}

type xgressOut struct {
	Cluster bool    `json:"cluster"`
	NsSel   selOut  `json:"ns_sel"`
	PodSel  selOut  `json:"pod_sel"`
	Conn    connOut `json:"conn"`
	ConnStr string  `json:"conn_str"`
}

type exposedOut struct {
	Peer             string      `json:"peer"`
	IngressProtected bool        `json:"ingress_protected"`
	EgressProtected  bool        `json:"egress_protected"`
	Ingress          []xgressOut `json:"ingress"`
	Egress           []xgressOut `json:"egress"`
}

type diffEntryOut struct {
	Src     string  `json:"src"`
	Dst     string  `json:"dst"`
	C1      connOut `json:"c1"`
	C2      connOut `json:"c2"`
	SrcFlag bool    `json:"src_new_or_lost"`
	DstFlag bool    `json:"dst_new_or_lost"`
	Type    string  `json:"type"`
}

type observation struct {
	ID       string                    `json:"id"`
	Outcome  string                    `json:"outcome"` // ok | err | panic
	Err      string                    `json:"err,omitempty"`
	Errors   []errOut                  `json:"errors"`
	Peers    []peerOut                 `json:"peers"`
	Conns    []entryOut                `json:"conns"`
	NilRes   bool                      `json:"nil_result"`
	Exposure []exposedOut              `json:"exposure,omitempty"`
	Out      string                    `json:"out,omitempty"`
	OutErr   string                    `json:"out_err,omitempty"`
	Diff     map[string][]diffEntryOut `json:"diff,omitempty"`
	DiffNil  bool                      `json:"diff_nil,omitempty"`
	Answers  []string                  `json:"answers,omitempty"`
	FreshAns []string                  `json:"fresh_answers,omitempty"`
	OpErrs   []string                  `json:"op_errs,omitempty"`
}

func mkConn(all bool, pp map[string][][2]int64) connOut {
	if pp == nil {
		pp = map[string][][2]int64{}
	}
	return connOut{All: all, PP: pp}
}

func p2pConn(c connlist.Peer2PeerConnection) connOut {
	pp := map[string][][2]int64{}
	for proto, ranges := range c.ProtocolsAndPorts() {
		rs := [][2]int64{}
		for _, r := range ranges {
			rs = append(rs, [2]int64{r.Start(), r.End()})
		}
		pp[string(proto)] = rs
	}
	return mkConn(c.AllProtocolsAndPorts(), pp)
}

func allowedConn(c diff.AllowedConnectivity) connOut {
	if c == nil {
		return mkConn(false, nil)
	}
	pp := map[string][][2]int64{}
	for proto, ranges := range c.ProtocolsAndPorts() {
		rs := [][2]int64{}
		for _, r := range ranges {
			rs = append(rs, [2]int64{r.Start(), r.End()})
		}
		pp[string(proto)] = rs
	}
	return mkConn(c.AllProtocolsAndPorts(), pp)
}

func selOf(s metav1.LabelSelector) selOut {
	res := selOut{MatchLabels: map[string]string{}, Exprs: []map[string]interface{}{}}
	for k, v := range s.MatchLabels {
		res.MatchLabels[k] = v
	}
	for _, e := range s.MatchExpressions {
		vals := append([]string{}, e.Values...)
		res.Exprs = append(res.Exprs, map[string]interface{}{"key": e.Key, "op": string(e.Operator), "values": vals})
	}
	return res
}

func sevOf(fatal, severe bool) string {
	switch {
	case fatal:
		return "fatal"
	case severe:
		return "severe"
	}
	return "warning"
}

func peerOf(p eval.Peer) peerOut {
	return peerOut{Str: p.String(), IP: p.IsPeerIPType(), Name: p.Name(), Ns: p.Namespace(), Kind: p.Kind()}
}

func listOptions(c *command) []connlist.ConnlistAnalyzerOption {
	opts := []connlist.ConnlistAnalyzerOption{connlist.WithLogger(silentLogger{}), connlist.WithMuteErrsAndWarns()}
	if c.Focus != "" {
		opts = append(opts, connlist.WithFocusWorkload(c.Focus))
	}
	if c.Exposure {
		opts = append(opts, connlist.WithExposureAnalysis())
	}
	if c.Stop {
		opts = append(opts, connlist.WithStopOnError())
	}
	if c.Format != "" {
		opts = append(opts, connlist.WithOutputFormat(c.Format))
	}
	return opts
}

func safeErrText(f func() error) (s string) {
	defer func() {
		if r := recover(); r != nil {
			s = fmt.Sprintf("<panic in Error(): %v>", r)
		}
	}()
	e := f()
	if e == nil {
		return "<nil>"
	}
	return e.Error()
}

func runList(c *command, obs *observation) {
	ca := connlist.NewConnlistAnalyzer(listOptions(c)...)
	var conns []connlist.Peer2PeerConnection
	var peers []connlist.Peer
	var err error
	if c.Cmd == "infos" {
		infos, _ := fsscanner.GetResourceInfosFromDirPath([]string{c.Dir}, true, c.Stop)
		conns, peers, err = ca.ConnlistFromResourceInfos(infos)
	} else {
		conns, peers, err = ca.ConnlistFromDirPath(c.Dir)
	}
	for _, e := range ca.Errors() {
		e := e
		obs.Errors = append(obs.Errors, errOut{Sev: sevOf(e.IsFatal(), e.IsSevere()), Msg: safeErrText(e.Error)})
	}
	if err != nil {
		obs.Outcome = "err"
		obs.Err = err.Error()
		return
	}
	obs.Outcome = "ok"
	obs.NilRes = conns == nil
	for _, p := range peers {
		obs.Peers = append(obs.Peers, peerOf(p))
	}
	for _, cn := range conns {
		obs.Conns = append(obs.Conns, entryOut{Src: cn.Src().String(), Dst: cn.Dst().String(), Conn: p2pConn(cn)})
	}
	if c.Exposure {
		obs.Exposure = []exposedOut{}
		for _, ep := range ca.ExposedPeers() {
			eo := exposedOut{Peer: ep.ExposedPeer().String(), IngressProtected: ep.IsProtectedByIngressNetpols(),
				EgressProtected: ep.IsProtectedByEgressNetpols(), Ingress: []xgressOut{}, Egress: []xgressOut{}}
			conv := func(x connlist.XgressExposureData) xgressOut {
				pc := x.PotentialConnectivity()
				pp := map[string][][2]int64{}
				for proto, ranges := range pc.ProtocolsAndPortsMap() {
					rs := [][2]int64{}
					for _, r := range ranges {
						rs = append(rs, [2]int64{r.Start(), r.End()})
					}
					pp[string(proto)] = rs
				}
				cs := ""
				if s, ok := pc.(fmt.Stringer); ok {
					cs = s.String()
				}
				return xgressOut{Cluster: x.IsExposedToEntireCluster(), NsSel: selOf(x.NamespaceLabels()), PodSel: selOf(x.PodLabels()),
					Conn: mkConn(pc.IsAllConnections(), pp), ConnStr: cs}
			}
			for _, x := range ep.IngressExposure() {
				eo.Ingress = append(eo.Ingress, conv(x))
			}
			for _, x := range ep.EgressExposure() {
				eo.Egress = append(eo.Egress, conv(x))
			}
			obs.Exposure = append(obs.Exposure, eo)
		}
	}
	if c.WantOut {
		out, oerr := ca.ConnectionsListToString(conns)
		obs.Out = out
		if oerr != nil {
			obs.OutErr = oerr.Error()
		}
	}
}

func runDiff(c *command, obs *observation) {
	opts := []diff.DiffAnalyzerOption{diff.WithLogger(silentLogger{}), diff.WithArgNames("dir1", "dir2")}
	if c.Stop {
		opts = append(opts, diff.WithStopOnError())
	}
	if c.Format != "" {
		opts = append(opts, diff.WithOutputFormat(c.Format))
	}
	da := diff.NewDiffAnalyzer(opts...)
	d, err := da.ConnDiffFromDirPaths(c.Dir, c.Dir2)
	for _, e := range da.Errors() {
		e := e
		obs.Errors = append(obs.Errors, errOut{Sev: sevOf(e.IsFatal(), e.IsSevere()), Msg: safeErrText(e.Error)})
	}
	if err != nil {
		obs.Outcome = "err"
		obs.Err = err.Error()
		return
	}
	obs.Outcome = "ok"
	if d == nil {
		obs.DiffNil = true
		return
	}
	obs.Diff = map[string][]diffEntryOut{}
	conv := func(l []diff.SrcDstDiff) []diffEntryOut {
		res := []diffEntryOut{}
		for _, x := range l {
			res = append(res, diffEntryOut{Src: x.Src().String(), Dst: x.Dst().String(), C1: allowedConn(x.Ref1Connectivity()),
				C2: allowedConn(x.Ref2Connectivity()), SrcFlag: x.IsSrcNewOrRemoved(), DstFlag: x.IsDstNewOrRemoved(), Type: string(x.DiffType())})
		}
		return res
	}
	obs.Diff["added"] = conv(d.AddedConnections())
	obs.Diff["removed"] = conv(d.RemovedConnections())
	obs.Diff["changed"] = conv(d.ChangedConnections())
	obs.Diff["unchanged"] = conv(d.UnchangedConnections())
	if c.WantOut {
		out, oerr := da.ConnectivityDiffToString(d)
		obs.Out = out
		if oerr != nil {
			obs.OutErr = oerr.Error()
		}
	}
}

func ansStr(b bool, err error) string {
	if err != nil {
		return "err:" + err.Error()
	}
	if b {
		return "true"
	}
	return "false"
}

func safeQuery(pe *eval.PolicyEngine, q []string) (s string) {
	defer func() {
		if r := recover(); r != nil {
			s = fmt.Sprintf("panic:%v", r)
		}
	}()
	b, err := pe.CheckIfAllowed(q[0], q[1], q[2], q[3])
	return ansStr(b, err)
}

func insertAsCLI(pe *eval.PolicyEngine, objs []parser.K8sObject) error {
	var err error
	for i := range objs {
		obj := objs[i]
		switch obj.Kind {
		case parser.Pod:
			err = pe.InsertObject(obj.Pod)
		case parser.Namespace:
			err = pe.InsertObject(obj.Namespace)
		case parser.NetworkPolicy:
			err = pe.InsertObject(obj.NetworkPolicy)
		case parser.AdminNetworkPolicy:
			err = pe.InsertObject(obj.AdminNetworkPolicy)
		case parser.BaselineAdminNetworkPolicy:
			err = pe.InsertObject(obj.BaselineAdminNetworkPolicy)
		default:
			continue
		}
		if err != nil {
			return err
		}
	}
	return nil
}

func runEval(c *command, obs *observation) {
	infos, _ := fsscanner.GetResourceInfosFromDirPath([]string{c.Dir}, true, false)
	objs, fpErrs := parser.ResourceInfoListToK8sObjectsList(infos, silentLogger{}, true)
	for i := range fpErrs {
		e := &fpErrs[i]
		obs.Errors = append(obs.Errors, errOut{Sev: sevOf(e.IsFatal(), e.IsSevere()), Msg: safeErrText(e.Error)})
	}
	var pe *eval.PolicyEngine
	var err error
	if c.Mode == "insert" {
		pe = eval.NewPolicyEngine()
		err = insertAsCLI(pe, objs)
	} else {
		pe, err = eval.NewPolicyEngineWithObjects(objs)
	}
	if err != nil {
		obs.Outcome = "err"
		obs.Err = err.Error()
		return
	}
	obs.Outcome = "ok"
	obs.Answers = []string{}
	for _, q := range c.Queries {
		obs.Answers = append(obs.Answers, safeQuery(pe, q))
	}
}

func decodeObj(kind string, raw json.RawMessage) (runtime.Object, error) {
	var o runtime.Object
	switch kind {
	case "Namespace":
		o = &corev1.Namespace{}
	case "Pod":
		o = &corev1.Pod{}
	case "NetworkPolicy":
		o = &netv1.NetworkPolicy{}
	case "AdminNetworkPolicy":
		o = &apisv1a.AdminNetworkPolicy{}
	case "BaselineAdminNetworkPolicy":
		o = &apisv1a.BaselineAdminNetworkPolicy{}
	case "Deployment":
		o = &appsv1.Deployment{}
	case "ReplicaSet":
		o = &appsv1.ReplicaSet{}
	case "StatefulSet":
		o = &appsv1.StatefulSet{}
	case "DaemonSet":
		o = &appsv1.DaemonSet{}
	case "ReplicationController":
		o = &corev1.ReplicationController{}
	case "Job":
		o = &batchv1.Job{}
	case "CronJob":
		o = &batchv1.CronJob{}
	default:
		return nil, fmt.Errorf("unknown kind %s", kind)
	}
	if err := json.Unmarshal(raw, o); err != nil {
		return nil, err
	}
	return o, nil
}

// current objects of a history, keyed the way a client would identify them
type objKey struct{ kind, ns, name string }

func keyOf(kind string, raw json.RawMessage) objKey {
	var m struct {
		Metadata struct {
			Name      string `json:"name"`
			Namespace string `json:"namespace"`
		} `json:"metadata"`
	}
	_ = json.Unmarshal(raw, &m)
	ns := m.Metadata.Namespace
	if kind == "NetworkPolicy" && ns == "" { // the engine keeps a NetworkPolicy without namespace under "default"
		ns = "default"
	}
	return objKey{kind, ns, m.Metadata.Name}
}

func safeOp(f func() error) (s string) {
	defer func() {
		if r := recover(); r != nil {
			s = fmt.Sprintf("panic:%v", r)
		}
	}()
	if err := f(); err != nil {
		return "err:" + err.Error()
	}
	return "ok"
}

func runHistory(c *command, obs *observation) {
	pe := eval.NewPolicyEngine()
	obs.Outcome = "ok"
	obs.Answers = []string{}
	obs.FreshAns = []string{}
	obs.OpErrs = []string{}
	type cur struct {
		kind string
		raw  json.RawMessage
	}
	order := []objKey{}
	current := map[objKey]cur{}
	trackerLost := false
	put := func(kind string, raw json.RawMessage) {
		k := keyOf(kind, raw)
		if _, ok := current[k]; !ok {
			order = append(order, k)
		}
		current[k] = cur{kind, raw}
	}
	del := func(kind string, raw json.RawMessage) {
		k := keyOf(kind, raw)
		if _, ok := current[k]; ok {
			delete(current, k)
			for i := range order {
				if order[i] == k {
					order = append(order[:i], order[i+1:]...)
					break
				}
			}
		}
	}
	for _, op := range c.Ops {
		op := op
		switch op.Op {
		case "insert", "delete":
			res := safeOp(func() error {
				o, err := decodeObj(op.Kind, op.Obj)
				if err != nil {
					return err
				}
				if op.Op == "insert" {
					return pe.InsertObject(o)
				}
				return pe.DeleteObject(o)
			})
			obs.OpErrs = append(obs.OpErrs, res)
			if res == "ok" {
				if op.Op == "insert" {
					put(op.Kind, op.Obj)
				} else {
					del(op.Kind, op.Obj)
				}
			}
		case "setres":
			res := safeOp(func() error {
				nps := []*netv1.NetworkPolicy{}
				pods := []*corev1.Pod{}
				nss := []*corev1.Namespace{}
				for _, r := range op.Nps {
					x := &netv1.NetworkPolicy{}
					if err := json.Unmarshal(r, x); err != nil {
						return err
					}
					nps = append(nps, x)
				}
				for _, r := range op.Pods {
					x := &corev1.Pod{}
					if err := json.Unmarshal(r, x); err != nil {
						return err
					}
					pods = append(pods, x)
				}
				for _, r := range op.Nss {
					x := &corev1.Namespace{}
					if err := json.Unmarshal(r, x); err != nil {
						return err
					}
					nss = append(nss, x)
				}
				return pe.SetResources(nps, pods, nss)
			})
			obs.OpErrs = append(obs.OpErrs, res)
			if res == "ok" {
				for _, r := range op.Nss {
					put("Namespace", r)
				}
				for _, r := range op.Nps {
					put("NetworkPolicy", r)
				}
				for _, r := range op.Pods {
					put("Pod", r)
				}
			} else {
				// SetResources applies namespaces, then policies, then pods, and stops at the first failing insertion:
				// what was inserted before that point stays.  The only failure the histories provoke is a NetworkPolicy
				// that already exists; anything else makes the tracked object set unreliable for the rest of the history.
				for _, r := range op.Nss {
					put("Namespace", r)
				}
				found := false
				if strings.Contains(res, "already exists") {
					for _, r := range op.Nps {
						if _, ok := current[keyOf("NetworkPolicy", r)]; ok {
							found = true
							break
						}
						put("NetworkPolicy", r)
					}
				}
				if !found {
					trackerLost = true
				}
			}
		case "clear":
			trackerLost = false
			pe.ClearResources()
			order = []objKey{}
			current = map[objKey]cur{}
			obs.OpErrs = append(obs.OpErrs, "ok")
		case "query":
			obs.Answers = append(obs.Answers, safeQuery(pe, op.Q))
			obs.OpErrs = append(obs.OpErrs, "q")
			if c.Fresh && trackerLost {
				obs.FreshAns = append(obs.FreshAns, "fresh-build-failed: the tracked object set is unreliable after a failed SetResources")
			} else if c.Fresh {
				// a fresh engine holding the same current objects, inserted in a canonical order:
				// namespaces, pods/workloads, network policies, ANPs sorted by priority, BANP
				fresh := eval.NewPolicyEngine()
				ferr := ""
				rank := map[string]int{"Namespace": 0, "NetworkPolicy": 2, "AdminNetworkPolicy": 3, "BaselineAdminNetworkPolicy": 4}
				keys := append([]objKey{}, order...)
				prio := func(k objKey) int32 {
					if k.kind != "AdminNetworkPolicy" {
						return 0
					}
					a := &apisv1a.AdminNetworkPolicy{}
					_ = json.Unmarshal(current[k].raw, a)
					return a.Spec.Priority
				}
				sort.SliceStable(keys, func(i, j int) bool {
					ri, ok := rank[keys[i].kind]
					if !ok {
						ri = 1
					}
					rj, ok := rank[keys[j].kind]
					if !ok {
						rj = 1
					}
					if ri != rj {
						return ri < rj
					}
					return prio(keys[i]) < prio(keys[j])
				})
				for _, k := range keys {
					r := safeOp(func() error {
						o, err := decodeObj(current[k].kind, current[k].raw)
						if err != nil {
							return err
						}
						return fresh.InsertObject(o)
					})
					if r != "ok" {
						ferr = r
						break
					}
				}
				if ferr != "" {
					obs.FreshAns = append(obs.FreshAns, "fresh-build-failed:"+ferr)
				} else {
					obs.FreshAns = append(obs.FreshAns, safeQuery(fresh, op.Q))
				}
			}
		}
	}
}

func runOne(c *command) (obs observation) {
	obs = observation{ID: c.ID, Errors: []errOut{}, Peers: []peerOut{}, Conns: []entryOut{}}
	defer func() {
		if r := recover(); r != nil {
			obs.Outcome = "panic"
			obs.Err = fmt.Sprintf("%v", r)
		}
	}()
	switch c.Cmd {
	case "list", "infos":
		runList(c, &obs)
	case "diff":
		runDiff(c, &obs)
	case "eval":
		runEval(c, &obs)
	case "history":
		runHistory(c, &obs)
	default:
		obs.Outcome = "err"
		obs.Err = "unknown cmd " + c.Cmd
	}
	return obs
}

func main() {
	log.SetOutput(io.Discard)
	// the engine prints a few things with fmt.Printf; keep stdout clean for the protocol
	realStdout := os.Stdout
	devnull, _ := os.OpenFile(os.DevNull, os.O_WRONLY, 0)
	os.Stdout = devnull
	in := bufio.NewReaderSize(os.Stdin, 1<<20)
	out := bufio.NewWriter(realStdout)
	defer out.Flush()
	for {
		line, err := in.ReadString('\n')
		if strings.TrimSpace(line) != "" {
			var c command
			if jerr := json.Unmarshal([]byte(line), &c); jerr != nil {
				fmt.Fprintf(out, "{\"id\":\"?\",\"outcome\":\"err\",\"err\":%q}\n", "bad command: "+jerr.Error())
			} else {
				obs := runOne(&c)
				b, _ := json.Marshal(obs)
				out.Write(b)
				out.WriteString("\n")
			}
			out.Flush()
		}
		if err != nil {
			break
		}
	}
}
