(* DotProofs.v — the dot output of `list` is a function of the multiset of entries and of the set of peers. *)
From Coq Require Import List ZArith Bool String Ascii Lia Permutation.
From NP Require Import IntervalSet ConnSet World Build Connlist Diff Format SortGeneric FormatProofs.
Import ListNotations.
Open Scope string_scope.

Lemma dot_lookup_perm ps1 ps2 s :
  Permutation ps1 ps2 -> NoDup (map dp_str ps1) -> dot_lookup ps1 s = dot_lookup ps2 s.
Proof.
  intros P. induction P as [|x l l' P IH|x y l|l l' l'' P1 IH1 P2 IH2]; intros Hn.
  - reflexivity.
  - cbn [dot_lookup]. destruct (String.eqb (dp_str x) s); [reflexivity|]. apply IH. cbn in Hn. inversion Hn; assumption.
  - cbn [dot_lookup]. destruct (String.eqb_spec (dp_str y) s) as [E1|E1], (String.eqb_spec (dp_str x) s) as [E2|E2]; try reflexivity.
    exfalso. cbn in Hn. inversion Hn as [|? ? Hnin _]; subst. apply Hnin. left. congruence.
  - rewrite IH1 by exact Hn. apply IH2. apply (Permutation_NoDup (Permutation_map dp_str P1)). exact Hn.
Qed.

Lemma flat_map_perm {A B} (f : A -> list B) l1 l2 : Permutation l1 l2 -> Permutation (flat_map f l1) (flat_map f l2).
Proof.
  intros P. induction P as [|x l l' P IH|x y l|l l' l'' P1 IH1 P2 IH2]; cbn [flat_map].
  - constructor.
  - apply Permutation_app_head. exact IH.
  - rewrite !app_assoc. apply Permutation_app_tail. apply Permutation_app_comm.
  - eapply Permutation_trans; eassumption.
Qed.

Lemma dot_strs_perm es1 es2 ps1 ps2 :
  Permutation es1 es2 -> Permutation ps1 ps2 -> Permutation (dot_strs es1 ps1) (dot_strs es2 ps2).
Proof.
  intros Pe Pp. unfold dot_strs. apply Permutation_app.
  - apply flat_map_perm. exact Pe.
  - apply Permutation_map. apply filter_perm. exact Pp.
Qed.

Theorem list_dot_perm_invariant es1 es2 ps1 ps2 :
  Permutation es1 es2 -> Permutation ps1 ps2 -> NoDup (map dp_str ps1) -> list_dot es1 ps1 = list_dot es2 ps2.
Proof.
  intros Pe Pp Hn. unfold list_dot.
  rewrite (strsort_perm_invariant _ _ (dot_strs_perm _ _ _ _ Pe Pp)).
  rewrite (strsort_perm_invariant _ _ (Permutation_map (fun e => dot_edge_line (row_of e)) Pe)).
  f_equal. apply map_ext. intros s. apply dot_lookup_perm; assumption.
Qed.

(* the edge lines are exactly the entries, each once *)
Theorem list_dot_edges_are_the_entries es :
  Permutation (strsort (map (fun e => dot_edge_line (row_of e)) es)) (map (fun e => dot_edge_line (row_of e)) es).
Proof. apply strsort_perm. Qed.

