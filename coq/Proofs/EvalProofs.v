(* EvalProofs.v — the set-based evaluation of Model/Eval.v (mirror of the Go code) computes,
   whenever it succeeds, exactly the pointwise meaning of Model/Spec.v, and every set it
   produces is in canonical form.  No axioms. *)
From Coq Require Import List ZArith Bool String Lia ZifyBool.
From NP Require Import IntervalSet IntervalSetProofs ConnSet ConnSetProofs World Eval Spec.
Import ListNotations.
Open Scope list_scope.
Open Scope Z_scope.

(* ---------- well-formed inputs: port numbers within 1..65535 ---------- *)
Definition range_okb (a e : Z) : bool := (e <? a) || ((minPort <=? a) && (e <=? maxPort)).

Definition np_port_okb (pp : np_port) : bool :=
  match pp_port pp with
  | PNum a => range_okb a (match pp_end pp with Some e => e | None => a end)
  | _ => true
  end.
Definition np_rule_okb (r : np_rule) : bool := forallb np_port_okb (nr_ports r).
Definition netpol_okb (np : netpol) : bool := forallb np_rule_okb (np_in np) && forallb np_rule_okb (np_eg np).

Definition admin_port_okb (ap : admin_port) : bool :=
  match ap with
  | APortNum _ n => valid_port n
  | APortRange _ lo hi => range_okb lo hi
  | _ => true
  end.
Definition admin_rule_okb (r : admin_rule) : bool :=
  match ar_ports r with None => true | Some l => forallb admin_port_okb l end.
Definition anp_okb (a : anp) : bool := forallb admin_rule_okb (a_in a) && forallb admin_rule_okb (a_eg a).
Definition banp_okb (b : banp) : bool := forallb admin_rule_okb (b_in b) && forallb admin_rule_okb (b_eg b).

Definition pod_okb (p : pod) : bool := forallb (fun c => valid_port (cp_num c)) (p_ports p).
Definition peer_okb (x : peer) : bool :=
  match x with PPod p _ => pod_okb p | PIP _ => true end.

Definition world_okb (w : world) : bool :=
  forallb netpol_okb (w_nps w) && forallb anp_okb (w_anps w) &&
  match w_banp w with None => true | Some b => banp_okb b end.

(* ---------- "canonical, or a rule set under construction" ---------- *)
Definition cs_sub (c : connset) : Prop := cs_ninv c \/ cs_pre c.

Lemma cs_ninv_wf c : cs_ninv c -> cs_wf c.
Proof. intros H; apply H. Qed.
Lemma cs_pre_wf c : cs_pre c -> cs_wf c.
Proof. intros H; apply H. Qed.
Lemma cs_sub_wf c : cs_sub c -> cs_wf c.
Proof. intros [H | H]; [apply cs_ninv_wf | apply cs_pre_wf]; exact H. Qed.

Lemma cs_make_false_pre : cs_pre (cs_make false).
Proof.
  unfold cs_pre. split; [apply cs_make_wf|]. split; [|split; [reflexivity|]].
  - intros p ps H. rewrite cs_get_make in H. discriminate.
  - intros p ps H. rewrite cs_get_make in H. discriminate.
Qed.

Lemma cs_union_sub c o : cs_ninv c -> cs_sub o -> cs_ninv (cs_union c o).
Proof. intros Hc [Ho | Ho]; [apply cs_union_ninv | apply cs_union_pre_ninv]; assumption. Qed.

Lemma cs_ninv_numeric c : cs_ninv c -> cs_numeric c.
Proof. intros H; apply H. Qed.

(* Subtract keeps a rule set under construction in that form *)
Lemma cs_subtract_pre c o : cs_pre c -> cs_ninv o -> cs_pre (cs_subtract c o).
Proof.
  intros Hc Ho.
  destruct Hc as (Hwf & Hnum & Hall & Hne).
  unfold cs_subtract.
  destruct (cs_isempty o) eqn:He; [unfold cs_pre; auto|].
  destruct (cs_all o) eqn:Hao; [apply cs_make_false_pre|].
  rewrite Hall.
  assert (Hwfo : cs_wf o) by (apply cs_ninv_wf; exact Ho).
  assert (Hnumo : cs_numeric o) by (apply cs_ninv_numeric; exact Ho).
  unfold cs_pre. split; [|split; [|split]].
  - intros p ps Hg. rewrite cs_get_map in Hg.
    destruct (cs_get c p) as [mine|] eqn:Hm; [|discriminate].
    destruct (cs_get o p) as [ops|] eqn:Hop.
    + destruct (ps_containedin mine ops); [discriminate|].
      injection Hg as <-. apply ps_subtract_wf. eapply Hwf; eassumption.
    + injection Hg as <-. eapply Hwf; eassumption.
  - intros p ps Hg. rewrite cs_get_map in Hg.
    destruct (cs_get c p) as [mine|] eqn:Hm; [|discriminate].
    destruct (cs_get o p) as [ops|] eqn:Hop.
    + destruct (ps_containedin mine ops); [discriminate|].
      injection Hg as <-. apply ps_subtract_numeric; [eapply Hnum | eapply Hnumo]; eassumption.
    + injection Hg as <-. eapply Hnum; eassumption.
  - rewrite cs_all_map. exact Hall.
  - intros p ps Hg. rewrite cs_get_map in Hg.
    destruct (cs_get c p) as [mine|] eqn:Hm; [|discriminate].
    destruct (cs_get o p) as [ops|] eqn:Hop.
    + destruct (ps_containedin mine ops) eqn:Hci; [discriminate|].
      injection Hg as <-.
      intro Hnil.
      assert (Hm' : ps_wf mine) by (eapply Hwf; eassumption).
      assert (Ho' : ps_wf ops) by (eapply Hwfo; eassumption).
      assert (Hmn : ps_numeric mine) by (eapply Hnum; eassumption).
      rewrite (ps_containedin_numeric mine ops (proj1 Hmn)) in Hci.
      unfold isubset in Hci. unfold ps_subtract in Hnil. simpl in Hnil.
      rewrite Hnil in Hci. simpl in Hci. discriminate.
    + injection Hg as <-. eapply Hne; eassumption.
Qed.

Lemma cs_subtract_sub c o : cs_sub c -> cs_ninv o -> cs_sub (cs_subtract c o).
Proof.
  intros [H | H] Ho; [left; apply cs_subtract_ninv | right; apply cs_subtract_pre]; assumption.
Qed.

Lemma cs_all_denote c p n : cs_all c = true -> cs_denote c p n = valid_port n.
Proof. intros H. unfold cs_denote, cs_contains. rewrite H. apply andb_true_r. Qed.

Lemma cs_isempty_denote c p n : cs_isempty c = true -> cs_denote c p n = false.
Proof.
  intros H. apply cs_isempty_spec in H. destruct H as [Ha Hg].
  unfold cs_denote, cs_contains. rewrite Ha, Hg. apply andb_false_r.
Qed.

Lemma cs_denote_valid c p n : cs_denote c p n = true -> valid_port n = true.
Proof. unfold cs_denote. intros H. apply andb_true_iff in H. apply H. Qed.

Lemma cs_denote_invalid c p n : valid_port n = false -> cs_denote c p n = false.
Proof. unfold cs_denote. intros ->. reflexivity. Qed.

(* ---------- selectors ---------- *)
Lemma sel_matches_ok s l b : sel_matches s l = Ok b -> b = sel_matches_raw s l.
Proof. unfold sel_matches. destruct (sel_valid s); intros H; inversion H; reflexivity. Qed.

Lemma sel_empty_raw s l : sel_empty s = true -> sel_matches_raw s l = true.
Proof.
  unfold sel_empty, sel_matches_raw. destruct (s_match s); [|discriminate].
  destruct (s_exprs s); [|discriminate]. reflexivity.
Qed.

(* ---------- NetworkPolicy: peers ---------- *)
Lemma np_peers_select_ok npns peers x b :
  np_peers_select npns peers x = Ok b -> b = existsb (fun pr => s_np_peer_matches npns pr x) peers.
Proof.
  revert b. induction peers as [|pr t IH]; intros b H; cbn [np_peers_select] in H.
  - inversion H. reflexivity.
  - cbn [existsb]. destruct pr as [nss pods | cidr exc | | |]; try discriminate.
    + destruct x as [p nsl | bl].
      * unfold s_np_peer_matches at 1.
        destruct nss as [s|]; cbn [s_opt_sel].
        -- destruct (sel_matches s nsl) as [nsm|e] eqn:Hs; cbn [bind] in H; [|discriminate].
           apply sel_matches_ok in Hs. subst nsm.
           destruct (sel_matches_raw s nsl); cbn [negb] in H; cbn [andb].
           ++ destruct pods as [s2|]; cbn [s_opt_sel].
              ** destruct (sel_matches s2 (p_labels p)) as [pm|e] eqn:Hp; cbn [bind] in H; [|discriminate].
                 apply sel_matches_ok in Hp. subst pm.
                 destruct (sel_matches_raw s2 (p_labels p)); [inversion H; reflexivity | cbn [orb]; apply IH; exact H].
              ** cbn [bind] in H. inversion H. reflexivity.
           ++ cbn [orb]. apply IH; exact H.
        -- cbn [bind] in H.
           destruct (String.eqb npns (p_ns p)); cbn [negb] in H; cbn [andb].
           ++ destruct pods as [s2|]; cbn [s_opt_sel].
              ** destruct (sel_matches s2 (p_labels p)) as [pm|e] eqn:Hp; cbn [bind] in H; [|discriminate].
                 apply sel_matches_ok in Hp. subst pm.
                 destruct (sel_matches_raw s2 (p_labels p)); [inversion H; reflexivity | cbn [orb]; apply IH; exact H].
              ** cbn [bind] in H. inversion H. reflexivity.
           ++ cbn [orb]. apply IH; exact H.
      * cbn [s_np_peer_matches orb]. apply IH; exact H.
    + destruct x as [p nsl | bl]; cbn [s_np_peer_matches].
      * cbn [orb]. apply IH; exact H.
      * destruct (isubset [bl] (rule_block cidr exc)); [inversion H; reflexivity | cbn [orb]; apply IH; exact H].
    + destruct x as [p nsl | bl]; [|discriminate].
      cbn [s_np_peer_matches orb]. apply IH; exact H.
Qed.

Lemma np_rule_selects_ok npns peers x b :
  np_rule_selects npns peers x = Ok b -> b = s_np_rule_peers npns peers x.
Proof.
  unfold np_rule_selects, s_np_rule_peers. destruct peers as [|pr t].
  - intros H; inversion H; reflexivity.
  - apply np_peers_select_ok.
Qed.

(* ---------- NetworkPolicy: ports ---------- *)
Lemma range_ok_wf a e : range_okb a e = true -> ps_wf (ps_add_range (ps_make false) a e).
Proof.
  intros H. unfold range_okb in H.
  destruct (e <? a) eqn:Hlt.
  - unfold ps_add_range, iadd_ivl. cbn [fst snd].
    assert (Hle : (a <=? e) = false) by lia. rewrite Hle. apply (ps_make_wf false).
  - cbn [orb] in H. apply ps_add_range_wf; [apply ps_make_wf | lia | lia].
Qed.

Lemma range_mem a e n :
  imem n (ps_ports (ps_add_range (ps_make false) a e)) = (a <=? n) && (n <=? e).
Proof.
  rewrite ps_add_range_ports by apply ps_make_wf.
  unfold ps_make. cbn [ps_ports imem orb]. unfold in_ivl. reflexivity.
Qed.

Lemma range_ok_valid a e n :
  range_okb a e = true -> (a <=? n) && (n <=? e) = true -> valid_port n = true.
Proof. unfold range_okb, valid_port. intros H1 H2. lia. Qed.

Lemma ps_make_numeric b : ps_numeric (ps_make b).
Proof. split; reflexivity. Qed.
Lemma ps_add_range_numeric ps a e : ps_numeric ps -> ps_numeric (ps_add_range ps a e).
Proof. intros [H1 H2]; split; assumption. Qed.

Lemma get_ports_range_mem pp dst r pr n :
  peer_okb dst = true -> np_port_okb pp = true -> pp_port pp <> PAll ->
  get_ports_range pp dst = Ok r ->
  let ps := match r with None => ps_make false | Some (s, e) => ps_add_range (ps_make false) s e end in
  ps_wf ps /\ ps_numeric ps /\
  proto_eqb (pp_proto pp) pr && imem n (ps_ports ps) = valid_port n && s_np_port_matches pp dst pr n.
Proof.
  intros Hd Hp Hna Hr. unfold get_ports_range in Hr. unfold s_np_port_matches.
  unfold np_port_okb in Hp.
  destruct (pp_port pp) as [|a|nm] eqn:Hpp; [contradiction| |].
  - inversion Hr; subst r; clear Hr. cbn zeta.
    set (e := match pp_end pp with Some e => e | None => a end) in *.
    split; [apply range_ok_wf; exact Hp|]. split; [apply ps_add_range_numeric, ps_make_numeric|].
    rewrite range_mem.
    destruct (proto_eqb (pp_proto pp) pr); cbn [andb]; [|rewrite andb_false_r; reflexivity].
    destruct ((a <=? n) && (n <=? e)) eqn:Hin.
    + rewrite (range_ok_valid a e n Hp Hin). reflexivity.
    + rewrite andb_false_r. reflexivity.
  - destruct dst as [d nsl | b]; [|discriminate].
    cbn [peer_okb] in Hd.
    destruct (pod_named_port (p_ports d) nm) as [[q m]|] eqn:Hnp.
    + assert (Hm : valid_port m = true).
      { clear - Hd Hnp. unfold pod_okb in Hd. induction (p_ports d) as [|c t IH]; [discriminate|].
        cbn [pod_named_port] in Hnp. cbn [forallb] in Hd. apply andb_true_iff in Hd. destruct Hd as [Hc Ht].
        destruct (String.eqb nm (cp_name c)); [inversion Hnp; subst; exact Hc | apply IH; assumption]. }
      destruct (proto_eqb q (pp_proto pp)) eqn:Hq.
      * inversion Hr; subst r; clear Hr. cbn zeta.
        split; [apply ps_add_range_wf; [apply ps_make_wf| |]; unfold valid_port in Hm; lia|].
        split; [apply ps_add_range_numeric, ps_make_numeric|].
        rewrite range_mem. cbn [andb].
        destruct (proto_eqb (pp_proto pp) pr); cbn [andb]; [|rewrite andb_false_r; reflexivity].
        destruct (m =? n) eqn:Hmn.
        -- assert (m = n) by lia. subst n. rewrite Hm. cbn [andb]. lia.
        -- rewrite andb_false_r. lia.
      * inversion Hr; subst r; clear Hr. cbn zeta.
        split; [apply ps_make_wf|]. split; [apply ps_make_numeric|].
        cbn [ps_make ps_ports imem andb]. rewrite !andb_false_r. reflexivity.
    + inversion Hr; subst r; clear Hr. cbn zeta.
      split; [apply ps_make_wf|]. split; [apply ps_make_numeric|].
      cbn [ps_make ps_ports imem]. rewrite !andb_false_r. reflexivity.
Qed.

Lemma np_ports_conns_ok ports dst : forall res c,
  peer_okb dst = true -> forallb np_port_okb ports = true ->
  cs_pre res -> np_ports_conns ports dst res = Ok c ->
  cs_pre c /\
  forall pr n, cs_denote c pr n =
               cs_denote res pr n || (valid_port n && existsb (fun pp => s_np_port_matches pp dst pr n) ports).
Proof.
  induction ports as [|pp t IH]; intros res c Hd Hok Hres H; cbn [np_ports_conns] in H.
  - inversion H; subst c. split; [exact Hres|]. intros pr n. cbn [existsb]. rewrite andb_false_r, orb_false_r. reflexivity.
  - cbn [forallb] in Hok. apply andb_true_iff in Hok. destruct Hok as [Hpp Ht].
    destruct (pp_port pp) as [|a|nm] eqn:Hport.
    + cbn [bind] in H.
      destruct (IH _ _ Hd Ht (cs_addconn_pre _ (pp_proto pp) _ Hres (ps_make_wf true) (ps_make_numeric true)) H) as [Hc Hden].
      split; [exact Hc|]. intros pr n. rewrite Hden.
      rewrite cs_addconn_denote by (try apply cs_pre_wf; try apply ps_make_wf; assumption).
      rewrite ps_full_mem. cbn [existsb].
      replace (s_np_port_matches pp dst pr n) with (proto_eqb (pp_proto pp) pr)
        by (unfold s_np_port_matches; rewrite Hport, andb_true_r; reflexivity).
      destruct (cs_denote res pr n), (proto_eqb (pp_proto pp) pr), (valid_port n); reflexivity.
    + destruct (get_ports_range pp dst) as [r|e] eqn:Hr; cbn [bind] in H; [|discriminate].
      assert (Hna : pp_port pp <> PAll) by (rewrite Hport; discriminate).
      assert (Hmem := fun pr n => get_ports_range_mem pp dst r pr n Hd Hpp Hna Hr). cbn zeta in Hmem.
      set (ps := match r with None => ps_make false | Some (s, e) => ps_add_range (ps_make false) s e end) in *.
      destruct (Hmem TCP 0) as (Hwf & Hnum & _).
      destruct (IH _ _ Hd Ht (cs_addconn_pre _ (pp_proto pp) _ Hres Hwf Hnum) H) as [Hc Hden].
      split; [exact Hc|]. intros pr n. rewrite Hden.
      rewrite cs_addconn_denote by (try apply cs_pre_wf; assumption).
      destruct (Hmem pr n) as (_ & _ & ->). cbn [existsb].
      destruct (cs_denote res pr n), (valid_port n), (s_np_port_matches pp dst pr n); reflexivity.
    + destruct (get_ports_range pp dst) as [r|e] eqn:Hr; cbn [bind] in H; [|discriminate].
      assert (Hna : pp_port pp <> PAll) by (rewrite Hport; discriminate).
      assert (Hmem := fun pr n => get_ports_range_mem pp dst r pr n Hd Hpp Hna Hr). cbn zeta in Hmem.
      set (ps := match r with None => ps_make false | Some (s, e) => ps_add_range (ps_make false) s e end) in *.
      destruct (Hmem TCP 0) as (Hwf & Hnum & _).
      destruct (IH _ _ Hd Ht (cs_addconn_pre _ (pp_proto pp) _ Hres Hwf Hnum) H) as [Hc Hden].
      split; [exact Hc|]. intros pr n. rewrite Hden.
      rewrite cs_addconn_denote by (try apply cs_pre_wf; assumption).
      destruct (Hmem pr n) as (_ & _ & ->). cbn [existsb].
      destruct (cs_denote res pr n), (valid_port n), (s_np_port_matches pp dst pr n); reflexivity.
Qed.

Lemma cs_make_false_denote p n : cs_denote (cs_make false) p n = false.
Proof. rewrite cs_make_denote. apply andb_false_r. Qed.

Lemma np_rule_conns_ok ports dst c :
  peer_okb dst = true -> forallb np_port_okb ports = true ->
  np_rule_conns ports dst = Ok c ->
  cs_sub c /\ forall pr n, cs_denote c pr n = valid_port n && s_np_rule_ports ports dst pr n.
Proof.
  intros Hd Hok H. unfold np_rule_conns in H. unfold s_np_rule_ports.
  destruct ports as [|pp t].
  - inversion H; subst c. split; [left; apply cs_make_ninv|].
    intros pr n. rewrite cs_make_denote. reflexivity.
  - destruct (np_ports_conns_ok (pp :: t) dst _ _ Hd Hok cs_make_false_pre H) as [Hc Hden].
    split; [right; exact Hc|]. intros pr n. rewrite Hden, cs_make_false_denote. reflexivity.
Qed.

Lemma np_rules_conns_ok npns rules other dst : forall res c,
  peer_okb dst = true -> forallb np_rule_okb rules = true ->
  cs_ninv res -> np_rules_conns npns rules other dst res = Ok c ->
  cs_ninv c /\
  forall pr n, cs_denote c pr n =
               cs_denote res pr n || (valid_port n && existsb (fun r => s_np_rule npns r other dst pr n) rules).
Proof.
  induction rules as [|r t IH]; intros res c Hd Hok Hres H; cbn [np_rules_conns] in H.
  - inversion H; subst c. split; [exact Hres|]. intros pr n. cbn [existsb]. rewrite andb_false_r, orb_false_r. reflexivity.
  - cbn [forallb] in Hok. apply andb_true_iff in Hok. destruct Hok as [Hr Ht].
    destruct (np_rule_selects npns (nr_peers r) other) as [sel|e] eqn:Hsel; cbn [bind] in H; [|discriminate].
    apply np_rule_selects_ok in Hsel.
    assert (Hrule : forall pr n, s_np_rule npns r other dst pr n = sel && s_np_rule_ports (nr_ports r) dst pr n)
      by (intros; unfold s_np_rule; rewrite <- Hsel; reflexivity).
    destruct sel; cbn [negb] in H.
    + destruct (np_rule_conns (nr_ports r) dst) as [rc|e] eqn:Hrc; cbn [bind] in H; [|discriminate].
      destruct (np_rule_conns_ok _ _ _ Hd Hr Hrc) as [Hsub Hrden].
      assert (Hn' : cs_ninv (cs_union res rc)) by (apply cs_union_sub; assumption).
      assert (Hu : forall pr n, cs_denote (cs_union res rc) pr n = cs_denote res pr n || cs_denote rc pr n).
      { intros. apply cs_union_denote; [apply cs_ninv_wf | apply cs_sub_wf]; assumption. }
      destruct (IH _ _ Hd Ht Hn' H) as [Hc Hden].
      split; [exact Hc|]. intros pr n. cbn [existsb]. rewrite Hrule. rewrite Hden, Hu, Hrden. cbn [andb].
      destruct (cs_denote res pr n), (valid_port n), (s_np_rule_ports (nr_ports r) dst pr n); reflexivity.
    + destruct (IH _ _ Hd Ht Hres H) as [Hc Hden].
      split; [exact Hc|]. intros pr n. cbn [existsb]. rewrite Hrule. rewrite Hden. cbn [andb orb]. reflexivity.
Qed.

(* ---------- NetworkPolicy layer ---------- *)
Lemma np_affects_spec np d : np_affects np d = s_np_affects np d.
Proof.
  unfold np_affects, s_np_affects. destruct (np_types np); [|reflexivity].
  destruct d; [reflexivity|]. destruct (np_eg np); reflexivity.
Qed.

Lemma np_selects_ok np p d b : np_selects np p d = Ok b -> b = s_np_governs np p d.
Proof.
  unfold np_selects, s_np_governs. rewrite np_affects_spec.
  destruct (String.eqb (p_ns p) (np_ns np)); cbn [negb andb]; [|intros H; inversion H; reflexivity].
  destruct (s_np_affects np d); cbn [negb andb]; [|intros H; inversion H; reflexivity].
  destruct (sel_empty (np_sel np)) eqn:He.
  - intros H; inversion H. symmetry. apply sel_empty_raw. exact He.
  - apply sel_matches_ok.
Qed.

Lemma selecting_nps_ok nps p d : forall l,
  selecting_nps nps p d = Ok l -> l = filter (fun np => s_np_governs np p d) nps.
Proof.
  induction nps as [|np t IH]; intros l H; cbn [selecting_nps] in H.
  - inversion H; reflexivity.
  - destruct (np_selects np p d) as [s|e] eqn:Hs; cbn [bind] in H; [|discriminate].
    destruct (selecting_nps t p d) as [rest|e] eqn:Hr; cbn [bind] in H; [|discriminate].
    apply np_selects_ok in Hs. specialize (IH _ eq_refl). cbn [filter]. rewrite <- Hs, <- IH.
    inversion H; reflexivity.
Qed.

Lemma np_dir_conns_ok np src dst ingress c :
  peer_okb dst = true -> netpol_okb np = true ->
  np_dir_conns np src dst ingress = Ok c ->
  cs_ninv c /\ forall pr n, cs_denote c pr n = valid_port n && s_np_policy_allows np src dst ingress pr n.
Proof.
  intros Hd Hok H. unfold netpol_okb in Hok. apply andb_true_iff in Hok. destruct Hok as [Hin Heg].
  unfold np_dir_conns in H. unfold s_np_policy_allows.
  destruct ingress.
  - destruct (np_rules_conns_ok _ _ _ _ _ _ Hd Hin (cs_make_ninv false) H) as [Hc Hden].
    split; [exact Hc|]. intros pr n. rewrite Hden, cs_make_false_denote. reflexivity.
  - destruct (np_rules_conns_ok _ _ _ _ _ _ Hd Heg (cs_make_ninv false) H) as [Hc Hden].
    split; [exact Hc|]. intros pr n. rewrite Hden, cs_make_false_denote. reflexivity.
Qed.

Lemma nps_union_conns_ok sel src dst ingress : forall acc c,
  peer_okb dst = true -> forallb netpol_okb sel = true ->
  cs_ninv acc -> nps_union_conns sel src dst ingress acc = Ok c ->
  cs_ninv c /\
  forall pr n, cs_denote c pr n =
               cs_denote acc pr n || (valid_port n && existsb (fun np => s_np_policy_allows np src dst ingress pr n) sel).
Proof.
  induction sel as [|np t IH]; intros acc c Hd Hok Hacc H; cbn [nps_union_conns] in H.
  - inversion H; subst c. split; [exact Hacc|]. intros pr n. cbn [existsb]. rewrite andb_false_r, orb_false_r. reflexivity.
  - cbn [forallb] in Hok. apply andb_true_iff in Hok. destruct Hok as [Hnp Ht].
    destruct (np_dir_conns np src dst ingress) as [pc|e] eqn:Hpc; cbn [bind] in H; [|discriminate].
    destruct (np_dir_conns_ok _ _ _ _ _ Hd Hnp Hpc) as [Hpcn Hpcd].
    assert (Hn' : cs_ninv (cs_union acc pc)) by (apply cs_union_ninv; assumption).
    destruct (IH _ _ Hd Ht Hn' H) as [Hc Hden].
    split; [exact Hc|]. intros pr n. rewrite Hden.
    rewrite cs_union_denote by (apply cs_ninv_wf; assumption). rewrite Hpcd. cbn [existsb].
    destruct (cs_denote acc pr n), (valid_port n), (s_np_policy_allows np src dst ingress pr n); reflexivity.
Qed.

Lemma forallb_filter {A} (f g : A -> bool) l : forallb f l = true -> forallb f (filter g l) = true.
Proof.
  induction l as [|a t IH]; cbn [forallb filter]; [reflexivity|].
  intros H. apply andb_true_iff in H. destruct H as [Ha Ht].
  destruct (g a); cbn [forallb]; [rewrite Ha|]; auto.
Qed.

(* the NetworkPolicy layer of the model is the NetworkPolicy layer of the Spec *)
Lemma np_layer_ok w src dst ingress r :
  peer_okb dst = true -> forallb netpol_okb (w_nps w) = true ->
  np_layer w src dst ingress = Ok r ->
  match r with
  | None => forall pr n, s_np_layer w src dst ingress pr n = None
  | Some c => cs_ninv c /\
              forall pr n, exists b, s_np_layer w src dst ingress pr n = Some b /\
                                     cs_denote c pr n = valid_port n && b
  end.
Proof.
  intros Hd Hok H. unfold np_layer in H. unfold s_np_layer.
  destruct (if ingress then dst else src) as [p nsl | bl].
  - set (d := if ingress then Ingress else Egress) in *.
    destruct (selecting_nps (w_nps w) p d) as [sel|e] eqn:Hs; cbn [bind] in H; [|discriminate].
    apply selecting_nps_ok in Hs. rewrite <- Hs.
    destruct sel as [|np t].
    + inversion H; subst r. intros; reflexivity.
    + destruct (nps_union_conns (np :: t) src dst ingress (cs_make false)) as [c|e] eqn:Hc; cbn [bind] in H; [|discriminate].
      inversion H; subst r.
      assert (Hok' : forallb netpol_okb (np :: t) = true) by (rewrite Hs; apply forallb_filter; exact Hok).
      destruct (nps_union_conns_ok _ _ _ _ _ _ Hd Hok' (cs_make_ninv false) Hc) as [Hcn Hden].
      split; [exact Hcn|]. intros pr n. eexists; split; [reflexivity|].
      rewrite Hden, cs_make_false_denote. reflexivity.
  - inversion H; subst r. intros; reflexivity.
Qed.

(* ---------- admin policies ---------- *)
Lemma admin_peer_matches_ok ap x b : admin_peer_matches ap x = Ok b -> b = s_admin_peer_matches ap x.
Proof.
  unfold admin_peer_matches, s_admin_peer_matches. destruct ap as [s | nss pods |]; [| |discriminate].
  - destruct x; [apply sel_matches_ok | intros H; inversion H; reflexivity].
  - destruct x as [p nsl|bl]; [|intros H; inversion H; reflexivity].
    destruct (sel_matches nss nsl) as [a|e] eqn:Ha; cbn [bind]; [|discriminate].
    destruct (sel_matches pods (p_labels p)) as [c|e] eqn:Hc; cbn [bind]; [|discriminate].
    apply sel_matches_ok in Ha, Hc. subst. intros H; inversion H; reflexivity.
Qed.

Lemma admin_peers_select_ok peers x : forall b,
  admin_peers_select peers x = Ok b -> b = existsb (fun ap => s_admin_peer_matches ap x) peers.
Proof.
  induction peers as [|ap t IH]; intros b H; cbn [admin_peers_select] in H.
  - inversion H; reflexivity.
  - destruct (admin_peer_matches ap x) as [m|e] eqn:Hm; cbn [bind] in H; [|discriminate].
    apply admin_peer_matches_ok in Hm. cbn [existsb]. rewrite <- Hm.
    destruct m; [inversion H; reflexivity | apply IH; exact H].
Qed.

Lemma subject_selects_ok subj x b : subject_selects subj x = Ok b -> b = s_admin_peer_matches subj x.
Proof. unfold subject_selects. destruct subj; try discriminate; apply admin_peer_matches_ok. Qed.

Lemma admin_selects_ok subj rules x b :
  admin_selects subj rules x = Ok b -> b = s_admin_selects subj rules x.
Proof.
  unfold admin_selects, s_admin_selects. destruct x as [p nsl|bl].
  - destruct rules; [intros H; inversion H; reflexivity | apply subject_selects_ok].
  - intros H; inversion H. destruct rules; [reflexivity|]. destruct subj; reflexivity.
Qed.

Lemma pod_named_port_valid d nm q m :
  pod_okb d = true -> pod_named_port (p_ports d) nm = Some (q, m) -> valid_port m = true.
Proof.
  unfold pod_okb. induction (p_ports d) as [|c t IH]; [discriminate|].
  cbn [pod_named_port forallb]. intros Hd Hnp. apply andb_true_iff in Hd. destruct Hd as [Hc Ht].
  destruct (String.eqb nm (cp_name c)); [inversion Hnp; subst; exact Hc | apply IH; assumption].
Qed.

Lemma single_port_wf m : valid_port m = true -> ps_wf (ps_add_range (ps_make false) m m).
Proof. intros H. apply ps_add_range_wf; [apply ps_make_wf| |]; unfold valid_port in H; lia. Qed.

Lemma admin_ports_conns_ok ports dst : forall res c,
  peer_okb dst = true -> forallb admin_port_okb ports = true ->
  cs_pre res -> admin_ports_conns ports dst res = Ok c ->
  cs_pre c /\
  forall pr n, cs_denote c pr n =
               cs_denote res pr n || (valid_port n && existsb (fun ap => s_admin_port_matches ap dst pr n) ports).
Proof.
  induction ports as [|ap t IH]; intros res c Hd Hok Hres H; cbn [admin_ports_conns] in H.
  - inversion H; subst c. split; [exact Hres|]. intros pr n. cbn [existsb]. rewrite andb_false_r, orb_false_r. reflexivity.
  - cbn [forallb] in Hok. apply andb_true_iff in Hok. destruct Hok as [Hap Ht].
    assert (Hstep : forall p a e, range_okb a e = true ->
              admin_ports_conns t dst (cs_addconn res p (ps_add_range (ps_make false) a e)) = Ok c ->
              cs_pre c /\
              forall pr n, cs_denote c pr n =
                 cs_denote res pr n || (valid_port n && ((proto_eqb p pr && (a <=? n) && (n <=? e))
                                        || existsb (fun ap => s_admin_port_matches ap dst pr n) t))).
    { intros p a e Hr H'.
      assert (Hwf := range_ok_wf a e Hr).
      destruct (IH _ _ Hd Ht (cs_addconn_pre _ p _ Hres Hwf (ps_add_range_numeric _ a e (ps_make_numeric false))) H') as [Hc Hden].
      split; [exact Hc|]. intros pr n. rewrite Hden.
      rewrite cs_addconn_denote by (try apply cs_pre_wf; assumption). rewrite range_mem.
      destruct (proto_eqb p pr); cbn [andb orb]; [|destruct (cs_denote res pr n), (valid_port n); reflexivity].
      destruct ((a <=? n) && (n <=? e)) eqn:Hin.
      - rewrite (range_ok_valid a e n Hr Hin). cbn [andb orb]. destruct (cs_denote res pr n); reflexivity.
      - cbn [andb orb]. destruct (cs_denote res pr n), (valid_port n); reflexivity. }
    destruct ap as [p a | p lo hi | nm |]; cbn [admin_port_okb] in Hap.
    + assert (Hr : range_okb a a = true) by (unfold range_okb, valid_port in *; lia).
      destruct (Hstep p a a Hr H) as [Hc Hden]. split; [exact Hc|]. intros pr n. rewrite Hden.
      cbn [existsb s_admin_port_matches].
      replace ((a <=? n) && (n <=? a)) with (a =? n) by lia.
      rewrite <- andb_assoc. replace ((a <=? n) && (n <=? a)) with (a =? n) by lia. reflexivity.
    + destruct (Hstep p lo hi Hap H) as [Hc Hden]. split; [exact Hc|]. intros pr n. rewrite Hden.
      cbn [existsb s_admin_port_matches]. reflexivity.
    + destruct dst as [d nsl | bl].
      * cbn [peer_okb] in Hd.
        destruct (pod_named_port (p_ports d) nm) as [[q m]|] eqn:Hnp.
        -- assert (Hm := pod_named_port_valid _ _ _ _ Hd Hnp).
           assert (Hr : range_okb m m = true) by (unfold range_okb, valid_port in *; lia).
           destruct (Hstep q m m Hr H) as [Hc Hden]. split; [exact Hc|]. intros pr n. rewrite Hden.
           cbn [existsb s_admin_port_matches]. rewrite Hnp.
           rewrite <- andb_assoc. replace ((m <=? n) && (n <=? m)) with (m =? n) by lia. reflexivity.
        -- destruct (IH _ _ Hd Ht Hres H) as [Hc Hden]. split; [exact Hc|]. intros pr n. rewrite Hden.
           cbn [existsb s_admin_port_matches]. rewrite Hnp. reflexivity.
      * destruct (IH _ _ Hd Ht Hres H) as [Hc Hden]. split; [exact Hc|]. intros pr n. rewrite Hden.
        cbn [existsb s_admin_port_matches]. reflexivity.
    + discriminate.
Qed.

Lemma admin_rule_conns_ok ports dst c :
  peer_okb dst = true -> match ports with None => true | Some l => forallb admin_port_okb l end = true ->
  admin_rule_conns ports dst = Ok c ->
  cs_sub c /\
  forall pr n, cs_denote c pr n =
               valid_port n && match ports with
                               | None => true
                               | Some l => existsb (fun ap => s_admin_port_matches ap dst pr n) l
                               end.
Proof.
  intros Hd Hok H. unfold admin_rule_conns in H. destruct ports as [l|].
  - destruct (admin_ports_conns_ok l dst _ _ Hd Hok cs_make_false_pre H) as [Hc Hden].
    split; [right; exact Hc|]. intros pr n. rewrite Hden, cs_make_false_denote. reflexivity.
  - inversion H; subst c. split; [left; apply cs_make_ninv|]. intros pr n. rewrite cs_make_denote. reflexivity.
Qed.

(* ---------- the Allowed / Denied / Pass triple ---------- *)
Definition isA (v : verdict) : bool := match v with VAllow => true | _ => false end.
Definition isD (v : verdict) : bool := match v with VDeny => true | _ => false end.
Definition isP (v : verdict) : bool := match v with VPass => true | _ => false end.
Definition vcomp (v1 v2 : verdict) : verdict := match v1 with VNone => v2 | _ => v1 end.

Definition pc_ok (pc : pconns) : Prop :=
  cs_ninv (pc_allow pc) /\ cs_ninv (pc_deny pc) /\ cs_ninv (pc_pass pc).

(* the triple represents a verdict function: its three components are exactly the points whose
   verdict is Allow / Deny / Pass (so they are pairwise disjoint) *)
Definition pc_repr (pc : pconns) (vf : proto -> Z -> verdict) : Prop :=
  forall pr n, valid_port n = true ->
    cs_denote (pc_allow pc) pr n = isA (vf pr n) /\
    cs_denote (pc_deny pc) pr n = isD (vf pr n) /\
    cs_denote (pc_pass pc) pr n = isP (vf pr n).

Lemma pc_repr_ext pc vf vg :
  (forall pr n, valid_port n = true -> vf pr n = vg pr n) -> pc_repr pc vf -> pc_repr pc vg.
Proof. intros He H pr n Hv. rewrite <- (He pr n Hv). apply H; exact Hv. Qed.

Lemma pc_new_ok : pc_ok pc_new.
Proof. unfold pc_ok, pc_new; cbn [pc_allow pc_deny pc_pass]. split; [|split]; apply cs_make_ninv. Qed.

Lemma pc_new_repr : pc_repr pc_new (fun _ _ => VNone).
Proof. intros pr n _. unfold pc_new; cbn. rewrite !cs_make_false_denote. auto. Qed.

Lemma sub2_denote rc a b pr n :
  cs_sub rc -> cs_ninv a -> cs_ninv b ->
  cs_denote (cs_subtract (cs_subtract rc a) b) pr n =
  cs_denote rc pr n && negb (cs_denote a pr n) && negb (cs_denote b pr n).
Proof.
  intros Hrc Ha Hb.
  rewrite cs_subtract_denote; [|apply cs_sub_wf, cs_subtract_sub; assumption | apply cs_ninv_wf; assumption].
  rewrite cs_subtract_denote; [|apply cs_sub_wf; assumption | apply cs_ninv_wf; assumption].
  reflexivity.
Qed.

Lemma sub2_sub rc a b : cs_sub rc -> cs_ninv a -> cs_ninv b -> cs_sub (cs_subtract (cs_subtract rc a) b).
Proof. intros. apply cs_subtract_sub; [apply cs_subtract_sub|]; assumption. Qed.

Lemma union_sub2_denote x rc a b pr n :
  cs_ninv x -> cs_sub rc -> cs_ninv a -> cs_ninv b ->
  cs_denote (cs_union x (cs_subtract (cs_subtract rc a) b)) pr n =
  cs_denote x pr n || (cs_denote rc pr n && negb (cs_denote a pr n) && negb (cs_denote b pr n)).
Proof.
  intros Hx Hrc Ha Hb.
  rewrite cs_union_denote; [|apply cs_ninv_wf; assumption | apply cs_sub_wf, sub2_sub; assumption].
  rewrite sub2_denote by assumption. reflexivity.
Qed.

Lemma pc_update_ok pc rc a is_banp pc' vf (m : proto -> Z -> bool) :
  pc_ok pc -> pc_repr pc vf -> cs_sub rc ->
  (forall pr n, cs_denote rc pr n = valid_port n && m pr n) ->
  pc_update pc rc a is_banp = Ok pc' ->
  a <> AUnknown /\ pc_ok pc' /\
  pc_repr pc' (fun pr n => vcomp (vf pr n) (if m pr n then verdict_of a else VNone)).
Proof.
  intros (Ha & Hd & Hp) Hrepr Hrc Hden H. unfold pc_update in H.
  destruct a; [| | destruct is_banp; [discriminate|] | discriminate]; inversion H; subst pc'; clear H;
    (split; [discriminate|]); (split; [unfold pc_ok; cbn [pc_allow pc_deny pc_pass]; (split; [|split]); try assumption;
                                        apply cs_union_sub; try assumption; apply sub2_sub; assumption|]);
    intros pr n Hv; cbn [pc_allow pc_deny pc_pass];
    destruct (Hrepr pr n Hv) as (HA & HD & HP);
    rewrite ?union_sub2_denote by assumption; rewrite ?HA, ?HD, ?HP, ?Hden, ?Hv; cbn [andb];
    destruct (vf pr n), (m pr n); cbn; auto.
Qed.

Lemma admin_rules_conns_ok rules other dst is_banp : forall pc pc' vf,
  peer_okb dst = true -> forallb admin_rule_okb rules = true ->
  pc_ok pc -> pc_repr pc vf ->
  admin_rules_conns rules other dst is_banp pc = Ok pc' ->
  pc_ok pc' /\ pc_repr pc' (fun pr n => vcomp (vf pr n) (s_rules_verdict rules other dst pr n)).
Proof.
  induction rules as [|r t IH]; intros pc pc' vf Hdst Hok Hpc Hrepr H; cbn [admin_rules_conns] in H.
  - inversion H; subst pc'. split; [exact Hpc|].
    eapply pc_repr_ext; [|exact Hrepr]. intros pr n _. cbn. destruct (vf pr n); reflexivity.
  - cbn [forallb] in Hok. apply andb_true_iff in Hok. destruct Hok as [Hr Ht].
    destruct (ar_peers r) as [|ap0 aps] eqn:Hpeers; [discriminate|]. rewrite <- Hpeers in H.
    destruct (admin_peers_select (ar_peers r) other) as [sel|e] eqn:Hsel; cbn [bind] in H; [|discriminate].
    apply admin_peers_select_ok in Hsel.
    destruct sel; cbn [negb] in H.
    + destruct (admin_rule_conns (ar_ports r) dst) as [rc|e] eqn:Hrc; cbn [bind] in H; [|discriminate].
      destruct (pc_update pc rc (ar_action r) is_banp) as [pc1|e] eqn:Hup; cbn [bind] in H; [|discriminate].
      destruct (admin_rule_conns_ok _ _ _ Hdst Hr Hrc) as [Hsub Hrden].
      destruct (pc_update_ok _ _ _ _ _ vf _ Hpc Hrepr Hsub Hrden Hup) as (Hact & Hpc1 & Hrepr1).
      destruct (IH _ _ _ Hdst Ht Hpc1 Hrepr1 H) as [Hpc' Hrepr'].
      split; [exact Hpc'|]. eapply pc_repr_ext; [|exact Hrepr']. intros pr n _. cbn beta.
      cbn [s_rules_verdict]. unfold s_admin_rule_matches. rewrite <- Hsel. cbn [andb].
      destruct (vf pr n); cbn [vcomp]; try reflexivity.
      destruct (match ar_ports r with None => true | Some l => existsb (fun ap => s_admin_port_matches ap dst pr n) l end);
        [|reflexivity].
      destruct (ar_action r); cbn; try reflexivity. contradiction.
    + destruct (IH _ _ _ Hdst Ht Hpc Hrepr H) as [Hpc' Hrepr'].
      split; [exact Hpc'|]. eapply pc_repr_ext; [|exact Hrepr']. intros pr n _. cbn beta.
      cbn [s_rules_verdict]. unfold s_admin_rule_matches. rewrite <- Hsel. cbn [andb]. reflexivity.
Qed.

Lemma pc_collect_anp_ok pc s vf vs :
  pc_ok pc -> pc_repr pc vf -> pc_ok s -> pc_repr s vs ->
  pc_ok (pc_collect_anp pc s) /\ pc_repr (pc_collect_anp pc s) (fun pr n => vcomp (vf pr n) (vs pr n)).
Proof.
  intros (Ha & Hd & Hp) Hrepr (Sa & Sd & Sp) Hsrepr. unfold pc_collect_anp. split.
  - unfold pc_ok; cbn [pc_allow pc_deny pc_pass].
    (split; [|split]); apply cs_union_sub; try assumption; apply sub2_sub; try assumption; left; assumption.
  - intros pr n Hv. cbn [pc_allow pc_deny pc_pass].
    destruct (Hrepr pr n Hv) as (HA & HD & HP). destruct (Hsrepr pr n Hv) as (SA & SD & SP).
    rewrite !union_sub2_denote by (try assumption; left; assumption).
    rewrite HA, HD, HP, SA, SD, SP.
    destruct (vf pr n), (vs pr n); cbn; auto.
Qed.

Lemma pc_isempty_repr s vs pr n :
  pc_isempty s = true -> pc_repr s vs -> valid_port n = true -> vs pr n = VNone.
Proof.
  unfold pc_isempty. intros H Hr Hv. apply andb_true_iff in H. destruct H as [H Hp].
  apply andb_true_iff in H. destruct H as [Ha Hd].
  destruct (Hr pr n Hv) as (HA & HD & HP).
  rewrite (cs_isempty_denote _ pr n Ha) in HA. rewrite (cs_isempty_denote _ pr n Hd) in HD.
  rewrite (cs_isempty_denote _ pr n Hp) in HP.
  destruct (vs pr n); cbn in *; try discriminate; reflexivity.
Qed.

Lemma anps_conns_ok anps src dst ingress : forall pc pc' vf,
  peer_okb dst = true -> forallb anp_okb anps = true ->
  pc_ok pc -> pc_repr pc vf ->
  anps_conns anps src dst ingress pc = Ok pc' ->
  pc_ok pc' /\ pc_repr pc' (fun pr n => vcomp (vf pr n) (s_anps_verdict anps src dst ingress pr n)).
Proof.
  induction anps as [|a t IH]; intros pc pc' vf Hdst Hok Hpc Hrepr H; cbn [anps_conns] in H.
  - inversion H; subst pc'. split; [exact Hpc|].
    eapply pc_repr_ext; [|exact Hrepr]. intros pr n _. cbn. destruct (vf pr n); reflexivity.
  - cbn [forallb] in Hok. apply andb_true_iff in Hok. destruct Hok as [Ha Ht].
    set (rules := if ingress then a_in a else a_eg a) in *.
    assert (Hrules : forallb admin_rule_okb rules = true).
    { unfold anp_okb in Ha. apply andb_true_iff in Ha. unfold rules. destruct ingress; apply Ha. }
    destruct (admin_selects (a_subject a) rules (if ingress then dst else src)) as [sel|e] eqn:Hsel; cbn [bind] in H; [|discriminate].
    apply admin_selects_ok in Hsel.
    set (vs := fun pr n => if sel then s_rules_verdict rules (if ingress then src else dst) dst pr n else VNone).
    destruct (if sel then admin_rules_conns rules (if ingress then src else dst) dst false pc_new else Ok pc_new)
      as [single|e] eqn:Hsingle; cbn [bind] in H; [|discriminate].
    assert (Hs : pc_ok single /\ pc_repr single vs).
    { unfold vs. destruct sel.
      - destruct (admin_rules_conns_ok _ _ _ _ _ _ _ Hdst Hrules pc_new_ok pc_new_repr Hsingle) as [H1 H2].
        split; [exact H1|]. eapply pc_repr_ext; [|exact H2]. intros; reflexivity.
      - inversion Hsingle; subst single. split; [apply pc_new_ok | apply pc_new_repr]. }
    destruct Hs as [Hsok Hsrepr].
    assert (Hstep : pc_ok (if pc_isempty single then pc else pc_collect_anp pc single) /\
                    pc_repr (if pc_isempty single then pc else pc_collect_anp pc single)
                            (fun pr n => vcomp (vf pr n) (vs pr n))).
    { destruct (pc_isempty single) eqn:He.
      - split; [exact Hpc|]. eapply pc_repr_ext; [|exact Hrepr]. intros pr n Hv. cbn beta.
        rewrite (pc_isempty_repr _ _ pr n He Hsrepr Hv). destruct (vf pr n); reflexivity.
      - apply pc_collect_anp_ok; assumption. }
    destruct Hstep as [Hok1 Hrepr1].
    destruct (IH _ _ _ Hdst Ht Hok1 Hrepr1 H) as [Hpc' Hrepr'].
    split; [exact Hpc'|]. eapply pc_repr_ext; [|exact Hrepr']. intros pr n _. cbn beta.
    cbn [s_anps_verdict]. fold rules. rewrite <- Hsel. unfold vs.
    destruct (vf pr n); cbn [vcomp]; try reflexivity;
      destruct sel; try reflexivity;
      destruct (s_rules_verdict rules (if ingress then src else dst) dst pr n); reflexivity.
Qed.

(* ---------- one direction ---------- *)
Lemma default_conns_ok w src dst ingress dflt :
  peer_okb dst = true -> match w_banp w with None => true | Some b => banp_okb b end = true ->
  default_conns w src dst ingress = Ok dflt ->
  cs_ninv (pc_deny dflt) /\
  forall pr n, valid_port n = true ->
               cs_denote (pc_deny dflt) pr n = negb (s_banp_allows w src dst ingress pr n).
Proof.
  intros Hdst Hok H. unfold default_conns in H. unfold s_banp_allows.
  destruct (w_banp w) as [b|].
  - set (rules := if ingress then b_in b else b_eg b) in *.
    assert (Hrules : forallb admin_rule_okb rules = true).
    { unfold banp_okb in Hok. apply andb_true_iff in Hok. unfold rules. destruct ingress; apply Hok. }
    destruct (admin_selects (b_subject b) rules (if ingress then dst else src)) as [sel|e] eqn:Hsel; cbn [bind] in H; [|discriminate].
    apply admin_selects_ok in Hsel. rewrite <- Hsel.
    destruct (if sel then admin_rules_conns rules (if ingress then src else dst) dst true pc_new else Ok pc_new)
      as [res|e] eqn:Hres; cbn [bind] in H; [|discriminate].
    assert (Hd : pc_deny dflt = pc_deny res).
    { inversion H. destruct (pc_isempty res); reflexivity. }
    rewrite Hd. destruct sel.
    + destruct (admin_rules_conns_ok _ _ _ _ _ _ _ Hdst Hrules pc_new_ok pc_new_repr Hres) as [(_ & H1 & _) H2].
      split; [exact H1|]. intros pr n Hv. destruct (H2 pr n Hv) as (_ & HD & _). rewrite HD. cbn [vcomp].
      destruct (s_rules_verdict rules (if ingress then src else dst) dst pr n); reflexivity.
    + inversion Hres; subst res. split; [apply cs_make_ninv|]. intros pr n _.
      cbn [pc_new pc_deny]. rewrite cs_make_false_denote. reflexivity.
  - inversion H; subst dflt. cbn [pc_deny]. split; [apply cs_make_ninv|]. intros pr n _.
    rewrite cs_make_false_denote. reflexivity.
Qed.

Lemma world_ok_parts w : world_okb w = true ->
  forallb netpol_okb (w_nps w) = true /\ forallb anp_okb (w_anps w) = true /\
  match w_banp w with None => true | Some b => banp_okb b end = true.
Proof.
  unfold world_okb. intros H. apply andb_true_iff in H. destruct H as [H H3].
  apply andb_true_iff in H. destruct H as [H1 H2]. auto.
Qed.

Theorem xgress_conns_ok w src dst ingress c :
  peer_okb dst = true -> world_okb w = true ->
  xgress_conns w src dst ingress = Ok c ->
  cs_ninv c /\ forall pr n, cs_denote c pr n = valid_port n && s_dir_allows w src dst ingress pr n.
Proof.
  intros Hdst Hw H. destruct (world_ok_parts w Hw) as (Hnps & Hanps & Hbanp).
  unfold xgress_conns in H.
  destruct (anps_conns (w_anps w) src dst ingress pc_new) as [anpc|e] eqn:Hanp; cbn [bind] in H; [|discriminate].
  destruct (anps_conns_ok _ _ _ _ _ _ _ Hdst Hanps pc_new_ok pc_new_repr Hanp) as [(Ha & Hd & Hp) Hrepr0].
  assert (Hrepr : pc_repr anpc (s_anps_verdict (w_anps w) src dst ingress))
    by (eapply pc_repr_ext; [|exact Hrepr0]; intros; reflexivity).
  clear Hrepr0.
  assert (Hinv : forall (c0 : connset) pr n, valid_port n = false ->
                   cs_denote c0 pr n = valid_port n && s_dir_allows w src dst ingress pr n).
  { intros c0 pr n Hv. rewrite Hv. apply cs_denote_invalid. exact Hv. }
  destruct (negb (pc_isempty anpc) && pc_determines_all anpc) eqn:Hshort.
  - inversion H; subst c. split; [exact Ha|]. intros pr n.
    destruct (valid_port n) eqn:Hv; [|rewrite cs_denote_invalid by exact Hv; reflexivity]. cbn [andb].
    apply andb_true_iff in Hshort. destruct Hshort as [_ Hdet]. unfold pc_determines_all in Hdet.
    pose proof (cs_all_denote _ pr n Hdet) as Hu. rewrite Hv in Hu.
    rewrite cs_union_denote in Hu by (apply cs_ninv_wf; assumption).
    destruct (Hrepr pr n Hv) as (HA & HD & _). rewrite HA, HD in Hu. rewrite HA.
    unfold s_dir_allows. destruct (s_anps_verdict (w_anps w) src dst ingress pr n); cbn in *; try reflexivity; discriminate.
  - destruct (np_layer w src dst ingress) as [npc|e] eqn:Hnp; cbn [bind] in H; [|discriminate].
    pose proof (np_layer_ok _ _ _ _ _ Hdst Hnps Hnp) as Hnpok.
    destruct npc as [npa|].
    + destruct Hnpok as [Hnpa Hnpden].
      destruct (negb (pc_isempty anpc)) eqn:Hcap.
      * inversion H; subst c.
        split; [apply cs_union_ninv; [exact Ha | apply cs_subtract_ninv; assumption]|].
        intros pr n. destruct (valid_port n) eqn:Hv; [|rewrite cs_denote_invalid by exact Hv; reflexivity]. cbn [andb].
        rewrite cs_union_denote by (apply cs_ninv_wf; try assumption; apply cs_subtract_ninv; assumption).
        rewrite cs_subtract_denote by (apply cs_ninv_wf; assumption).
        destruct (Hnpden pr n) as (b & Hb & Hbd). rewrite Hbd, Hv. cbn [andb].
        destruct (Hrepr pr n Hv) as (HA & HD & _). rewrite HA, HD.
        unfold s_dir_allows. rewrite Hb.
        destruct (s_anps_verdict (w_anps w) src dst ingress pr n), b; reflexivity.
      * inversion H; subst c. split; [exact Hnpa|].
        intros pr n. destruct (valid_port n) eqn:Hv; [|rewrite cs_denote_invalid by exact Hv; reflexivity]. cbn [andb].
        destruct (Hnpden pr n) as (b & Hb & Hbd). rewrite Hbd, Hv. cbn [andb].
        apply negb_false_iff in Hcap.
        unfold s_dir_allows. rewrite (pc_isempty_repr _ _ pr n Hcap Hrepr Hv), Hb. reflexivity.
    + destruct (default_conns w src dst ingress) as [dflt|e] eqn:Hdf; cbn [bind] in H; [|discriminate].
      destruct (default_conns_ok _ _ _ _ _ Hdst Hbanp Hdf) as [Hdd Hdden].
      inversion H; subst c.
      assert (Hn1 : cs_ninv (cs_subtract (pc_deny dflt) (pc_allow anpc))) by (apply cs_subtract_ninv; assumption).
      assert (Hn2 : cs_ninv (cs_union (pc_deny anpc) (cs_subtract (pc_deny dflt) (pc_allow anpc))))
        by (apply cs_union_ninv; assumption).
      split; [apply cs_subtract_ninv; [apply cs_make_ninv | exact Hn2]|].
      intros pr n. destruct (valid_port n) eqn:Hv; [|rewrite cs_denote_invalid by exact Hv; reflexivity]. cbn [andb].
      rewrite cs_subtract_denote by (apply cs_ninv_wf; first [apply cs_make_ninv | exact Hn2]).
      rewrite cs_union_denote by (apply cs_ninv_wf; assumption).
      rewrite cs_subtract_denote by (apply cs_ninv_wf; assumption).
      rewrite cs_make_denote, Hv, (Hdden pr n Hv). cbn [andb].
      destruct (Hrepr pr n Hv) as (HA & HD & _). rewrite HA, HD.
      unfold s_dir_allows. rewrite (Hnpok pr n).
      destruct (s_anps_verdict (w_anps w) src dst ingress pr n), (s_banp_allows w src dst ingress pr n); reflexivity.
Qed.

(* ---------- both directions: the connection set between two peers is the Spec ---------- *)
Theorem all_conns_ok w src dst c :
  peer_okb dst = true -> world_okb w = true ->
  all_conns w src dst = Ok c ->
  cs_ninv c /\
  forall pr n, cs_denote c pr n = valid_port n && (pod_to_itself src dst || s_allows w src dst pr n).
Proof.
  intros Hdst Hw H. unfold all_conns in H.
  destruct (pod_to_itself src dst).
  - inversion H; subst c. split; [apply cs_make_ninv|]. intros pr n. rewrite cs_make_denote. reflexivity.
  - cbn [orb].
    destruct (xgress_conns w src dst false) as [eg|e] eqn:Heg; cbn [bind] in H; [|discriminate].
    destruct (xgress_conns_ok _ _ _ _ _ Hdst Hw Heg) as [Hegn Hegd].
    destruct (cs_isempty eg) eqn:Hemp.
    + inversion H; subst c. split; [exact Hegn|]. intros pr n.
      pose proof (Hegd pr n) as He. rewrite (cs_isempty_denote _ pr n Hemp) in He.
      rewrite (cs_isempty_denote _ pr n Hemp). unfold s_allows.
      destruct (valid_port n); cbn [andb] in *; [rewrite <- He|]; reflexivity.
    + destruct (xgress_conns w src dst true) as [ing|e] eqn:Hing; cbn [bind] in H; [|discriminate].
      destruct (xgress_conns_ok _ _ _ _ _ Hdst Hw Hing) as [Hingn Hingd].
      inversion H; subst c. split; [apply cs_inter_ninv; assumption|]. intros pr n.
      rewrite cs_inter_denote by (first [apply cs_ninv_wf; assumption | apply Hegn]).
      rewrite Hegd, Hingd. unfold s_allows. destruct (valid_port n); reflexivity.
Qed.
