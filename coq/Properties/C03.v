(* C03 — eval answers agree with list (and with the semantics) for every query.
   Statements only; proofs in Proofs/EvalPointProofs.v.
   Model/EvalPoint.v mirrors the rule walkers of `eval` (check_eval.go, ruleConnsContain,
   anpPortContains, Check{In,E}gressConnAllowed), which do not go through connection sets;
   Model/Eval.v mirrors the set computation of `list`. *)
From Coq Require Import List ZArith Bool String.
From NP Require Import IntervalSet ConnSet ConnSetProofs World Eval Spec EvalProofs EvalPoint EvalPointProofs EvalTotal.
Import ListNotations.
Open Scope Z_scope.

(* eval answers exactly what the semantics say, for pod-pod, IP-pod and pod-IP queries, every
   protocol, every port, any NetworkPolicy / ANP / BANP set *)
Theorem C03_eval_is_spec w src dst pr n b :
  check_allowed w src dst pr n = Ok b -> b = (pod_to_itself src dst || s_allows w src dst pr n).
Proof. exact (check_allowed_ok w src dst pr n b). Qed.
Print Assumptions C03_eval_is_spec.

(* eval returns true exactly when the list's connection set for the pair contains the point *)
Theorem C03_eval_eq_list w src dst pr n b c :
  peer_okb dst = true -> world_okb w = true -> valid_port n = true ->
  check_allowed w src dst pr n = Ok b -> all_conns w src dst = Ok c ->
  b = cs_denote c pr n.
Proof. exact (eval_eq_list w src dst pr n b c). Qed.
Print Assumptions C03_eval_eq_list.

(* per direction *)
Theorem C03_direction_is_spec w src dst ingress pr n b :
  xgress_allowed w src dst ingress pr n = Ok b -> b = s_dir_allows w src dst ingress pr n.
Proof. exact (xgress_allowed_ok w src dst ingress pr n b). Qed.
Print Assumptions C03_direction_is_spec.

(* a pod to itself is always allowed *)
Theorem C03_self_allowed w src dst pr n :
  pod_to_itself src dst = true -> check_allowed w src dst pr n = Ok true.
Proof. exact (self_allowed w src dst pr n). Qed.
Print Assumptions C03_self_allowed.

(* where list can analyse the pair, eval answers (for every point of that pair) rather than fails *)
Theorem C03_eval_answers_where_list_can_analyse w src dst c pr n :
  peer_okb dst = true -> world_okb w = true -> valid_port n = true ->
  all_conns w src dst = Ok c -> exists b, check_allowed w src dst pr n = Ok b.
Proof. exact (eval_total_when_list_ok w src dst c pr n). Qed.
Print Assumptions C03_eval_answers_where_list_can_analyse.
