(* Engine.v — the PolicyEngine as a state machine over update histories:
     /repo/pkg/netpol/eval/resources.go   (InsertObject / DeleteObject / SetResources / ClearResources)
     /repo/pkg/netpol/eval/eval_cache.go  (verdict cache keyed by the owners of the two pods)
     /repo/pkg/netpol/eval/check_eval.go  (CheckIfAllowed: self, cache lookup, compute, store)
   The cache is a finite map WITHOUT eviction (a superset of what the 500-entry LRU holds: sound
   because only verdicts are observable and the invariant proved in Proofs/EngineProofs.v says every
   entry is valid).  Cache keys are (namespace, owner name, label list) per end + protocol + port; the
   Go key uses the raw protocol/port strings and a hash of the label map, which only makes it miss
   more often.  Executable definitions only. *)
From Coq Require Import List ZArith Bool String.
From NP Require Import IntervalSet ConnSet World Eval EvalPoint Build EvalCase.
Import ListNotations.
Open Scope string_scope.
Open Scope list_scope.
Open Scope Z_scope.

Definition okey := (string * string * labels)%type.
Definition pod_okey (p : pod) : okey := (p_ns p, p_owner_name p, p_labels p).

Fixpoint labels_eqb (a b : labels) : bool :=
  match a, b with
  | [], [] => true
  | (k, v) :: a', (k', v') :: b' => String.eqb k k' && String.eqb v v' && labels_eqb a' b'
  | _, _ => false
  end.
Definition okey_eqb (a b : okey) : bool :=
  let '(n1, o1, l1) := a in let '(n2, o2, l2) := b in
  String.eqb n1 n2 && String.eqb o1 o2 && labels_eqb l1 l2.

Record ckey := mkCK { ck_src : okey; ck_dst : okey; ck_proto : proto; ck_port : Z }.
Definition ckey_eqb (a b : ckey) : bool :=
  okey_eqb (ck_src a) (ck_src b) && okey_eqb (ck_dst a) (ck_dst b)
  && proto_eqb (ck_proto a) (ck_proto b) && (ck_port a =? ck_port b).

Record estate := mkES { es_eng : engine; es_cache : list (ckey * bool) }.
Definition estate0 : estate := mkES engine0 [].

Definition with_eng (s : estate) (e : engine) (clear : bool) : estate :=
  mkES e (if clear then [] else es_cache s).

(* evalCache.deleteWorkload: drop every entry that mentions the owner key *)
Definition purge (k : okey) (c : list (ckey * bool)) : list (ckey * bool) :=
  filter (fun e => negb (okey_eqb (ck_src (fst e)) k || okey_eqb (ck_dst (fst e)) k)) c.

Fixpoint cache_get (k : ckey) (c : list (ckey * bool)) : option bool :=
  match c with
  | [] => None
  | (k', b) :: t => if ckey_eqb k k' then Some b else cache_get k t
  end.

Definition find_pod (key : string) (pods : list pod) : option pod :=
  find (fun p => String.eqb (pod_key p) key) pods.

(* the world a query is evaluated in: the engine's maps, admin policies kept ordered by priority *)
Definition world_of (e : engine) : world :=
  mkWorld (e_nss e) (e_pods e) (e_nps e) (e_anps e) (e_banp e).

Inductive eop :=
| EInsNs (n : namespace) | EDelNs (name : string)
| EInsPod (d : pod_doc) | EDelPod (ns name : string)
| EInsWl (wl : workload_doc)
| EInsNp (np : netpol) | EDelNp (ns name : string)
| EInsAnp (a : anp) | EDelAnp (name : string)
| EInsBanp (b : banp) | EDelBanp (name : string)
| ESetRes (nps : list netpol) (pods : list pod_doc) (nss : list namespace)
| EClear
| EQuery (q : query).

(* the answer of an operation: updates answer AUnit or AErr, queries ABool or AErr *)
Inductive eanswer := AUnit | ABool (b : bool) | AErr.

Definition set_pods (e : engine) (pods : list pod) : engine :=
  mkEngine (e_nss e) pods (e_nps e) (e_anps e) (e_anp_names e) (e_banp e).
Definition set_nss (e : engine) (nss : list namespace) : engine :=
  mkEngine nss (e_pods e) (e_nps e) (e_anps e) (e_anp_names e) (e_banp e).

(* insertPod: an update in place drops the verdicts cached for the old pod's owner *)
Definition ins_pod (s : estate) (d : pod_doc) : estate * eanswer :=
  if negb (pd_has_ip d) then (s, AErr)
  else
    let p := pod_of_doc d in
    let c := match find_pod (pod_key p) (e_pods (es_eng s)) with
             | Some old => purge (pod_okey old) (es_cache s)
             | None => es_cache s
             end in
    (mkES (set_pods (es_eng s) (upsert_pod p (e_pods (es_eng s)))) c, AUnit).

Definition del_pod (s : estate) (ns name : string) : estate * eanswer :=
  let key := (ns ++ "/" ++ name)%string in
  match find_pod key (e_pods (es_eng s)) with
  | None => (s, AUnit)
  | Some old =>
      let rest := filter (fun p => negb (String.eqb (pod_key p) key)) (e_pods (es_eng s)) in
      let c := if existsb (fun p => okey_eqb (pod_okey p) (pod_okey old)) rest
               then es_cache s else purge (pod_okey old) (es_cache s) in
      (mkES (set_pods (es_eng s) rest) c, AUnit)
  end.

Definition ins_ns (s : estate) (n : namespace) : estate :=
  mkES (set_nss (es_eng s) (upsert_ns (ns_with_name_label n) (e_nss (es_eng s)))) [].

Definition ins_np (s : estate) (np : netpol) : estate * eanswer :=
  match insert_obj (es_eng s) (ONetpol np) with
  | Ok e => (mkES e [], AUnit)
  | Err _ => (s, AErr)
  end.

Definition ins_anp (s : estate) (a : anp) : estate * eanswer :=
  let e := es_eng s in
  if str_mem (a_name a) (e_anp_names e) then (s, AErr)
  else (mkES (mkEngine (e_nss e) (e_pods e) (e_nps e) (insert_by_prio a (e_anps e)) (a_name a :: e_anp_names e) (e_banp e)) [], AUnit).

Fixpoint remove_first_anp (name : string) (l : list anp) : list anp :=
  match l with
  | [] => []
  | a :: t => if String.eqb (a_name a) name then t else a :: remove_first_anp name t
  end.

Fixpoint set_res_pods (s : estate) (pods : list pod_doc) : estate * eanswer :=
  match pods with
  | [] => (s, AUnit)
  | d :: t => match ins_pod s d with
              | (s', AUnit) => set_res_pods s' t
              | (s', a) => (s', a)
              end
  end.
Fixpoint set_res_nps (s : estate) (nps : list netpol) : estate * eanswer :=
  match nps with
  | [] => (s, AUnit)
  | np :: t => match ins_np s np with
               | (s', AUnit) => set_res_nps s' t
               | (s', a) => (s', a)
               end
  end.

(* getPeer: resolving a pod whose namespace object is missing inserts the synthesised namespace
   (and, like every namespace insert, drops the cache) *)
Definition resolve_q (s : estate) (q : qpeer) : estate * outcome peer :=
  match q with
  | QIP a => (s, Ok (PIP (a, a)))
  | QPod k =>
      match find_pod k (e_pods (es_eng s)) with
      | None => (s, Err ErrOther)
      | Some p =>
          match find_ns (p_ns p) (e_nss (es_eng s)) with
          | Some n => (s, Ok (PPod p (ns_labels n)))
          | None => let s' := ins_ns s (mkNs (p_ns p) [(K8sNsNameLabelKey, p_ns p)]) in
                    (s', Ok (PPod p [(K8sNsNameLabelKey, p_ns p)]))
          end
      end
  end.

Definition cache_key (src dst : peer) (pr : proto) (n : Z) : option ckey :=
  match src, dst with
  | PPod a _, PPod b _ =>
      if negb (String.eqb (p_owner_name a) "") && negb (String.eqb (p_owner_name b) "")
      then Some (mkCK (pod_okey a) (pod_okey b) pr n) else None
  | _, _ => None
  end.

(* CheckIfAllowed *)
Definition do_query (s : estate) (q : query) : estate * eanswer :=
  let '(s1, rs) := resolve_q s (q_src q) in
  match rs with
  | Err _ => (s1, AErr)
  | Ok src =>
      let '(s2, rd) := resolve_q s1 (q_dst q) in
      match rd with
      | Err _ => (s2, AErr)
      | Ok dst =>
          if pod_to_itself src dst then (s2, ABool true)
          else
            let key := cache_key src dst (q_proto q) (q_port q) in
            match match key with Some k => cache_get k (es_cache s2) | None => None end with
            | Some b => (s2, ABool b)
            | None =>
                match check_allowed (world_of (es_eng s2)) src dst (q_proto q) (q_port q) with
                | Err _ => (s2, AErr)
                | Ok b => (match key with
                           | Some k => mkES (es_eng s2) ((k, b) :: es_cache s2)
                           | None => s2
                           end, ABool b)
                end
            end
      end
  end.

Definition step (s : estate) (o : eop) : estate * eanswer :=
  let e := es_eng s in
  match o with
  | EInsNs n => (ins_ns s n, AUnit)
  | EDelNs name => (mkES (set_nss e (filter (fun n => negb (String.eqb (ns_name n) name)) (e_nss e))) [], AUnit)
  | EInsPod d => ins_pod s d
  | EDelPod ns name => del_pod s ns name
  | EInsWl wl =>
      (mkES (set_pods e (fold_left (fun acc p => upsert_pod p acc) (pods_of_workload (norm_workload wl)) (e_pods e))) (es_cache s), AUnit)
  | EInsNp np => ins_np s np
  | EDelNp ns name =>
      let ns' := if String.eqb ns "" then "default" else ns in
      (mkES (mkEngine (e_nss e) (e_pods e)
                      (filter (fun q => negb (String.eqb (np_ns q) ns' && String.eqb (np_name q) name)) (e_nps e))
                      (e_anps e) (e_anp_names e) (e_banp e)) [], AUnit)
  | EInsAnp a => ins_anp s a
  | EDelAnp name =>
      (mkES (mkEngine (e_nss e) (e_pods e) (e_nps e) (remove_first_anp name (e_anps e))
                      (sset_del name (e_anp_names e)) (e_banp e)) [], AUnit)
  | EInsBanp b =>
      match e_banp e with
      | Some _ => (s, AErr)
      | None => if String.eqb (b_name b) "default"
                then (mkES (mkEngine (e_nss e) (e_pods e) (e_nps e) (e_anps e) (e_anp_names e) (Some b)) [], AUnit)
                else (s, AErr)
      end
  | EDelBanp name =>
      match e_banp e with
      | Some b => if String.eqb (b_name b) name
                  then (mkES (mkEngine (e_nss e) (e_pods e) (e_nps e) (e_anps e) (e_anp_names e) None) [], AUnit)
                  else (s, AUnit)
      | None => (s, AUnit)
      end
  | ESetRes nps pods nss =>
      let s1 := fold_left ins_ns nss s in
      match set_res_nps s1 nps with
      | (s2, AUnit) => set_res_pods s2 pods
      | (s2, a) => (s2, a)
      end
  | EClear => (estate0, AUnit)
  | EQuery q => do_query s q
  end.

Fixpoint run_ops (s : estate) (ops : list eop) : list eanswer :=
  match ops with
  | [] => []
  | o :: t => let '(s', a) := step s o in a :: run_ops s' t
  end.

(* what a fresh engine holding the same current objects answers: no cache *)
Definition fresh_answer (s : estate) (q : query) : eanswer :=
  snd (do_query (mkES (es_eng s) []) q).

(* ---------- correspondence cases ---------- *)
Inductive obs_op := OpOk | OpErr | OpPanic | OpAns (b : bool).

Definition ans_matches (a : eanswer) (o : obs_op) : bool :=
  match a, o with
  | AUnit, OpOk | AErr, OpErr => true
  | ABool b, OpAns b' => Bool.eqb b b'
  | _, _ => false
  end.

Fixpoint first_hist_bad (s : estate) (ops : list (eop * obs_op)) (k : nat) : option nat :=
  match ops with
  | [] => None
  | (o, ob) :: t => let '(s', a) := step s o in
                    if ans_matches a ob then first_hist_bad s' t (S k) else Some k
  end.

Record hist_case := mkHC { hc_id : nat; hc_ops : list (eop * obs_op) }.
Definition hist_mismatches (cs : list hist_case) : list (nat * nat) :=
  flat_map (fun c => match first_hist_bad estate0 (hc_ops c) 0 with Some k => [(hc_id c, k)] | None => [] end) cs.
