(* DiffTxtInj.v — the txt output of `diff` (the default format) determines the diff as well.  The fields of a line are
   separated by ", " and a printed connection holds commas: the separator is found because no comma of a printed
   connection is followed by a blank. *)
From Coq Require Import List ZArith Bool String Ascii Lia Permutation.
From NP Require Import IntervalSet ConnSet IntervalSetProofs ConnSetProofs World Build Connlist Diff Format
     SortGeneric FormatProofs StrInj ConnInj RowInj WfProofs DiffInj.
Import ListNotations.
Open Scope string_scope.

(* no comma is followed by a blank *)
Fixpoint ncs (s : string) : bool :=
  match s with
  | EmptyString => true
  | String c t => (if Ascii.eqb c "," then match t with String " " _ => false | _ => true end else true) && ncs t
  end.

Lemma ncs_split (a a' r r' : string) :
  ncs a = true -> ncs a' = true -> a ++ String "," (String " " r) = a' ++ String "," (String " " r') -> a = a' /\ r = r'.
Proof.
  revert a'. induction a as [|x a IH]; intros [|x' a'] Ha Ha' H; cbn [append] in H.
  - injection H as H. split; [reflexivity|exact H].
  - exfalso. injection H as H1 H2. subst x'. cbn [ncs] in Ha'. rewrite Ascii.eqb_refl in Ha'.
    destruct a' as [|y a']; cbn [append] in H2; injection H2 as H2 H3; subst; cbn in Ha'; discriminate.
  - exfalso. injection H as H1 H2. subst x. cbn [ncs] in Ha. rewrite Ascii.eqb_refl in Ha.
    destruct a as [|y a]; cbn [append] in H2; injection H2 as H2 H3; subst; cbn in Ha; discriminate.
  - injection H as H1 H2. subst x'. cbn [ncs] in Ha, Ha'. apply andb_true_iff in Ha. apply andb_true_iff in Ha'.
    destruct (IH a' (proj2 Ha) (proj2 Ha') H2) as [E1 E2]. subst. split; reflexivity.
Qed.

(* a string without any comma *)
Lemma ncs_nocomma s : all_chars not_comma s = true -> ncs s = true.
Proof.
  induction s as [|c t IH]; [reflexivity|]. cbn. intros H. apply andb_true_iff in H. destruct H as [H1 H2].
  unfold not_comma in H1. apply negb_true_iff in H1. rewrite H1, (IH H2). reflexivity.
Qed.

(* join "," of comma-free, non-empty pieces none of which starts with a blank *)
Definition piece_ok (s : string) : Prop :=
  all_chars not_comma s = true /\ exists c t, s = String c t /\ c <> " "%char.

Lemma ncs_app_nocomma a b : all_chars not_comma a = true -> ncs b = true -> ncs (a ++ b) = true.
Proof.
  induction a as [|c t IH]; [intros _ H; exact H|]. cbn [append ncs all_chars]. intros H Hb. apply andb_true_iff in H. destruct H as [H1 H2].
  unfold not_comma in H1. apply negb_true_iff in H1. rewrite H1, (IH H2 Hb). reflexivity.
Qed.

Lemma join_lead y l : (exists c t, y = String c t /\ c <> " "%char) -> exists c t, join comma (y :: l) = String c t /\ c <> " "%char.
Proof. intros (c & t & -> & Hc). destruct l as [|z l]; [exists c, t|exists c; eexists]; (split; [reflexivity|exact Hc]). Qed.

Lemma ncs_join l : Forall piece_ok l -> ncs (join comma l) = true.
Proof.
  induction l as [|x l IH]; intros H; [reflexivity|]. inversion H as [|? ? [Hx Hb] Hl]; subst.
  destruct l as [|y l]; [apply ncs_nocomma; exact Hx|].
  rewrite join_cons. apply ncs_app_nocomma; [exact Hx|]. unfold comma at 1, sep1. cbn [append ncs]. rewrite Ascii.eqb_refl.
  rewrite (IH Hl), andb_true_r. inversion Hl as [|? ? [_ Hy] _]; subst.
  destruct (join_lead y l Hy) as (c & t & -> & Hc). destruct (Ascii.eqb_spec c " "); [congruence|].
  destruct c as [[] [] [] [] [] [] [] []]; try reflexivity. exfalso. apply n. reflexivity.
Qed.

Lemma lead_some s c : lead s = Some c -> exists t, s = String c t.
Proof. destruct s as [|x t]; cbn; [discriminate|]. intros [= ->]. exists t. reflexivity. Qed.

Lemma grp_led_ok c p : cs_wf c -> Forall (fun s => exists ch t, s = String ch t /\ ch <> " "%char) (grp c p).
Proof.
  intros Hw. destruct (grp_has_shape c p Hw) as [->|(h & t & -> & L & T)]; [constructor|]. constructor.
  - destruct (lead_some _ _ L) as (t' & ->). exists (first_letter p), t'. split; [reflexivity|]. destruct p; discriminate.
  - eapply Forall_impl; [|exact T]. intros s (ch & L' & D). destruct (lead_some _ _ L') as (t' & ->). exists ch, t'. split; [reflexivity|].
    intros ->. discriminate.
Qed.

Lemma toks_piece_ok c : cs_wf c -> Forall piece_ok (toks c).
Proof.
  intros Hw. pose proof (toks_not_comma c Hw) as NC.
  assert (LD : Forall (fun s => exists ch t, s = String ch t /\ ch <> " "%char) (toks c)).
  { unfold toks. rewrite !Forall_app. repeat split; apply grp_led_ok; exact Hw. }
  rewrite Forall_forall in *. intros s Hs. split; [exact (NC s Hs)|exact (LD s Hs)].
Qed.

Lemma cs_string_ncs c : cs_ninv c -> ncs (cs_string c) = true.
Proof.
  intros Hn. destruct (cs_all c) eqn:Ac; [unfold cs_string; rewrite Ac; reflexivity|].
  destruct (cs_isempty c) eqn:Ec; [unfold cs_string; rewrite Ac, Ec; reflexivity|].
  rewrite (cs_string_toks c Hn Ac Ec). apply ncs_join. apply toks_piece_ok. apply Hn.
Qed.

(* ---- the txt line ---- *)
Lemma plain_ncs s : all_chars plain s = true -> ncs s = true.
Proof.
  intros H. apply ncs_nocomma. apply (all_chars_weaken plain); [|exact H].
  intros ch Hc. unfold plain in Hc. unfold not_comma. rewrite !andb_true_iff in Hc. tauto.
Qed.

Definition drow_txt_ok (r : drow) : Prop :=
  ncs (dr_type r) = true /\ ncs (dr_src r) = true /\ ncs (dr_dst r) = true /\ ncs (dr_c1 r) = true /\ ncs (dr_c2 r) = true /\
  all_chars not_comma (dr_info r) = true.

Lemma diff_txt_line_inj r r' : drow_txt_ok r -> drow_txt_ok r' -> diff_txt_line r = diff_txt_line r' -> r = r'.
Proof.
  intros (A1 & A2 & A3 & A4 & A5 & A6) (B1 & B2 & B3 & B4 & B5 & B6). destruct r as [t s d c1 c2 i], r' as [t' s' d' c1' c2' i'].
  cbn [dr_type dr_src dr_dst dr_c1 dr_c2 dr_info] in *. unfold diff_txt_line. cbn [dr_type dr_src dr_dst dr_c1 dr_c2 dr_info append].
  intros H. strip H.
  destruct (ncs_split _ _ _ _ A1 B1 H) as [E1 H1]. strip H1.
  destruct (ncs_split _ _ _ _ A2 B2 H1) as [E2 H2]. strip H2.
  destruct (ncs_split _ _ _ _ A3 B3 H2) as [E3 H3]. strip H3.
  destruct (ncs_split _ _ _ _ A4 B4 H3) as [E4 H4]. strip H4. subst t' s' d' c1'.
  (* the tail: the second connection, then nothing or the info *)
  assert (BAD : forall y z, ncs (y ++ String "," (String " " z)) = false).
  { intros y z. induction y as [|c y IH]; [reflexivity|]. cbn [append ncs]. rewrite IH. apply andb_false_r. }
  destruct (String.eqb_spec i "") as [Ei|Ei], (String.eqb_spec i' "") as [Ei'|Ei']; subst; rewrite ?append_nil_r in H4.
  - subst. reflexivity.
  - exfalso. cbn [append] in H4. rewrite H4, BAD in A5. discriminate.
  - exfalso. cbn [append] in H4. rewrite <- H4, BAD in B5. discriminate.
  - cbn [append] in H4. destruct (ncs_split _ _ _ _ A5 B5 H4) as [E5 H5]. strip H5. subst. reflexivity.
Qed.

Lemma plain_not_comma ch : plain ch = true -> not_comma ch = true.
Proof. intros Hc. unfold plain in Hc. unfold not_comma. rewrite !andb_true_iff in Hc. tauto. Qed.

Lemma drow_txt_ok_of e : dentry_ok e -> drow_txt_ok (drow_of e).
Proof.
  intros (S1 & D1 & N1 & C1 & C1' & A1 & R1). unfold drow_txt_ok.
  pose proof (rpeer_str_plain _ (proj1 S1)) as PS. pose proof (rpeer_str_plain _ (proj1 D1)) as PD.
  repeat split.
  - unfold drow_of. cbn [dr_type]. destruct (de_type e); reflexivity.
  - apply plain_ncs. exact PS.
  - apply plain_ncs. exact PD.
  - rewrite dr_c1_is. apply cs_string_ncs. unfold side1. destruct (de_type e); try exact C1; exact ninv_empty.
  - rewrite dr_c2_is. apply cs_string_ncs. unfold side2. destruct (de_type e); try exact C1'; exact ninv_empty.
  - unfold drow_of. cbn [dr_info]. unfold diff_info.
    pose proof (all_chars_weaken plain not_comma _ plain_not_comma PS) as QS.
    pose proof (all_chars_weaken plain not_comma _ plain_not_comma PD) as QD.
    destruct (de_src_flag e), (de_dst_flag e); cbn [orb andb]; try reflexivity;
      rewrite !all_chars_app, ?QS, ?QD; destruct (de_type e); reflexivity.
Qed.

Lemma diff_txt_line_not_nl e : dentry_ok e -> all_chars not_nl (diff_txt_line (drow_of e)) = true /\ diff_txt_line (drow_of e) <> "".
Proof.
  intros H. destruct (drow_fields_nb2 e H) as (F1 & F2 & F3 & F4 & F5 & F6). split; [|unfold diff_txt_line; discriminate].
  unfold diff_txt_line. rewrite !all_chars_app.
  rewrite (all_chars_weaken nb2 not_nl _ nb2_notnl F1), (all_chars_weaken nb2 not_nl _ nb2_notnl F2), (all_chars_weaken nb2 not_nl _ nb2_notnl F3),
          (all_chars_weaken nb2 not_nl _ nb2_notnl F4), (all_chars_weaken nb2 not_nl _ nb2_notnl F5).
  destruct (String.eqb (dr_info (drow_of e)) ""); [reflexivity|].
  rewrite !all_chars_app, (all_chars_weaken nb2 not_nl _ nb2_notnl F6). reflexivity.
Qed.

Theorem diff_txt_inj d d' :
  Forall dentry_ok d -> Forall dentry_ok d' -> diff_txt d = diff_txt d' ->
  Permutation (filter changedb d) (filter changedb d').
Proof.
  intros Hd Hd' H. unfold diff_txt in H.
  destruct (diff_is_empty d) eqn:E, (diff_is_empty d') eqn:E'.
  - assert (Z : forall q, diff_is_empty q = true -> filter changedb q = []).
    { intros q Hq. unfold diff_is_empty in Hq. rewrite forallb_forall in Hq. induction q as [|e t IH]; [reflexivity|].
      cbn [filter]. unfold changedb at 1. rewrite (Hq e (or_introl eq_refl)). cbn [negb]. apply IH. intros x Hx. apply Hq. right. exact Hx. }
    rewrite (Z d E), (Z d' E'). constructor.
  - exfalso. destruct (diff_lines diff_txt_line d'); cbn in H; discriminate.
  - exfalso. destruct (diff_lines diff_txt_line d); cbn in H; discriminate.
  - apply append_inj_r in H.
    destruct (diff_lines diff_txt_line d) as [|x l] eqn:L; [exfalso; exact (diff_lines_nonempty _ _ E L)|].
    destruct (diff_lines diff_txt_line d') as [|x' l'] eqn:L'; [exfalso; exact (diff_lines_nonempty _ _ E' L')|].
    rewrite !join_cons in H. apply append_inj_l in H. apply append_inj_l in H.
    assert (G : forall q, Forall dentry_ok q -> Forall (fun s => all_chars not_nl s = true /\ s <> "") (diff_lines diff_txt_line q)).
    { intros q Hq. apply Forall_forall. intros s Hs. apply (Permutation_in s (diff_lines_perm diff_txt_line q)) in Hs.
      apply in_map_iff in Hs. destruct Hs as (e & <- & He). apply filter_In in He. rewrite Forall_forall in Hq.
      apply diff_txt_line_not_nl. exact (Hq e (proj1 He)). }
    apply join_nl_inj in H; [|rewrite <- L; apply G; exact Hd|rewrite <- L'; apply G; exact Hd'].
    assert (FO : forall q, Forall dentry_ok q -> Forall dentry_ok (filter changedb q)).
    { intros q Hq. rewrite Forall_forall in *. intros e He. apply filter_In in He. exact (Hq e (proj1 He)). }
    apply (perm_map_inj_on (fun e => diff_txt_line (drow_of e)) dentry_ok); [|exact (FO d Hd)|exact (FO d' Hd')|].
    + intros a b Ha Hb Hab. apply drow_of_inj; [exact Ha|exact Hb|].
      apply diff_txt_line_inj; [apply drow_txt_ok_of; exact Ha|apply drow_txt_ok_of; exact Hb|exact Hab].
    + eapply Permutation_trans; [apply Permutation_sym; apply diff_lines_perm|]. rewrite L, H, <- L'. apply diff_lines_perm.
Qed.

(* txt and md carry the same information *)
Corollary diff_txt_md_equivalent d d' : Forall dentry_ok d -> Forall dentry_ok d' ->
  (diff_txt d = diff_txt d' -> Permutation (filter changedb d) (filter changedb d')) /\
  (diff_md d = diff_md d' -> Permutation (filter changedb d) (filter changedb d')).
Proof. intros H H'. split; [apply diff_txt_inj|apply diff_md_inj]; assumption. Qed.
