(* C02 — ANP > NetworkPolicy > BANP precedence and rule order are respected.
   Statements only; proofs in Proofs/EvalProofs.v, Proofs/AbstractSort.v.
   Spec (Model/Spec.v): s_anps_verdict scans the ANPs that select the pod in the given (priority)
   order and their rules in listed order — the first rule matching the other end and the point
   decides; Pass / no match defers to the NetworkPolicy layer if it governs the pod, else to the
   first matching BANP rule (none = allow). *)
From Coq Require Import List ZArith Bool String Permutation.
From NP Require Import IntervalSet ConnSet ConnSetProofs World Eval Spec EvalProofs Build AbstractSort BuildProofs.
Import ListNotations.
Open Scope Z_scope.

(* per direction: the set computed by the mirror of allAllowedXgressConnections is the Spec *)
Theorem C02_direction_exact w src dst ingress c :
  peer_okb dst = true -> world_okb w = true ->
  xgress_conns w src dst ingress = Ok c ->
  cs_ninv c /\ forall pr n, cs_denote c pr n = valid_port n && s_dir_allows w src dst ingress pr n.
Proof. exact (xgress_conns_ok w src dst ingress c). Qed.
Print Assumptions C02_direction_exact.

(* both directions *)
Theorem C02_pair_exact w src dst c :
  peer_okb dst = true -> world_okb w = true ->
  all_conns w src dst = Ok c ->
  cs_ninv c /\
  forall pr n, cs_denote c pr n = valid_port n && (pod_to_itself src dst || s_allows w src dst pr n).
Proof. exact (all_conns_ok w src dst c). Qed.
Print Assumptions C02_pair_exact.

(* the Allowed / Denied / Pass triple after the ANP pass: its components are exactly the points
   whose first matching rule (of the first matching ANP) says Allow / Deny / Pass — in particular
   they are pairwise disjoint — for any number of ANPs and rules *)
Theorem C02_triple_is_first_match w src dst ingress pc :
  peer_okb dst = true -> forallb anp_okb (w_anps w) = true ->
  anps_conns (w_anps w) src dst ingress pc_new = Ok pc ->
  pc_ok pc /\
  forall pr n, valid_port n = true ->
    cs_denote (pc_allow pc) pr n = isA (s_anps_verdict (w_anps w) src dst ingress pr n) /\
    cs_denote (pc_deny pc) pr n = isD (s_anps_verdict (w_anps w) src dst ingress pr n) /\
    cs_denote (pc_pass pc) pr n = isP (s_anps_verdict (w_anps w) src dst ingress pr n).
Proof.
  intros Hd Hok H.
  destruct (anps_conns_ok _ _ _ _ _ _ _ Hd Hok pc_new_ok pc_new_repr H) as [H1 H2].
  split; [exact H1|]. intros pr n Hv. exact (H2 pr n Hv).
Qed.
Print Assumptions C02_triple_is_first_match.

(* ANP / BANP never select external IPs *)
Theorem C02_admin_never_selects_ip ap b : s_admin_peer_matches ap (PIP b) = false.
Proof. destruct ap; reflexivity. Qed.
Print Assumptions C02_admin_never_selects_ip.

Theorem C02_admin_subject_never_selects_ip subj rules b : admin_selects subj rules (PIP b) = Ok false.
Proof. reflexivity. Qed.
Print Assumptions C02_admin_subject_never_selects_ip.

(* the answer is a function of the priorities only: whatever the order in which the ANPs appear
   in the input, sorting succeeds or fails alike and yields the same list to scan *)
Theorem C02_admin_order_irrelevant l1 l2 :
  Permutation l1 l2 ->
  is_ok (sort_anps l1) = is_ok (sort_anps l2) /\
  forall s1 s2, sort_anps l1 = Ok s1 -> sort_anps l2 = Ok s2 -> s1 = s2.
Proof. exact (sort_anps_perm_invariant l1 l2). Qed.
Print Assumptions C02_admin_order_irrelevant.
