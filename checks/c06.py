# C06 — exposure analysis is sound and leaves base connectivity untouched.
#  (a) the real `list --exposure` and the real `list` report the same connections and peers;
#  (b) the whole exposure result (protected flags, entire-cluster entries, per-selector entries with their connections,
#      named ports included) equals Model/Exposure.v exposure_objs, for which Properties/C06.v proves soundness;
#  (c) realizability probe on the implementation itself: for reported entries a hypothetical pod satisfying the entry's
#      selectors (in an existing namespace when one matches, else a new one; declaring the entry's named ports) is added to
#      the input and the real `list` must allow at least the reported connections between the workload and that pod.
import copy, json
from . import c01
from .lib import core, gen, listcorr, xpo, fmt

NEWNS = 'nsprobe'


MOTIFS = {'twice': 0.1, 'mixed': 0.3, 'lonely': 0.45, 'refine': 0.6, 'hole': 0.75, 'nsexpr': 0.82, 'keys': 0.87, 'alias': 0.91, 'crossdir': 0.94, 'iponly': 0.97}
WEIGHTS = [('twice', 2), ('mixed', 2), ('lonely', 1), ('refine', 3), ('hole', 2), ('nsexpr', 1), ('keys', 1), ('alias', 2), ('crossdir', 2), ('iponly', 1), ('none', 1)]


def gen_case(r, big=False, motif=None):
    W = gen.gen_world(r, anp=False, big=big)
    if motif is None:
        motif = r.choice([m for m, k in WEIGHTS for _ in range(k)])
    if motif == 'none':
        return W
    x = MOTIFS[motif]
    wl = r.choice(W['workloads'])
    if motif == 'alias':
        # prefer a namespace with two workloads
        multi = [w_ for w_ in W['workloads'] if sum(1 for q in W['workloads'] if q['ns'] == w_['ns']) >= 2]
        if multi:
            wl = r.choice(multi)
        else:
            W['workloads'].append({'kind': 'Deployment', 'ns': wl['ns'], 'name': 'wextra', 'labels': {'app': 'extra'}, 'ports': [], 'replicas': 1, 'owner': None, 'omit_ns': False})
    if x < 0.2:
        # the same peer set named twice: by the policy's own namespace (no namespaceSelector) and by its name label
        d = r.choice(['ingress', 'egress'])
        key = 'from' if d == 'ingress' else 'to'
        sel = {'matchLabels': {'app': r.choice(gen.VALS + ['x'])}}
        rules = [{key: [{'podSelector': sel}], 'ports': [{'port': r.choice(gen.PORTS)}]},
                 {key: [{'namespaceSelector': {'matchLabels': {gen.NSKEY: wl['ns']}}, 'podSelector': copy.deepcopy(sel)}], 'ports': [{'port': r.choice(gen.PORTS), 'protocol': r.choice(gen.PROTOS)}]}]
        r.shuffle(rules)
        W['netpols'].append({'ns': wl['ns'], 'name': 'twice', 'podSelector': {}, 'policyTypes': ['Ingress' if d == 'ingress' else 'Egress'], d: rules})
    elif x < 0.4:
        # entire cluster on some ports, a selector on named / other ports
        d = r.choice(['ingress', 'egress'])
        key = 'from' if d == 'ingress' else 'to'
        rules = [{key: [{'namespaceSelector': {}}], 'ports': [{'port': r.choice(gen.PORTS)}]},
                 {key: [{'podSelector': {'matchLabels': {'app': 'x'}}}], 'ports': [{'port': r.choice(gen.NAMES + [80, 81])}] + ([{'port': r.choice(gen.NAMES)}, {'port': 8080}] if r.random() < 0.5 else [])}]
        W['netpols'].append({'ns': wl['ns'], 'name': 'mixed', 'podSelector': {}, 'policyTypes': ['Ingress' if d == 'ingress' else 'Egress'], d: rules})
    elif x < 0.5:
        # a policy in a namespace that has neither workloads nor a Namespace object
        W['netpols'].append({'ns': 'nsempty', 'name': 'lonely', 'podSelector': {}, 'policyTypes': ['Ingress'],
                             'ingress': [{'from': [{'podSelector': {'matchLabels': {'app': 'x'}}}]}]})
    elif x < 0.72:
        # the refinement boundary: a rule whose selectors an existing workload satisfies on its label equalities, with or without
        # an expression (on the namespace or on the pod side) that the existing workload does or does not satisfy
        nsd = next((n for n in W['namespaces'] if n['name'] == wl['ns']), None)
        if nsd is None:
            nsd = {'name': wl['ns'], 'labels': {}, 'obj': True}
            W['namespaces'].append(nsd)
        nsd['obj'] = True
        if not nsd['labels']:
            nsd['labels'] = {'team': 't1'}
        if not wl['labels']:
            wl['labels'] = {'app': 'a'}
        nk = r.choice(sorted(nsd['labels']))
        pk = r.choice(sorted(wl['labels']))
        nsel = {'matchLabels': {nk: nsd['labels'][nk]}}
        psel = {'matchLabels': {pk: wl['labels'][pk]}}
        y = r.random()
        other = {'key': 'zone', 'operator': r.choice(['Exists', 'DoesNotExist'])}
        fails = {'key': nk, 'operator': 'NotIn', 'values': [nsd['labels'][nk], 'zz']}
        if y < 0.3:
            nsel['matchExpressions'] = [r.choice([other, fails])]
        elif y < 0.5:
            psel['matchExpressions'] = [r.choice([other, {'key': pk, 'operator': 'NotIn', 'values': [wl['labels'][pk]]}])]
        d = r.choice(['ingress', 'egress'])
        key = 'from' if d == 'ingress' else 'to'
        tgt = r.choice(W['workloads'])
        W['netpols'].append({'ns': tgt['ns'], 'name': 'refine', 'podSelector': {}, 'policyTypes': ['Ingress' if d == 'ingress' else 'Egress'],
                             d: [{key: [{'namespaceSelector': nsel, 'podSelector': psel}], 'ports': [{'port': r.choice(gen.PORTS)}]}]})
    elif x < 0.8:
        # an entire-cluster connection that misses exactly one port number, next to a selector rule with a named port
        d = r.choice(['ingress', 'egress'])
        key = 'from' if d == 'ingress' else 'to'
        hole = r.choice([80, 1, 65535, 8080])
        ports = ([{'port': 1, 'endPort': hole - 1}] if hole > 1 else []) + ([{'port': hole + 1, 'endPort': 65535}] if hole < 65535 else [])
        W['netpols'].append({'ns': wl['ns'], 'name': 'hole', 'podSelector': {}, 'policyTypes': ['Ingress' if d == 'ingress' else 'Egress'],
                             d: [{key: [{'namespaceSelector': {}}], 'ports': ports},
                                 {key: [{'podSelector': {'matchLabels': {'app': 'x'}}}], 'ports': [{'port': r.choice(gen.NAMES)}] + (ports[:1] if r.random() < 0.5 else [])}]})
    elif x < 0.85:
        # a namespace named by its name label AND restricted by an expression (must not be printed as the bare namespace)
        d = r.choice(['ingress', 'egress'])
        key = 'from' if d == 'ingress' else 'to'
        nsx = r.choice([wl['ns'], 'nsq'])
        nsel = {'matchLabels': {gen.NSKEY: nsx}, 'matchExpressions': [r.choice([{'key': 'env', 'operator': 'Exists'}, {'key': 'tier', 'operator': 'NotIn', 'values': ['a']}])]}
        peers = [{'namespaceSelector': nsel, 'podSelector': r.choice([{}, {'matchLabels': {'app': 'x'}}])}]
        if r.random() < 0.5:
            peers.append({'namespaceSelector': {'matchLabels': {gen.NSKEY: nsx}}, 'podSelector': copy.deepcopy(peers[0]['podSelector'])})
        W['netpols'].append({'ns': wl['ns'], 'name': 'nsexpr', 'podSelector': {}, 'policyTypes': ['Ingress' if d == 'ingress' else 'Egress'],
                             d: [{key: peers, 'ports': [{'port': r.choice(gen.PORTS)}]}]})
    elif x < 0.9:
        # selectors that differ only in where a character sits
        W['netpols'].append({'ns': wl['ns'], 'name': 'keys', 'podSelector': {}, 'policyTypes': ['Ingress'],
                             'ingress': [{'from': [{'podSelector': {'matchLabels': {'app': 'ab', 'c': 'd'}}}], 'ports': [{'port': 80}]},
                                         {'from': [{'podSelector': {'matchLabels': {'app': 'a', 'bc': 'd'}}}], 'ports': [{'port': 81}]}]})
    elif x < 0.93 and len([w_ for w_ in W['workloads'] if w_['ns'] == wl['ns']]) >= 2:
        # two policies open ports to the whole cluster: one selects every workload of the namespace, the other only one of them - what
        # the second adds for that workload must not show up at the others (the pre-scanned sets are per policy, the result per workload)
        d = r.choice(['ingress', 'egress', 'egress'])
        key = 'from' if d == 'ingress' else 'to'
        pt = ['Ingress' if d == 'ingress' else 'Egress']
        if not wl['labels']:
            wl['labels'] = {'app': 'only'}
        for w_ in W['workloads']:
            if w_ is not wl and w_['ns'] == wl['ns'] and all(w_['labels'].get(k_) == v_ for k_, v_ in wl['labels'].items()):
                w_['labels'] = {'app': 'other'}
        W['netpols'] = [p_ for p_ in W['netpols'] if (p_['ns'] or 'default') != wl['ns']]
        W['netpols'].append({'ns': wl['ns'], 'name': 'wide-all', 'podSelector': {}, 'policyTypes': pt, d: [{key: [{'namespaceSelector': {}}], 'ports': [{'protocol': 'TCP', 'port': 80}]}]})
        W['netpols'].append({'ns': wl['ns'], 'name': 'wide-one', 'podSelector': {'matchLabels': dict(wl['labels'])}, 'policyTypes': pt,
                             d: [{key: [{'namespaceSelector': {}}], 'ports': [{'protocol': 'TCP', 'port': 443}]}]})
    elif x < 0.95:
        # one policy for both directions: everything (or the whole cluster) allowed in one direction, specific peers and ports in
        # the other - the pre-scan flags of one direction must not short-cut the other
        d = r.choice(['ingress', 'egress'])
        o = 'egress' if d == 'ingress' else 'ingress'
        key, okey = ('from', 'to') if d == 'ingress' else ('to', 'from')
        wide = r.choice([{}, {okey: [{'namespaceSelector': {}}]}, {okey: [{'namespaceSelector': {}}, {'ipBlock': {'cidr': '0.0.0.0/0'}}]}])
        other = r.choice(W['workloads'])
        narrow = [{key: [{'podSelector': {'matchLabels': dict(other['labels']) if other['labels'] else {'app': 'x'}}}],
                   'ports': [{'port': r.choice(gen.PORTS)}]},
                  {key: [{'namespaceSelector': {'matchLabels': {'purpose': 'monitoring'}}}], 'ports': [{'port': r.choice(gen.PORTS), 'protocol': r.choice(gen.PROTOS)}]}]
        W['netpols'].append({'ns': wl['ns'], 'name': 'crossdir', 'podSelector': r.choice([{}, {'matchLabels': dict(wl['labels'])}]),
                             'policyTypes': ['Ingress', 'Egress'], o: [wide], d: narrow})
    else:
        # a workload governed in a direction by ipBlock rules only: protected, no exposure entry, but its IP rows must still be
        # repeated in the exposure section
        d = r.choice(['ingress', 'egress'])
        key = 'from' if d == 'ingress' else 'to'
        W['netpols'].append({'ns': wl['ns'], 'name': 'iponly', 'podSelector': {'matchLabels': dict(wl['labels'])} if wl['labels'] else {},
                             'policyTypes': ['Ingress' if d == 'ingress' else 'Egress'],
                             d: [{key: [{'ipBlock': {'cidr': r.choice(['10.0.0.0/8', '192.168.1.0/24', '0.0.0.0/1'])}}], 'ports': [{'port': r.choice(gen.PORTS)}]}]})
    return W


def ip_only_world(r):
    """a world in which one workload is governed, in one direction, by ipBlock rules only (the other policies of its namespace are dropped)"""
    W = gen.gen_world(r, anp=False)
    wl = r.choice(W['workloads'])
    W['netpols'] = [p for p in W['netpols'] if (p['ns'] or 'default') != wl['ns']]
    d = r.choice(['ingress', 'egress'])
    key = 'from' if d == 'ingress' else 'to'
    W['netpols'].append({'ns': wl['ns'], 'name': 'iponly', 'podSelector': {'matchLabels': dict(wl['labels'])} if wl['labels'] else {},
                         'policyTypes': ['Ingress' if d == 'ingress' else 'Egress'],
                         d: [{key: [{'ipBlock': {'cidr': r.choice(['10.0.0.0/8', '192.168.1.0/24', '0.0.0.0/1'])}}], 'ports': [{'port': r.choice(gen.PORTS)}]}]})
    return W


def conns_key(o):
    return sorted(json.dumps(e, sort_keys=True) for e in (o.get('conns') or []))


def hypothetical(W, entry, peer_str, r):
    """a world = W + one pod satisfying the entry's selectors (+ a namespace object when a new namespace is needed); None if not constructible"""
    W2 = copy.deepcopy(W)
    nss = {n['name']: (dict(n['labels']) if n['obj'] else {}) for n in W['namespaces']}   # labels exist only if the Namespace object is part of the input
    for w in W['workloads']:
        nss.setdefault(w['ns'], {})
    for p in W['netpols']:
        nss.setdefault(p['ns'] or 'default', {})
    for n in nss:
        nss[n].setdefault(gen.NSKEY, n)
    if entry['cluster']:
        polns = {p['ns'] or 'default' for p in W['netpols']}
        ns_name, pod_labels = r.choice([n for n in sorted(nss) if n not in polns] + [NEWNS, NEWNS]), {}
        if ns_name == NEWNS:
            W2['namespaces'].append({'name': NEWNS, 'labels': {}, 'obj': False})
    else:
        cands = [n for n in sorted(nss) if xpo.sel_matches(entry['ns_sel'], nss[n])]
        pod_labels = xpo.witness_labels(entry['pod_sel'])
        if pod_labels is None:
            return None
        polns = {p['ns'] or 'default' for p in W['netpols']}
        free = [n for n in cands if n not in polns]
        if free and r.random() < 0.8:
            ns_name = r.choice(free)
        elif cands and r.random() < 0.3:
            ns_name = r.choice(cands)
        else:
            nl = xpo.witness_labels(entry['ns_sel'])
            if nl is None:
                return None
            ns_name = nl.get(gen.NSKEY, NEWNS)
            if ns_name in nss:
                if not xpo.sel_matches(entry['ns_sel'], nss[ns_name]):
                    return None
            else:
                nl2 = {k: v for k, v in nl.items() if k != gen.NSKEY}
                if not xpo.sel_matches(entry['ns_sel'], dict(nl2, **{gen.NSKEY: ns_name})):
                    return None
                W2['namespaces'].append({'name': ns_name, 'labels': nl2, 'obj': True})
    _, parsed = xpo.parse_conn_str(entry['conn_str'])
    ports, decl = [], {}
    num = 30000
    for proto, (_, names) in parsed.items():
        for nm in names:
            if nm not in decl:
                num += 1
                decl[nm] = (proto, num)
                ports.append({'port': num, 'proto': proto, 'name': nm})
    W2['workloads'].append({'kind': 'Pod', 'ns': ns_name, 'name': 'hypo', 'labels': pod_labels, 'ports': ports, 'replicas': None, 'owner': None, 'omit_ns': False})
    return W2, ns_name + '/hypo[Pod]', decl, parsed


def main(tier):
    run = core.Run('C06', tier)
    run.cov['rule'] = ('random NetworkPolicy worlds (as C01) plus motifs: one peer set named by the policy namespace and by its name label in either rule order, entire-cluster rule '
                       'next to a selector rule on named/other ports, a policy in a namespace without workloads or Namespace object, selectors whose requirement strings concatenate equally; '
                       '(a) list --exposure vs list: same connections and peers; (b) the whole ExposedPeers() result vs Model/Exposure.v; (c) per reported entry a hypothetical pod satisfying the '
                       'entry\'s selectors is added (existing or new namespace, declaring the named ports) and the real list must allow the reported connections; non-trivial = at least one '
                       'per-selector exposure entry')
    run.stage_proofs()
    b = core.build_go(['verifapi'], run.log)
    if not b['verifapi'][0]:
        run.proof_ok = False
        run.proof_notes.append('harness verifapi does not build against this tree: ' + b['verifapi'][1][-600:])
        return run.finish()
    n = 200 if tier == 'quick' else 4000
    probes_per_world = 2 if tier == 'quick' else 4
    h = listcorr.Harness()
    r = run.rng
    try:
        shard, k = 100, 0
        while k < n and len(run.violations) < 3:
            scen = [(k + i, gen_case(r, big=(tier != 'quick'))) for i in range(min(shard, n - k))]
            res, mm = xpo.evaluate(h, scen, r)
            run.count(len(scen))
            run.cov['traces_validated_against_impl'] += len(scen)
            byid = dict(scen)
            probes = []
            for cid, W in scen:
                ox, ob = res[cid]['obs'], res[cid]['base']
                run.dist('outcome:' + ox['outcome'])
                payload = {'kind': 'exposure', 'world': W, 'manifests': [m for m, _ in res[cid]['docs']],
                           'how': 'k8snetpolicy list --dirpath DIR --exposure  vs  k8snetpolicy list --dirpath DIR'}
                if ox['outcome'] == 'panic':
                    run.report(None, 'panic-%d' % cid, payload, 'list --exposure panicked')
                    continue
                # (a) base connectivity untouched
                if ob['outcome'] == 'ok':
                    if ox['outcome'] != 'ok':
                        run.report(None, 'xfail-%d' % cid, dict(payload, error=ox.get('err')), 'list succeeds but list --exposure fails')
                        continue
                    if conns_key(ox) != conns_key(ob) or sorted(p['str'] for p in ox['peers']) != sorted(p['str'] for p in ob['peers']):
                        run.report(None, 'base-%d' % cid, dict(payload, with_exposure=ox['conns'], without=ob['conns']), 'list --exposure reports other workload/IP connectivity than list')
                        continue
                if ox['outcome'] != 'ok':
                    continue
                # what is printed is what was computed (the realizability below is about the computed entries): the exposure section of the
                # default output, read back, holds exactly the entries of ExposedPeers()
                try:
                    printed = fmt.parse_exposure_txt(ox.get('out', ''))
                except Exception as ex:
                    printed = ('unparsable', str(ex))
                if printed != fmt.api_exposure_rows(ox):
                    run.report(None, 'printed-%d' % cid, dict(payload, output=ox.get('out'), exposure=ox.get('exposure'), parsed=printed[0] if isinstance(printed[0], list) else printed),
                               'the exposure section printed by list --exposure does not hold exactly the computed exposure entries')
                    continue
                nent = sum(len([e for e in x[d] if not e['cluster']]) for x in (ox.get('exposure') or []) for d in ('ingress', 'egress'))
                run.dist('entries:%d' % min(nent, 5))
                if nent:
                    run.nontrivial(W)
                # (c) realizability probes
                allents = [(x['peer'], d, e) for x in (ox.get('exposure') or []) for d in ('ingress', 'egress') for e in x[d]]
                r.shuffle(allents)
                for peer, d, e in allents[:probes_per_world]:
                    hy = hypothetical(W, e, peer, r)
                    if hy is None:
                        run.dist('probe:unconstructible')
                        continue
                    probes.append((cid, peer, d, e, hy))
            # (a') the same with --focusworkload: the base report is list's focused report, and the focused workload's exposure data is unchanged
            fcmds, fmeta = [], []
            for cid, W in scen:
                if res[cid]['obs']['outcome'] != 'ok' or r.random() > 0.3:
                    continue
                w = r.choice(W['workloads'])
                nm = w['owner']['name'] if w.get('owner') else w['name']
                focus = r.choice([nm, w['ns'] + '/' + nm])
                dd = h.dir_for('f%d' % cid)
                gen.write_dir(dd, [m for m, _ in res[cid]['docs']])
                fcmds += [{'id': 'fx', 'cmd': 'list', 'dir': dd, 'exposure': True, 'focus': focus}, {'id': 'fb', 'cmd': 'list', 'dir': dd, 'focus': focus}]
                fmeta.append((cid, W, focus))
            fouts = h.run(fcmds) if fcmds else []
            for j, (cid, W, focus) in enumerate(fmeta):
                fx, fb = fouts[2 * j], fouts[2 * j + 1]
                run.dist('focus-pairs')
                payload = {'kind': 'exposure-focus', 'world': W, 'focus': focus, 'manifests': [m for m, _ in res[cid]['docs']],
                           'how': 'k8snetpolicy list --dirpath DIR --exposure --focusworkload F  vs  the same without --exposure / without --focusworkload'}
                if fb['outcome'] == 'ok' and (fx['outcome'] != 'ok' or conns_key(fx) != conns_key(fb)):
                    run.report(None, 'fbase-%d' % cid, dict(payload, with_exposure=fx.get('conns'), without=fb.get('conns'), error=fx.get('err')),
                               'with --focusworkload, list --exposure reports other connectivity than list')
                    continue
                if fx['outcome'] != 'ok':
                    continue
                full = {x['peer']: x for x in (res[cid]['obs'].get('exposure') or [])}
                def canon(x):
                    return json.dumps({k: (sorted(json.dumps(e, sort_keys=True) for e in x[k]) if isinstance(x[k], list) else x[k]) for k in x}, sort_keys=True)
                for x in fx.get('exposure') or []:
                    if x['peer'] not in full or canon(full[x['peer']]) != canon(x):
                        run.report(None, 'fexp-%d' % cid, dict(payload, focused=x, unfocused=full.get(x['peer'])),
                                   'the exposure data of the focused workload differs from its exposure data without --focusworkload')
                        break
            # (a'') with Services / Ingresses / Routes in the input: the {ingress-controller} lines are part of the base report too
            icmds, imeta = [], []
            for cid, W in scen[:max(6, len(scen) // 6)]:
                from . import c10
                W3 = copy.deepcopy(W)
                for w in W3['workloads']:
                    if not w['ports']:
                        w['ports'].append({'port': r.choice(gen.PORTS), 'proto': 'TCP', 'name': ''})
                W3['others'] = [c10.manifest(o) for o in c10.gen_ingress_objs(r, W3)]
                dd = h.dir_for('i%d' % cid)
                gen.write_dir(dd, [m for m, _ in gen.docs(W3)])
                icmds += [{'id': 'ix', 'cmd': 'list', 'dir': dd, 'exposure': True}, {'id': 'ib', 'cmd': 'list', 'dir': dd}]
                imeta.append((cid, W3))
            iouts = h.run(icmds) if icmds else []
            for j, (cid, W3) in enumerate(imeta):
                ix, ib = iouts[2 * j], iouts[2 * j + 1]
                run.dist('ingress-objects-pairs')
                if ib['outcome'] == 'ok' and (ix['outcome'] != 'ok' or conns_key(ix) != conns_key(ib)):
                    run.report(None, 'ibase-%d' % cid, {'kind': 'exposure-base-ingress', 'world': W3, 'manifests': [m for m, _ in gen.docs(W3)],
                                                       'with_exposure': ix.get('conns'), 'without': ib.get('conns'), 'error': ix.get('err'),
                                                       'how': 'k8snetpolicy list --dirpath DIR --exposure  vs  k8snetpolicy list --dirpath DIR  (input with Services/Ingresses/Routes)'},
                               'with Ingress/Route objects in the input, list --exposure reports other connectivity than list')
            # (b) model correspondence
            for cid, code in mm[:4]:
                W = byid[cid]
                def still(c, code=code, cid=cid):
                    try:
                        _, m2 = xpo.evaluate(h, [(cid, c)])
                    except Exception:
                        return False
                    return any(kk == code for _, kk in m2)
                small = c01.shrink_world(W, still) if len(run.violations) == 0 else W
                r2, _ = xpo.evaluate(h, [(cid, small)])
                run.report(None, 'xmodel-%d-%d' % (cid, code),
                           {'kind': 'exposure-correspondence', 'code': code, 'meaning': xpo.XCODES.get(code, str(code)), 'world': small,
                            'manifests': [m for m, _ in r2[cid]['docs']], 'observed_exposure': r2[cid]['obs'].get('exposure'), 'observed_error': r2[cid]['obs'].get('err'),
                            'how': 'k8snetpolicy list --dirpath DIR --exposure; Model/Exposure.v exposure_objs (sound by Properties/C06.v) gives a different result'},
                           xpo.XCODES.get(code, str(code)))
            # run the probes
            if probes:
                cmds = []
                for j, (cid, peer, d, e, (W2, hp, decl, parsed)) in enumerate(probes):
                    dd = h.dir_for('p%d' % j)
                    gen.write_dir(dd, [m for m, _ in gen.docs(W2)])
                    cmds.append({'id': 'p%d' % j, 'cmd': 'list', 'dir': dd})
                outs = h.run(cmds)
                for (cid, peer, d, e, (W2, hp, decl, parsed)), o in zip(probes, outs):
                    run.dist('probe:' + ('cluster' if e['cluster'] else 'selectors'))
                    if o['outcome'] != 'ok':
                        continue
                    src, dst = (hp, peer) if d == 'ingress' else (peer, hp)
                    got = next((c['conn'] for c in o['conns'] if c['src'] == src and c['dst'] == dst), {'all': False, 'pp': {}})
                    # the hypothetical pod may itself be selected by policies of its namespace: the reported connection concerns the workload's side only
                    hyp_free = not any(p['ns'] == W2['workloads'][-1]['ns'] or (p['ns'] is None and W2['workloads'][-1]['ns'] == 'default') for p in W2['netpols'])
                    if not hyp_free:
                        run.dist('probe:skipped-hypothetical-selected')
                        continue
                    isall, _ = xpo.parse_conn_str(e['conn_str'])
                    missing = []
                    if isall:
                        if not got['all']:
                            missing.append('All Connections')
                    for proto, (ranges, names) in parsed.items():
                        for lo, hi in ranges:
                            for pt in (lo, hi):
                                if not xpo.conn_has(got, proto, pt):
                                    missing.append('%s %d' % (proto, pt))
                        for nm in names:
                            pr_, num = decl[nm]
                            if pr_ == proto and not xpo.conn_has(got, proto, num):
                                missing.append('%s %s(=%d)' % (proto, nm, num))
                    if missing:
                        run.report(None, 'unreal-%d' % cid,
                                   {'kind': 'realizability', 'workload': peer, 'direction': d, 'entry': e, 'hypothetical_pod': W2['workloads'][-1], 'hypothetical_namespaces': W2['namespaces'],
                                    'world': byid[cid], 'manifests_with_pod': [m for m, _ in gen.docs(W2)], 'allowed_with_pod': got, 'missing': missing,
                                    'how': 'list --exposure on `world` reports `entry` for `workload`; adding the hypothetical pod (which satisfies the entry\'s selectors) and running list shows that the reported connection is not allowed'},
                                   'a reported exposure entry is not realizable')
            if k == 0 and scen:
                run.sample({'world': scen[0][1], 'exposure': res[scen[0][0]]['obs'].get('exposure')})
            k += shard
    finally:
        h.close()
    return run.finish()


def replay(payload):
    run = core.Run('C06', 'quick')
    run.stage_proofs()
    core.build_go(['verifapi'], run.log)
    h = listcorr.Harness()
    try:
        W = payload['world']
        res, mm = xpo.evaluate(h, [(1, W)])
        run.count(1)
        ox, ob = res[1]['obs'], res[1]['base']
        if mm:
            run.report(None, 'replay', payload, 'exposure result differs from the model')
        elif ob['outcome'] == 'ok' and (ox['outcome'] != 'ok' or conns_key(ox) != conns_key(ob)):
            run.report(None, 'replay', payload, 'base connectivity differs')
    finally:
        h.close()
    return run.finish()
