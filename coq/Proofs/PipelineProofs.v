(* PipelineProofs.v — documents the analysis does not use, and malformed ones, never change the computed
   connections; they are reported as severe; stop-on-error never yields a partial report; a fatal error
   yields no result (C13, control flow).  No axioms. *)
From Coq Require Import List ZArith Bool String.
From NP Require Import IntervalSet ConnSet World Eval Build Connlist Pipeline.
Import ListNotations.
Close Scope Z_scope.
Open Scope nat_scope.

Definition is_relevant (d : doc) : bool := match d with DRelevant _ => true | _ => false end.

Lemma relevant_objs_filter docs : relevant_objs docs = relevant_objs (filter is_relevant docs).
Proof.
  induction docs as [|d t IH]; [reflexivity|]. destruct d; cbn [filter is_relevant]; unfold relevant_objs in *; cbn [flat_map app]; rewrite ?IH; reflexivity.
Qed.

Definition entries_of (r : presult) : option (list rentry) :=
  match r with POk es _ => Some es | PErr _ => None end.

(* two inputs with the same relevant documents (in the same order), whatever junk is placed anywhere
   between them, give the same connections when stop-on-error is off *)
Theorem junk_irrelevant focus docs1 docs2 :
  filter is_relevant docs1 = filter is_relevant docs2 ->
  entries_of (list_pipeline false focus docs1) = entries_of (list_pipeline false focus docs2).
Proof.
  intros H. unfold list_pipeline. cbn [andb].
  rewrite (relevant_objs_filter docs1), (relevant_objs_filter docs2), H.
  destruct (list_objs _ focus); reflexivity.
Qed.

Definition errors_of (r : presult) : list severity := match r with POk _ e => e | PErr e => e end.

(* every malformed document or unreadable file appears as a severe entry of Errors() *)
Definition malformed_count (docs : list doc) : nat :=
  List.length (filter (fun d => match d with DBroken | DSchemaBad => true | _ => false end) docs).
Definition severe_count (l : list severity) : nat := List.length (filter (sev_eqb Severe) l).

Lemma severe_count_app a b : severe_count (a ++ b) = severe_count a + severe_count b.
Proof. unfold severe_count. rewrite filter_app, app_length. reflexivity. Qed.

Lemma pre_errors_severe docs : malformed_count docs <= severe_count (pre_errors docs).
Proof.
  unfold pre_errors. rewrite severe_count_app.
  assert (H : severe_count (flat_map (fun d => match d with DBroken | DSchemaBad => [Severe] | _ => [] end) docs) = malformed_count docs).
  { unfold severe_count, malformed_count. induction docs as [|d t IH]; [reflexivity|]. destruct d; cbn; rewrite ?IH; reflexivity. }
  rewrite H. apply PeanoNat.Nat.le_add_r.
Qed.

Theorem malformed_reported_severe stop focus docs :
  malformed_count docs <= severe_count (errors_of (list_pipeline stop focus docs)).
Proof.
  unfold list_pipeline. pose proof (pre_errors_severe docs) as H.
  destruct (stop && has_broken docs); [exact H|].
  destruct (stop && existsb (sev_eqb Severe) (pre_errors docs)); [exact H|].
  destruct (list_objs _ focus); cbn [errors_of]; [exact H|].
  rewrite severe_count_app. apply (PeanoNat.Nat.le_trans _ _ _ H), PeanoNat.Nat.le_add_r.
Qed.

(* with stop-on-first-error a severe error yields no connections (an empty result or an error) *)
Theorem stop_on_severe_no_partial focus docs :
  0 < malformed_count docs ->
  match list_pipeline true focus docs with POk es _ => es = [] | PErr _ => True end.
Proof.
  intros Hm. unfold list_pipeline. cbn [andb].
  destruct (has_broken docs); [exact I|].
  assert (Hs : existsb (sev_eqb Severe) (pre_errors docs) = true).
  { pose proof (pre_errors_severe docs) as H. unfold severe_count in H.
    destruct (filter (sev_eqb Severe) (pre_errors docs)) as [|x l] eqn:E; [cbn in H; inversion H; rewrite H1 in Hm; inversion Hm|].
    apply existsb_exists. exists x. assert (Hin : In x (filter (sev_eqb Severe) (pre_errors docs))) by (rewrite E; left; reflexivity).
    apply filter_In in Hin. exact Hin. }
  rewrite Hs. reflexivity.
Qed.

(* a fatal error always yields an error and no result *)
Theorem fatal_no_result stop focus docs e :
  list_objs (relevant_objs docs) focus = Err e ->
  entries_of (list_pipeline stop focus docs) = None \/ entries_of (list_pipeline stop focus docs) = Some [].
Proof.
  intros H. unfold list_pipeline.
  destruct (stop && has_broken docs); [left; reflexivity|].
  destruct (stop && existsb (sev_eqb Severe) (pre_errors docs)); [right; reflexivity|].
  rewrite H. left; reflexivity.
Qed.
