#!/bin/bash
# try_mutant.sh PATCH PROP [PROP...] : apply PATCH to /repo, run the quick checks, revert. Prints one line per check.
P=$1; shift
cd /repo || exit 2
git diff --quiet || { echo "/repo not clean"; exit 2; }
git apply "$P" || { echo "PATCH DOES NOT APPLY: $P"; exit 3; }
cd /verif
for prop in "$@"; do
  out=$(python3 checks/check.py $prop quick 2>&1)
  rc=$?
  echo "== $prop rc=$rc :: $(echo "$out" | grep -c '^VIOLATION') violation line(s) :: $(echo "$out" | tail -1)"
  echo "$out" | grep '^VIOLATION' | head -3
done
git -C /repo checkout -- . 
