(* C08 — output is deterministic and independent of the order of the input.  (partial: see below)
   Statements only; proofs in Proofs/SortGeneric.v, Proofs/FormatProofs.v, Proofs/AbstractSort.v.
   What is proved: every modelled formatter is a function of the MULTISET of result entries — the
   order in which Go's maps, the document order or the file partition deliver them cannot matter — and
   this for ANY correct sort, not only the model's insertion sort.  That the result itself is a function
   of the set of resources is C01/C02 (the report is the Spec) plus canonical forms (C11) and the
   priority-sorted ANP list (C02_admin_order_irrelevant).  What is only sampled: the real map-iteration
   schedules of the Go runtime in code the mirror abstracts (dot output, exposure tables, Errors() order). *)
From Coq Require Import List ZArith Bool String Permutation Sorting.Sorted.
From NP Require Import IntervalSet ConnSet World Eval EvalProofs Build Connlist Diff Format SortGeneric FormatProofs OrderProofs DotProofs XFormat XFormatProofs XFormatMore XFormatMoreProofs DiffDot DiffDotProofs XDot XDotProofs.
Import ListNotations.

(* sorting strings is a function of the multiset, and any correct sort.Strings computes it *)
Theorem C08_string_sort_order_independent l1 l2 : Permutation l1 l2 -> ssort l1 = ssort l2.
Proof. exact (ssort_perm_invariant l1 l2). Qed.
Print Assumptions C08_string_sort_order_independent.

Theorem C08_any_correct_string_sort_agrees (srt : list string -> list string) l :
  Permutation (srt l) l -> StronglySorted (fun a b => String.leb a b = true) (srt l) -> srt l = ssort l.
Proof. exact (ssort_is_the_sort srt l). Qed.
Print Assumptions C08_any_correct_string_sort_agrees.

Theorem C08_any_correct_row_sort_agrees (srt : list row -> list row) l :
  Permutation (srt l) l -> StronglySorted (fun a b => row_leb a b = true) (srt l) -> srt l = rowsort l.
Proof. exact (rowsort_is_the_sort srt l). Qed.
Print Assumptions C08_any_correct_row_sort_agrees.

(* list formats *)
Theorem C08_list_txt_order_independent es1 es2 : Permutation es1 es2 -> list_txt es1 = list_txt es2.
Proof. exact (list_txt_perm_invariant es1 es2). Qed.
Print Assumptions C08_list_txt_order_independent.
Theorem C08_list_md_order_independent es1 es2 : Permutation es1 es2 -> list_md es1 = list_md es2.
Proof. exact (list_md_perm_invariant es1 es2). Qed.
Print Assumptions C08_list_md_order_independent.
Theorem C08_list_csv_order_independent es1 es2 : Permutation es1 es2 -> list_csv es1 = list_csv es2.
Proof. exact (list_csv_perm_invariant es1 es2). Qed.
Print Assumptions C08_list_csv_order_independent.
Theorem C08_list_json_order_independent es1 es2 : Permutation es1 es2 -> list_json es1 = list_json es2.
Proof. exact (list_json_perm_invariant es1 es2). Qed.
Print Assumptions C08_list_json_order_independent.

(* dot: the output is a function of the multiset of entries and of the set of peers (the formatter's peersList, whose
   strings are distinct); map iteration over the namespace groups and the visiting order of the peers do not matter *)
Theorem C08_list_dot_order_independent es1 es2 ps1 ps2 :
  Permutation es1 es2 -> Permutation ps1 ps2 -> NoDup (map dp_str ps1) -> list_dot es1 ps1 = list_dot es2 ps2.
Proof. exact (list_dot_perm_invariant es1 es2 ps1 ps2). Qed.
Print Assumptions C08_list_dot_order_independent.

(* the txt output of list --exposure (Model/XFormat.v, byte-exact against the implementation on every run of C09): a function of
   the multiset of connections, of the set of exposed workloads and, per workload and direction, of the multiset of its entries *)
Theorem C08_exposure_txt_order_independent es es' xps mid xps' :
  Permutation es es' -> Permutation xps mid -> Forall2 xp_equiv mid xps' ->
  list_exposure_txt es xps = list_exposure_txt es' xps'.
Proof. exact (exposure_txt_order_independent es es' xps mid xps'). Qed.
Print Assumptions C08_exposure_txt_order_independent.

(* ... and so are its md, csv and json outputs (Model/XFormatMore.v, byte-exact against the implementation as well) *)
Theorem C08_exposure_md_order_independent es es' xps mid xps' :
  Permutation es es' -> Permutation xps mid -> Forall2 xp_equiv mid xps' -> list_exposure_md es xps = list_exposure_md es' xps'.
Proof. exact (exposure_md_order_independent es es' xps mid xps'). Qed.
Print Assumptions C08_exposure_md_order_independent.
Theorem C08_exposure_csv_order_independent es es' xps mid xps' :
  Permutation es es' -> Permutation xps mid -> Forall2 xp_equiv mid xps' -> list_exposure_csv es xps = list_exposure_csv es' xps'.
Proof. exact (exposure_csv_order_independent es es' xps mid xps'). Qed.
Print Assumptions C08_exposure_csv_order_independent.
Theorem C08_exposure_json_order_independent es es' xps mid xps' :
  Permutation es es' -> Permutation xps mid -> Forall2 xp_equiv mid xps' -> list_exposure_json es xps = list_exposure_json es' xps'.
Proof. exact (exposure_json_order_independent es es' xps mid xps'). Qed.
Print Assumptions C08_exposure_json_order_independent.

(* ... and its dot output (Model/XDot.v, byte-exact too): a function of the multiset of connections, the set of peers, the set of
   exposed workloads and the multiset of the entries of each - provided the node name of a representative peer determines its
   label and namespace label, which the check evaluates on every implementation result (nodes_consistentb) *)
Theorem C08_exposure_dot_order_independent es es' ps ps' xps mid xps' :
  Permutation es es' -> Permutation ps ps' -> NoDup (map dp_str ps) ->
  Permutation xps mid -> Forall2 xp_equiv mid xps' ->
  nodes_consistent (flat_map x_items xps) ->
  list_exposure_dot es ps xps = list_exposure_dot es' ps' xps'.
Proof. exact (exposure_dot_order_independent es es' ps ps' xps mid xps'). Qed.
Print Assumptions C08_exposure_dot_order_independent.

(* sortConnFields uses the unstable sort.Slice on (workload, other end) only: when no two lines of a section share both -
   which the check evaluates on every implementation result - ANY correct sort by that key returns the model's order *)
Theorem C08_unstable_key_sort_cannot_show (srt : list row -> list row) l :
  key_nodupb l = true ->
  Permutation (srt l) l -> StronglySorted (fun a b => key_leb a b = true) (srt l) -> srt l = rowsort l.
Proof. exact (key_sort_is_rowsort srt l). Qed.
Print Assumptions C08_unstable_key_sort_cannot_show.

(* diff formats *)
Theorem C08_diff_txt_order_independent d1 d2 : Permutation d1 d2 -> diff_txt d1 = diff_txt d2.
Proof. exact (diff_txt_perm_invariant d1 d2). Qed.
Print Assumptions C08_diff_txt_order_independent.
Theorem C08_diff_md_order_independent d1 d2 : Permutation d1 d2 -> diff_md d1 = diff_md d2.
Proof. exact (diff_md_perm_invariant d1 d2). Qed.
Print Assumptions C08_diff_md_order_independent.
Theorem C08_diff_dot_order_independent d d' ps ps' :
  Permutation d d' -> Permutation ps ps' -> NoDup (map dp_str ps) -> diff_dot d ps = diff_dot d' ps'.
Proof. exact (diff_dot_perm_invariant d d' ps ps'). Qed.
Print Assumptions C08_diff_dot_order_independent.
Theorem C08_diff_csv_order_independent d1 d2 : Permutation d1 d2 -> diff_csv d1 = diff_csv d2.
Proof. exact (diff_csv_perm_invariant d1 d2). Qed.
Print Assumptions C08_diff_csv_order_independent.

(* analysis part: the connection set of every pair of peers is the same (identical canonical structure) whatever order the
   NetworkPolicies are met in - the order Go's map iteration picks in getPoliciesSelectingPod included - ... *)
Theorem C08_connection_independent_of_policy_order w w' src dst c c' :
  same_but_policies w w' -> peer_okb dst = true -> world_okb w = true -> world_okb w' = true ->
  all_conns w src dst = Ok c -> all_conns w' src dst = Ok c' -> c = c'.
Proof. exact (connection_independent_of_policy_order w w' src dst c c'). Qed.
Print Assumptions C08_connection_independent_of_policy_order.

(* ... and whatever order the rules of a policy, the peers and ports of a rule and the policyTypes are written in *)
Theorem C08_connection_independent_of_written_order w w' src dst c c' :
  world_equiv w w' -> peer_okb dst = true -> world_okb w = true -> world_okb w' = true ->
  all_conns w src dst = Ok c -> all_conns w' src dst = Ok c' -> c = c'.
Proof. exact (connection_independent_of_written_order w w' src dst c c'). Qed.
Print Assumptions C08_connection_independent_of_written_order.
