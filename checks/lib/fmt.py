# Readers for the output formats (used by C08/C09): every format is parsed back to rows.
import csv, io, json, re


def conn_str(c):
    """common.ConnStrFromConnProperties on an observed connection"""
    if c['all']:
        return 'All Connections'
    if not c['pp']:
        return 'No Connections'
    parts = []
    for proto, ranges in c['pp'].items():
        parts.append(proto + ' ' + ','.join(str(a) if a == b else '%d-%d' % (a, b) for a, b in ranges))
    return ','.join(sorted(parts))


def api_rows(obs):
    return sorted((e['src'], e['dst'], conn_str(e['conn'])) for e in obs['conns'])


def parse_list_txt(out):
    body = out.split('Exposure Analysis Result:')[0]
    rows = []
    for line in body.split('\n'):
        if not line.strip():
            continue
        m = re.match(r'^(.*) => (.*) : (.*)$', line)
        if not m:
            raise ValueError('txt line: ' + line)
        rows.append(m.groups())
    return sorted(rows)


def parse_list_md(out):
    body = out.split('## Exposure Analysis Result:')[0]
    lines = [l for l in body.split('\n') if l.strip()]
    if lines[0] != '| src | dst | conn |' or not lines[1].startswith('|-----'):
        raise ValueError('md header')
    rows = []
    for l in lines[2:]:
        parts = [x.strip() for x in l.strip().strip('|').split(' | ')]
        if len(parts) != 3:
            raise ValueError('md line: ' + l)
        rows.append(tuple(parts))
    return sorted(rows)


def parse_list_csv(out):
    rd = list(csv.reader(io.StringIO(out)))
    if rd[0] != ['src', 'dst', 'conn']:
        raise ValueError('csv header')
    rows = []
    for r in rd[1:]:
        if r and r[0] == 'Exposure Analysis Result:':
            break
        rows.append(tuple(r))
    return sorted(rows)


def parse_list_json(out):
    d = json.loads(out)
    if isinstance(d, dict):
        d = d['connlist_results']
    return sorted((x['src'], x['dst'], x['conn']) for x in (d or []))


EDGE = re.compile(r'^\s*"([^"]*)" -> "([^"]*)" \[label="([^"]*)"(.*)\]\s*$')


def parse_list_dot(out):
    rows = []
    for l in out.split('\n'):
        m = EDGE.match(l)
        if m and 'entire-cluster' not in l and 'color="gold2"' in l and '_in_' not in l and 'all pods' not in l and 'pod with' not in l:
            rows.append((m.group(1), m.group(2), m.group(3)))
    return sorted(rows)


LIST_PARSERS = {'txt': parse_list_txt, 'md': parse_list_md, 'csv': parse_list_csv, 'json': parse_list_json, 'dot': parse_list_dot}


# ---- diff
def api_diff_rows(od, with_unchanged=False):
    rows = []
    for t in ('added', 'removed', 'changed') + (('unchanged',) if with_unchanged else ()):
        for e in od['diff'].get(t) or []:
            c1 = 'No Connections' if t == 'added' else conn_str(e['c1'])
            c2 = 'No Connections' if t == 'removed' else conn_str(e['c2'])
            info = ''
            if e['src_new_or_lost'] or e['dst_new_or_lost']:
                info = 'workload ' + (e['src'] if e['src_new_or_lost'] else '') + (' and ' if e['src_new_or_lost'] and e['dst_new_or_lost'] else '') + \
                       (e['dst'] if e['dst_new_or_lost'] else '') + ' ' + t
            rows.append((t, e['src'], e['dst'], c1, c2, info))
    return sorted(rows)


def parse_diff_txt(out):
    if out == '':
        return []
    lines = out.split('\n')
    if lines[0] != 'Connectivity diff:':
        raise ValueError('diff txt header')
    rows = []
    for l in lines[1:]:
        if not l.strip():
            continue
        m = re.match(r'^diff-type: (\w+), source: (.*), destination: (.*), dir1: (.*), dir2: (.*?)(?:, workloads-diff-info: (.*))?$', l)
        if not m:
            raise ValueError('diff txt line: ' + l)
        g = list(m.groups())
        g[5] = g[5] or ''
        rows.append(tuple(g))
    return sorted(rows)


def parse_diff_md(out):
    if out == '':
        return []
    lines = [l for l in out.split('\n') if l.strip()]
    rows = []
    for l in lines[2:]:
        inner = l.strip()[1:-1]
        parts = [x.strip() for x in inner.split(' | ')]
        if len(parts) != 6:
            parts = [x.strip() for x in inner.split('|')]
        rows.append(tuple(parts))
    return sorted(rows)


def parse_diff_csv(out):
    if out == '':
        return []
    rd = list(csv.reader(io.StringIO(out)))
    return sorted(tuple(r) for r in rd[1:])


DOT_COLORS = {'#008000': 'added', 'red2': 'removed', 'magenta': 'changed', 'grey': 'unchanged'}


def parse_diff_dot(out):
    """rows (type, src, dst, c1, c2) incl. unchanged"""
    rows = []
    for l in out.split('\n'):
        m = EDGE.match(l)
        if not m or l.startswith('\t\t'):
            continue
        src, dst, label, rest = m.groups()
        cm = re.search(r'color="([^"]*)"', rest)
        t = DOT_COLORS.get(cm.group(1)) if cm else None
        if t is None:
            continue
        if t == 'changed':
            mm = re.match(r'^(.*) \(dir1: (.*)\)$', label)
            c2, c1 = (mm.group(1), mm.group(2)) if mm else (label, '?')
        elif t == 'added':
            c1, c2 = 'No Connections', label
        elif t == 'removed':
            c1, c2 = label, 'No Connections'
        else:
            c1 = c2 = label
        rows.append((t, src, dst, c1, c2))
    return sorted(rows)
