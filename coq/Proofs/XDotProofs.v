(* XDotProofs.v — the dot output of `list --exposure` is a function of the multiset of connections, the set of peers, the
   set of exposed workloads and the multiset of the entries of each, provided the node name of a representative peer
   determines its label and namespace label (decidable; evaluated by the check on every implementation result). *)
From Coq Require Import List ZArith Bool String Ascii Lia Permutation.
From NP Require Import IntervalSet ConnSet World Build Connlist Diff Format XFormat XDot SortGeneric FormatProofs DotProofs DiffDotProofs XFormatProofs.
Import ListNotations.
Open Scope string_scope.

Definition nodes_consistent (items : list xitem) : Prop :=
  forall i j, In i items -> In j items -> rep_node i = rep_node j -> node_proj i = node_proj j.

Lemma nodes_consistentb_spec items : nodes_consistentb items = true -> nodes_consistent items.
Proof.
  unfold nodes_consistentb, nodes_consistent. intros H i j Hi Hj E. rewrite forallb_forall in H. specialize (H i Hi).
  rewrite forallb_forall in H. specialize (H j Hj). rewrite E, String.eqb_refl in H. cbn [negb orb] in H.
  apply andb_true_iff in H. destruct H as [H1 H2]. apply String.eqb_eq in H1. apply String.eqb_eq in H2.
  unfold node_proj. f_equal; assumption.
Qed.

Lemma find_proj_perm items items' n :
  nodes_consistent items -> Permutation items items' ->
  option_map node_proj (find (fun i => String.eqb (rep_node i) n) items) =
  option_map node_proj (find (fun i => String.eqb (rep_node i) n) items').
Proof.
  intros Hc P.
  destruct (find (fun i => String.eqb (rep_node i) n) items) as [i|] eqn:F, (find (fun i => String.eqb (rep_node i) n) items') as [j|] eqn:F'; cbn [option_map].
  - apply find_some in F. apply find_some in F'. destruct F as [Hi Ei], F' as [Hj Ej]. apply String.eqb_eq in Ei. apply String.eqb_eq in Ej.
    f_equal. apply Hc; [exact Hi|exact (Permutation_in j (Permutation_sym P) Hj)|congruence].
  - exfalso. apply find_some in F. destruct F as [Hi Ei]. pose proof (find_none _ _ F' i (Permutation_in i P Hi)) as X. cbn in X. congruence.
  - exfalso. apply find_some in F'. destruct F' as [Hj Ej]. pose proof (find_none _ _ F j (Permutation_in j (Permutation_sym P) Hj)) as X. cbn in X. congruence.
  - reflexivity.
Qed.

Lemma node_projs_perm items items' : nodes_consistent items -> Permutation items items' -> node_projs items = node_projs items'.
Proof.
  intros Hc P. unfold node_projs. rewrite (strsort_perm_invariant _ _ (Permutation_map rep_node P)).
  apply flat_map_ext. intros n. pose proof (find_proj_perm items items' n Hc P) as E.
  destruct (find _ items) as [x|], (find _ items') as [y|]; cbn [option_map] in E; try discriminate; [|reflexivity].
  assert (X : node_proj x = node_proj y) by congruence. rewrite X. reflexivity.
Qed.

Lemma x_items_equiv p q : xp_equiv p q -> Permutation (x_items p) (x_items q).
Proof.
  intros (E1 & E2 & E3 & P1 & P2). unfold x_items. rewrite E2, E3. apply Permutation_app.
  - destruct (xp_ing_prot q); [apply filter_perm; exact P1|constructor].
  - destruct (xp_eg_prot q); [apply filter_perm; exact P2|constructor].
Qed.

Lemma x_edges_equiv ingress p q : xp_equiv p q -> Permutation (x_edges ingress p) (x_edges ingress q).
Proof.
  intros (E1 & E2 & E3 & P1 & P2). unfold x_edges. rewrite E1, E2, E3. destruct ingress.
  - destruct (xp_ing_prot q); [apply Permutation_map; exact P1|apply Permutation_refl].
  - destruct (xp_eg_prot q); [apply Permutation_map; exact P2|apply Permutation_refl].
Qed.

Lemma uses_cluster_equiv p q : xp_equiv p q -> uses_cluster p = uses_cluster q.
Proof.
  intros (E1 & E2 & E3 & P1 & P2). unfold uses_cluster. rewrite E2, E3, (existsb_perm _ _ _ P1), (existsb_perm _ _ _ P2). reflexivity.
Qed.

Lemma existsb_forall2 {A} (f : A -> bool) l l' : Forall2 (fun x y => f x = f y) l l' -> existsb f l = existsb f l'.
Proof. intros H. induction H as [|x y l l' E _ IH]; cbn [existsb]; [reflexivity|]. rewrite E, IH. reflexivity. Qed.

Theorem exposure_dot_order_independent es es' ps ps' xps mid xps' :
  Permutation es es' -> Permutation ps ps' -> NoDup (map dp_str ps) ->
  Permutation xps mid -> Forall2 xp_equiv mid xps' ->
  nodes_consistent (flat_map x_items xps) ->
  list_exposure_dot es ps xps = list_exposure_dot es' ps' xps'.
Proof.
  intros Pe Pp Hn Pm Hq Hc. unfold list_exposure_dot.
  assert (V : map (dot_lookup ps) (dedup_adj (strsort (dot_strs es ps))) = map (dot_lookup ps') (dedup_adj (strsort (dot_strs es' ps')))).
  { rewrite (strsort_perm_invariant _ _ (dot_strs_perm _ _ _ _ Pe Pp)). apply map_ext. intros s. apply dot_lookup_perm; assumption. }
  assert (I : Permutation (flat_map x_items xps) (flat_map x_items xps')).
  { eapply Permutation_trans; [apply flat_map_perm; exact Pm|]. apply flat_map_forall2.
    eapply forall2_impl; [|exact Hq]. intros p q Hpq. apply x_items_equiv. exact Hpq. }
  assert (C : existsb uses_cluster xps = existsb uses_cluster xps').
  { rewrite (existsb_perm _ _ _ Pm). apply existsb_forall2. eapply forall2_impl; [|exact Hq]. intros p q Hpq. apply uses_cluster_equiv. exact Hpq. }
  assert (E : strsort (x_all_edges es xps) = strsort (x_all_edges es' xps')).
  { apply strsort_perm_invariant. unfold x_all_edges. apply Permutation_app; [apply Permutation_map; exact Pe|].
    eapply Permutation_trans; [apply flat_map_perm; exact Pm|]. apply flat_map_forall2.
    eapply forall2_impl; [|exact Hq]. intros p q Hpq. apply Permutation_app; apply x_edges_equiv; exact Hpq. }
  rewrite V, (node_projs_perm _ _ Hc I), C, E. reflexivity.
Qed.

(* the exposure edges are exactly the entries (and the unprotected directions), the connection edges exactly the connections *)
Theorem exposure_dot_edges_are_the_entries es xps : Permutation (strsort (x_all_edges es xps)) (x_all_edges es xps).
Proof. apply strsort_perm. Qed.
