(* AlgCase.v — executable operation sequences over pools of connection sets, and the
   comparison with what the Go harness (harness/go/verifalg) observed.  Used by the C11
   correspondence check and as the `op` type of the all-operation-sequences theorems. *)
From Coq Require Import List ZArith Bool String.
From NP Require Import IntervalSet ConnSet.
Import ListNotations.
Open Scope Z_scope.

Inductive alg_op :=
| ONew (i : nat) (all : bool)
| OAllTcp (i : nat)
| OAddConn (i : nat) (p : proto) (all : bool) (ranges : list ivl) (named : list string)
| OUnion (i j : nat) | OInter (i j : nat) | OSub (i j : nat) | OCopy (i j : nat)
| OEqual (i j : nat) | OContainedIn (i j : nat)
| OIsEmpty (i : nat) | OIsAll (i : nat)
| OContains (i : nat) (p : proto) (port : Z)
| OString (i : nat) | OPropString (i : nat)
| OReplace (i : nat) (p : proto) (name : string) (num : Z).

Inductive alg_out := RNone | RBool (b : bool) | RStr (s : string).

Definition pool := list connset.
Definition pget (pl : pool) (i : nat) : connset := nth i pl (cs_make false).
Fixpoint pset (pl : pool) (i : nat) (c : connset) : pool :=
  match pl, i with
  | [], _ => []
  | _ :: t, O => c :: t
  | x :: t, S k => x :: pset t k c
  end.

(* the literal port set of an AddConnection call: MakePortSet(all), AddPortRange*, AddPort(name)* *)
Definition ps_lit (all : bool) (ranges : list ivl) (named : list string) : portset :=
  let p1 := fold_left (fun acc v => ps_add_range acc (fst v) (snd v)) ranges (ps_make all) in
  fold_left ps_add_named named p1.

(* ConnStrFromConnProperties(IsAllConnections, ProtocolsAndPortsMap) *)
Definition prop_string (c : connset) : string :=
  if cs_all c then allConnsStr
  else match cs_ports_map c with
       | [] => noConnsStr
       | _ => join ","
               (flat_map (fun p => match cs_get c p with
                                   | Some ps => [(proto_str p ++ " " ++
                                                  join "," (map ivl_str (ps_ports ps)))%string]
                                   | None => []
                                   end) [SCTP; TCP; UDP])
       end.

Definition alg_step (pl : pool) (o : alg_op) : pool * alg_out :=
  match o with
  | ONew i all => (pset pl i (cs_make all), RNone)
  | OAllTcp i => (pset pl i (cs_addconn (cs_make false) TCP (ps_make true)), RNone)
  | OAddConn i p all rs ns => (pset pl i (cs_addconn (pget pl i) p (ps_lit all rs ns)), RNone)
  | OUnion i j => (pset pl i (cs_union (pget pl i) (pget pl j)), RNone)
  | OInter i j => (pset pl i (cs_inter (pget pl i) (pget pl j)), RNone)
  | OSub i j => (pset pl i (cs_subtract (pget pl i) (pget pl j)), RNone)
  | OCopy i j => (pset pl i (cs_copy (pget pl j)), RNone)
  | OEqual i j => (pl, RBool (cs_equal (pget pl i) (pget pl j)))
  | OContainedIn i j => (pl, RBool (cs_containedin (pget pl i) (pget pl j)))
  | OIsEmpty i => (pl, RBool (cs_isempty (pget pl i)))
  | OIsAll i => (pl, RBool (cs_all (pget pl i)))
  | OContains i p port => (pl, RBool (cs_contains (pget pl i) p port))
  | OString i => (pl, RStr (cs_string (pget pl i)))
  | OPropString i => (pl, RStr (prop_string (pget pl i)))
  | OReplace i p name num => (pset pl i (cs_replace_named (pget pl i) p name num), RNone)
  end.

Definition out_eqb (a b : alg_out) : bool :=
  match a, b with
  | RNone, RNone => true
  | RBool x, RBool y => Bool.eqb x y
  | RStr x, RStr y => String.eqb x y
  | _, _ => false
  end.

Fixpoint pool_eqb (a b : pool) : bool :=
  match a, b with
  | [], [] => true
  | x :: a', y :: b' => cs_struct_eqb x y && pool_eqb a' b'
  | _, _ => false
  end.

(* first step (0-based) at which the observation differs from the model, if any *)
Fixpoint first_mismatch (pl : pool) (ops : list alg_op) (obs : list (pool * alg_out)) (k : nat)
  : option nat :=
  match ops, obs with
  | [], [] => None
  | o :: ops', (opl, oout) :: obs' =>
      let '(pl', out) := alg_step pl o in
      if pool_eqb pl' opl && out_eqb out oout then first_mismatch pl' ops' obs' (S k)
      else Some k
  | _, _ => Some k
  end.

Definition init_pool (n : nat) : pool := repeat (cs_make false) n.

Record alg_case := mkAlg { ac_id : nat; ac_pool : nat; ac_ops : list alg_op;
                           ac_obs : list (pool * alg_out) }.

Definition alg_mismatches (cs : list alg_case) : list (nat * nat) :=
  flat_map (fun c => match first_mismatch (init_pool (ac_pool c)) (ac_ops c) (ac_obs c) 0 with
                     | None => []
                     | Some k => [(ac_id c, k)]
                     end) cs.

(* ---------- semantic oracle (independent of the mirror being equal to the code) ----------
   On name-free sets the denotation is the whole meaning.  cs_norm maps any name-free set to the
   canonical representative of its denotation; on canonical operands the mirror operations are
   PROVED to compute the right denotation and to return the canonical representative
   (Proofs/ConnSetProofs.v), so  norm (op (norm a) (norm b))  is a verified oracle for what an
   operation must return, whatever form (AllowAll / three full ranges / stale entries) the
   implementation's operands are in. *)
Definition ps_namefree (ps : portset) : bool :=
  match ps_named ps, ps_excl ps with [], [] => true | _, _ => false end.
Definition cs_namefree (c : connset) : bool :=
  forallb (fun p => match cs_get c p with Some ps => ps_namefree ps | None => true end) all_protos.

Definition cs_norm (c : connset) : connset :=
  if cs_all c then cs_make true
  else cs_check_all
         (cs_map (fun _ m => match m with
                             | Some ps => if iempty (ps_ports ps) then None
                                          else Some (mkPS (ps_ports ps) [] [])
                             | None => None
                             end) c).

Definition sem_binop (f : connset -> connset -> connset) (a b r : connset) : bool :=
  cs_struct_eqb (cs_norm r) (cs_norm (f (cs_norm a) (cs_norm b))).

(* named-port clause of the property: a set holding a named port is not contained in a set that
   lacks both that name and the full port range (for that protocol). *)
Definition named_clause_applies (a b : connset) : bool :=
  negb (cs_all b) &&
  existsb (fun p => match cs_get a p with
                    | Some ps =>
                        existsb (fun nm => match cs_get b p with
                                           | None => true
                                           | Some ops => negb (sset_mem nm (ps_named ops))
                                                         && negb (iset_eqb (ps_ports ops) (ifull minPort maxPort))
                                           end) (ps_named ps)
                    | None => false
                    end) all_protos.

Definition canonical_nf (c : connset) : bool := cs_struct_eqb c (cs_norm c).

(* codes: 0 fine; 1 wrong denotation although every operand is canonical; 2 named-port containment
   clause violated; 4 canonical operands but non-canonical result; 5 AddConnection left a
   non-canonical name-free set; 6 wrong denotation with a non-canonical operand *)
Definition sem_check (before : pool) (o : alg_op) (after : pool) (out : alg_out) : nat :=
  let nf i := cs_namefree (pget before i) in
  let cn i := canonical_nf (pget before i) in
  let ok1 (i : nat) (b : bool) := if b then 0%nat else if cn i then 1%nat else 6%nat in
  let ok2 (i j : nat) (b : bool) := if b then 0%nat else if cn i && cn j then 1%nat else 6%nat in
  let bin f i j :=
    if nf i && nf j then
      if sem_binop f (pget before i) (pget before j) (pget after i)
      then (if cn i && cn j && negb (canonical_nf (pget after i)) then 4%nat else 0%nat)
      else ok2 i j false
    else 0%nat in
  match o with
  | ONew i all => if cs_struct_eqb (pget after i) (cs_make all) then 0%nat else 1%nat
  | OAllTcp i => if cs_struct_eqb (pget after i) (mkCS false (Some (ps_make true)) None None) then 0%nat else 1%nat
  | OAddConn i p all rs ns =>
      if nf i && match ns with [] => true | _ => false end then
        if cs_struct_eqb (cs_norm (pget after i))
                         (cs_norm (cs_union (cs_norm (pget before i))
                                            (cs_norm (cs_addconn (cs_make false) p (ps_lit all rs ns)))))
        then (if canonical_nf (pget after i) then 0%nat else 5%nat)
        else ok1 i false
      else 0%nat
  | OUnion i j => bin cs_union i j
  | OInter i j => bin cs_inter i j
  | OSub i j => bin cs_subtract i j
  | OCopy i j => if cs_struct_eqb (pget after i) (pget before j) then 0%nat else 1%nat
  | OEqual i j => if nf i && nf j
                  then ok2 i j (out_eqb out (RBool (cs_struct_eqb (cs_norm (pget before i)) (cs_norm (pget before j)))))
                  else 0%nat
  | OContainedIn i j =>
      if nf i && nf j
      then ok2 i j (out_eqb out (RBool (cs_containedin (cs_norm (pget before i)) (cs_norm (pget before j)))))
      else if named_clause_applies (pget before i) (pget before j)
           then (if out_eqb out (RBool false) then 0%nat else 2%nat)
           else 0%nat
  | OIsEmpty i => if nf i then ok1 i (out_eqb out (RBool (cs_isempty (cs_norm (pget before i))))) else 0%nat
  | OIsAll i => if nf i then ok1 i (out_eqb out (RBool (cs_all (cs_norm (pget before i))))) else 0%nat
  | OContains i p port =>
      if nf i && valid_port port
      then ok1 i (out_eqb out (RBool (cs_contains (cs_norm (pget before i)) p port))) else 0%nat
  | OString i => if nf i then ok1 i (out_eqb out (RStr (cs_string (cs_norm (pget before i))))) else 0%nat
  | OPropString i => if nf i then ok1 i (out_eqb out (RStr (cs_string (cs_norm (pget before i))))) else 0%nat
  | OReplace _ _ _ _ => 0%nat
  end.

(* unchanged entries of the pool must stay unchanged (operands are not modified) *)
Fixpoint others_unchanged (before after : pool) (i k : nat) : bool :=
  match before, after with
  | [], [] => true
  | x :: b', y :: a' => (Nat.eqb i k || cs_struct_eqb x y) && others_unchanged b' a' i (S k)
  | _, _ => false
  end.

Definition op_target (o : alg_op) : option nat :=
  match o with
  | ONew i _ | OAllTcp i | OAddConn i _ _ _ _ | OUnion i _ | OInter i _ | OSub i _ | OCopy i _
  | OReplace i _ _ _ => Some i
  | _ => None
  end.

(* all semantic failures along an observed run: (step, code); code 3 = an operand other than the
   updated one was modified *)
Fixpoint sem_failures (before : pool) (ops : list alg_op) (obs : list (pool * alg_out)) (k : nat)
  : list (nat * nat) :=
  match ops, obs with
  | o :: ops', (after, out) :: obs' =>
      let c := sem_check before o after out in
      let unch := match op_target o with
                  | Some i => others_unchanged before after i 0
                  | None => pool_eqb before after
                  end in
      (if Nat.eqb c 0 then [] else [(k, c)]) ++ (if unch then [] else [(k, 3%nat)])
      ++ sem_failures after ops' obs' (S k)
  | _, _ => []
  end.

Definition alg_sem_failures (cs : list alg_case) : list (nat * nat * nat) :=
  flat_map (fun c => map (fun kc => (ac_id c, fst kc, snd kc))
                         (sem_failures (init_pool (ac_pool c)) (ac_ops c) (ac_obs c) 0)) cs.
