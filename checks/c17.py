# C17 — connectivity is per workload, independent of replicas and controller kind.
# Worlds and their re-expressions (other controller kind, other replica count, bare Pods sharing one controller
# ownerReference) through the real `list`; the reports must be equal up to the [Kind] suffix (Coq-evaluated pointwise
# checker), every workload must be exactly one peer and never connect to itself.  Name-collision worlds exercise the
# known finding (generated pod names collide).
import copy, re
from .lib import core, gen, listcorr, meta

KINDS = ['Deployment', 'ReplicaSet', 'StatefulSet', 'DaemonSet', 'Job', 'CronJob', 'ReplicationController']


def strip_kind(s):
    return re.sub(r'\[[A-Za-z]+\]$', '', s)


def logical(W):
    """(ns, name) of every workload as the report names it"""
    res = []
    for w in W['workloads']:
        if w['kind'] == 'Pod' and w.get('owner'):
            res.append((w['ns'], w['owner']['name']))
        else:
            res.append((w['ns'], w['name']))
    return res


def reexpress(r, W, force_pods=None):
    W2 = copy.deepcopy(W)
    out = []
    how = []
    for w in W2['workloads']:
        ns, name = (w['ns'], w['owner']['name']) if (w['kind'] == 'Pod' and w.get('owner')) else (w['ns'], w['name'])
        x = r.random()
        if force_pods is not None and (ns, name) == force_pods:
            x = 0.7          # this one becomes bare Pods sharing an owner
        if x < 0.55:
            k = r.choice(KINDS)
            out.append({'kind': k, 'ns': ns, 'name': name, 'labels': w['labels'], 'ports': w['ports'], 'replicas': r.choice([None, 0, 1, 2, 5]), 'owner': None,
                        'omit_ns': r.random() < 0.5})
            how.append('%s/%s -> %s' % (ns, name, k))
        elif x < 0.85:
            ok = r.choice(['ReplicaSet', 'StatefulSet', 'DaemonSet', 'Job', 'ReplicationController'])
            n = r.randint(1, 3)
            for i in range(n):
                out.append({'kind': 'Pod', 'ns': ns, 'name': '%s-p%d' % (name, i), 'labels': dict(w['labels']), 'ports': copy.deepcopy(w['ports']),
                            'replicas': None, 'owner': {'name': name, 'kind': ok}, 'extra_owner': r.random() < 0.5, 'omit_ns': r.random() < 0.5})
            how.append('%s/%s -> %d pods owned by %s' % (ns, name, n, ok))
        else:
            out.append(w)
            how.append('%s/%s unchanged' % (ns, name))
    W2['workloads'] = out
    return W2, how


def main(tier):
    run = core.Run('C17', tier)
    run.cov['rule'] = ('random worlds with pairwise distinct namespace/name workloads x a re-expression of every workload (any of the 7 controller kinds, replicas in {absent,0,1,2,5}, or 1-3 bare Pods '
                       'sharing one controller ownerReference); both analysed by the real `list`; reports compared pointwise modulo the [Kind] suffix by the Coq-evaluated checker; one peer per workload; '
                       'plus name-collision worlds (same namespace/name under two kinds; bare pod named like a generated pod) for the known finding; '
                       'non-trivial = both analyses succeed, at least 3 workloads, a partial connection; distinct by scenario hash')
    run.stage_proofs()
    b = core.build_go(['verifapi'], run.log)
    if not b['verifapi'][0]:
        run.proof_ok = False
        run.proof_notes.append('harness verifapi does not build against this tree: ' + b['verifapi'][1][-600:])
        return run.finish()
    n = 200 if tier == 'quick' else 5000
    h = listcorr.Harness()
    try:
        shard, k = 100, 0
        while k < n and len(run.violations) < 3:
            pairs, info = [], {}
            for i in range(min(shard, n - k)):
                cid = k + i
                W = gen.gen_world(run.rng, anp=(cid % 3 == 0))
                collide = (cid % 10 == 9)
                if collide and W['workloads']:
                    base = run.rng.choice([w for w in W['workloads']])
                    lname = base['owner']['name'] if (base['kind'] == 'Pod' and base.get('owner')) else base['name']
                    if run.rng.random() < 0.5:
                        twin = {'kind': run.rng.choice([kk for kk in KINDS if kk != base['kind']]), 'ns': base['ns'], 'name': lname,
                                'labels': {'app': 'z'}, 'ports': [], 'replicas': run.rng.choice([None, 2]), 'owner': None}
                    else:
                        twin = {'kind': 'Pod', 'ns': base['ns'], 'name': lname + '-1', 'labels': {'app': 'z'}, 'ports': [], 'replicas': None, 'owner': None}
                    if base['kind'] == 'Pod' and not base.get('owner'):
                        base['kind'] = 'Deployment'
                    W['workloads'].append(twin)
                    info[cid] = ('collision', None)
                    pairs.append((cid, W, W))
                    continue
                if cid % 10 == 8 and W['workloads']:
                    # two DIFFERENT workloads with one namespace/name: a controller and a stand-alone Pod (their pods are X-1 and X: no
                    # collision).  Without any policy every workload reaches every other one, these two included.
                    base = run.rng.choice(W['workloads'])
                    if base['kind'] == 'Pod':
                        base['kind'], base['owner'] = 'StatefulSet', None
                    W['workloads'].append({'kind': 'Pod', 'ns': base['ns'], 'name': base['name'], 'labels': {'app': 'z'}, 'ports': [], 'replicas': None, 'owner': None})
                    W['netpols'], W['anps'], W['banp'] = [], [], None
                    info[cid] = ('samename', None)
                    pairs.append((cid, W, W))
                    continue
                if cid % 10 in (3, 6) and W['workloads']:
                    # a workload whose name is another one's name plus "-1" (the name of that one's first generated pod), one replica
                    base = run.rng.choice(W['workloads'])
                    if base['kind'] == 'Pod':
                        base['kind'], base['owner'] = 'Deployment', None
                    base['replicas'] = run.rng.choice([2, 3])
                    if not any(w['ns'] == base['ns'] and w['name'] == base['name'] + '-1' for w in W['workloads']):
                        W['workloads'].append({'kind': run.rng.choice(['Deployment', 'StatefulSet', 'ReplicaSet']), 'ns': base['ns'], 'name': base['name'] + '-1',
                                               'labels': {'app': 'sfx'}, 'ports': [], 'replicas': run.rng.choice([None, 1]), 'owner': None})
                force = None
                if cid % 10 == 2 and W['workloads']:
                    # a Job whose pod template carries no labels (the Job object itself does): its pods are label-less, so a policy for
                    # the object's labels does not select them - as for any other kind with the same template
                    base = run.rng.choice(W['workloads'])
                    base['kind'], base['owner'], base['labels'] = 'Job', None, {}
                    W['netpols'].append({'ns': base['ns'], 'name': 'npobjlabels', 'podSelector': {'matchLabels': {'app': 'a'}}, 'policyTypes': ['Ingress', 'Egress']})
                if cid % 10 in (1, 4) and W['workloads']:
                    # one port number under two protocols and two names, the second one named by a policy: a controller's pod template and
                    # bare Pods with the same containers declare the same ports
                    base = run.rng.choice(W['workloads'])
                    if base['kind'] == 'Pod':
                        base['kind'], base['owner'] = run.rng.choice(['Deployment', 'StatefulSet', 'DaemonSet', 'Job']), None
                    base['ports'] = [{'port': 53, 'proto': 'UDP', 'name': 'dns'}, {'port': 53, 'proto': 'TCP', 'name': 'metrics'}]
                    W['netpols'].append({'ns': base['ns'], 'name': 'npsamenum', 'podSelector': {}, 'policyTypes': ['Ingress'],
                                         'ingress': [{'from': [{'namespaceSelector': {}}], 'ports': [{'port': 'metrics', 'protocol': 'TCP'}]}]})
                    force = (base['ns'], base['name'])
                W2, how = reexpress(run.rng, W, force_pods=force)
                info[cid] = ('reexpress', how)
                pairs.append((cid, W, W2))
            res = meta.run_pairs(h, pairs)
            cases = []
            for cid, W, W2 in pairs:
                o1, o2, d1, d2 = res[cid]
                kind, how = info[cid]
                run.count(1)
                run.dist('case:' + kind)
                payload = {'kind': kind, 'how': how, 'world': W, 'reexpressed': W2, 'manifests_before': [m for m, _ in d1], 'manifests_after': [m for m, _ in d2]}
                if 'panic' in (o1['outcome'], o2['outcome']):
                    run.report(None, 'panic-%d' % cid, payload, 'list panicked')
                    continue
                if o1['outcome'] != 'ok' or o2['outcome'] != 'ok':
                    if kind == 'reexpress' and o1['outcome'] != o2['outcome']:
                        run.report(None, 'outcome-%d' % cid, dict(payload, before=o1.get('err'), after=o2.get('err')), 're-expression changes whether the analysis succeeds')
                    continue
                if kind == 'samename':
                    wl = sorted(p['str'] for p in o1['peers'] if not p['ip'])
                    have = {(e['src'], e['dst']) for e in o1['conns'] if e['conn']['all']}
                    missing = [(a, b_) for a in wl for b_ in wl if a != b_ and (a, b_) not in have]
                    if len(wl) != len(W['workloads']) or missing:
                        run.report(None, 'samename-%d' % cid, dict(payload, workload_peers=wl, missing_entries=missing[:6]),
                                   'without any policy every workload reaches every other one; two workloads sharing namespace/name (a controller and a stand-alone Pod) are two peers')
                    continue
                for o, Wx, tag in ((o1, W, 'before'), (o2, W2, 'after')):
                    want = sorted(set('%s/%s' % x for x in logical(Wx)))
                    got = sorted(strip_kind(p['str']) for p in o['peers'] if not p['ip'])
                    if want != got:
                        fid = 'c17-podname-collision' if kind == 'collision' else None
                        run.report(fid, 'peers-%d' % cid, dict(payload, which=tag, workloads=want, workload_peers=got),
                                   'the workloads of the input are not represented by exactly one peer each (%s)' % tag)
                        break
                    if any(e['src'] == e['dst'] for e in o['conns']):
                        run.report(None, 'self-%d' % cid, dict(payload, which=tag), 'a workload is listed as connecting to itself')
                        break
                else:
                    if kind == 'reexpress':
                        if len(W['workloads']) >= 3 and any(not c['conn']['all'] for c in o1['conns']):
                            run.nontrivial(W)
                        cases.append((cid, 'eq', [], [], o1, o2, strip_kind))
            run.cov['traces_validated_against_impl'] += len(pairs)
            if k == 0:
                run.sample({'how': info[pairs[0][0]][1], 'world': pairs[0][1]})
            byid = {cid: (W, W2) for cid, W, W2 in pairs}
            for cid in meta.coq_rel(cases)[:5]:
                W, W2 = byid[cid]
                o1, o2, d1, d2 = res[cid]
                run.report(None, 'reexpress-%d' % cid, {'kind': 'reexpress', 'how': info[cid][1], 'world': W, 'reexpressed': W2,
                                                       'manifests_before': [m for m, _ in d1], 'manifests_after': [m for m, _ in d2],
                                                       'report_before': o1['conns'], 'report_after': o2['conns']},
                           're-expressing the workloads (kind / replicas / pods with owner) changes the report beyond the [Kind] suffix')
            k += shard
    finally:
        h.close()
    return run.finish()


def replay(payload):
    run = core.Run('C17', 'quick')
    run.stage_proofs()
    core.build_go(['verifapi'], run.log)
    h = listcorr.Harness()
    try:
        res = meta.run_pairs(h, [(1, payload['world'], payload['reexpressed'])])
        o1, o2, _, _ = res[1]
        run.count(1)
        if o1['outcome'] == 'ok' and o2['outcome'] == 'ok' and payload.get('kind') == 'reexpress':
            if meta.coq_rel([(1, 'eq', [], [], o1, o2, strip_kind)]):
                run.report(None, 'replay', payload, 'reports differ')
        if payload.get('kind') == 'samename':
            if o1['outcome'] == 'ok':
                wl = sorted(p['str'] for p in o1['peers'] if not p['ip'])
                have = {(e['src'], e['dst']) for e in o1['conns'] if e['conn']['all']}
                if len(wl) != len(payload['world']['workloads']) or any((a, b_) not in have for a in wl for b_ in wl if a != b_):
                    run.report(None, 'replay', payload, 'two workloads sharing namespace/name are not two fully connected peers')
            return run.finish()
        for o, Wx in ((o1, payload['world']), (o2, payload['reexpressed'])):
            if o['outcome'] == 'ok':
                want = sorted(set('%s/%s' % x for x in logical(Wx)))
                got = sorted(strip_kind(p['str']) for p in o['peers'] if not p['ip'])
                if want != got:
                    run.report('c17-podname-collision' if payload.get('kind') == 'collision' else None, 'replay', payload, 'workloads are not one peer each')
    finally:
        h.close()
    return run.finish()
