# C01 — list reports exactly what Kubernetes NetworkPolicy semantics allow.
from .lib import core, gen, listcorr


def nontrivial(W, obs):
    return obs['outcome'] == 'ok' and len(W['netpols']) > 0 and any(not c['conn']['all'] for c in obs['conns'])


def shrink_world(W, still_fails):
    """greedy removal of policies / rules / workloads while the disagreement persists"""
    import copy, os
    if os.environ.get('VERIF_NOSHRINK'):
        return copy.deepcopy(W)
    cur = copy.deepcopy(W)
    changed = True
    budget = 40
    while changed and budget > 0:
        changed = False
        for key in ('netpols', 'anps', 'workloads', 'namespaces'):
            i = 0
            while i < len(cur[key]) and budget > 0:
                cand = copy.deepcopy(cur)
                del cand[key][i]
                budget -= 1
                if cand['workloads'] and still_fails(cand):
                    cur = cand
                    changed = True
                else:
                    i += 1
        if cur.get('banp') and budget > 0:
            cand = copy.deepcopy(cur)
            cand['banp'] = None
            budget -= 1
            if still_fails(cand):
                cur = cand
                changed = True
    return cur


def run_worlds(run, h, worlds, prop_codes=(1, 2, 3, 4, 5), wf_prop=False, nontriv=nontrivial, shuffle=False, focus_of=None):
    res, mm = listcorr.eval_list(h, worlds, focus_of=focus_of, shuffle_rng=(run.rng if shuffle else None))
    run.count(len(worlds))
    run.cov['traces_validated_against_impl'] += len(worlds)
    for cid, W in worlds:
        o = res[cid]['obs']
        run.dist('outcome:' + o['outcome'])
        run.dist('netpols:%d' % len(W['netpols']))
        run.dist('workloads:%d' % len(W['workloads']))
        if nontriv(W, o):
            run.nontrivial(W)
    byid = dict(worlds)
    for cid, code in mm:
        if code == 6 and not wf_prop:
            continue
        if code != 6 and code not in prop_codes:
            continue
        W = byid[cid]

        def still(c, code=code):
            try:
                _, m2 = listcorr.eval_list(h, [(cid, c)], focus_of=(lambda a, b, f=res[cid]['focus']: f))
            except Exception:
                return False
            return any(k == code for _, k in m2)
        small = shrink_world(W, still)
        r2, _ = listcorr.eval_list(h, [(cid, small)], focus_of=(lambda a, b, f=res[cid]['focus']: f))
        run.report(None, 'list-%d-%d' % (cid, code),
                   {'kind': 'list-correspondence', 'focus': res[cid]['focus'], 'code': code, 'meaning': listcorr.CODES[code], 'world': small,
                    'manifests': [m for m, _ in r2[cid]['docs']], 'observed': r2[cid]['obs'],
                    'how': 'write the manifests to a directory (one document per file f000.yaml.. in this order) and run `k8snetpolicy list --dirpath DIR -o json`; '
                           'the Gallina model (Model/Connlist.v list_objs, proved equal to the pointwise NetworkPolicy semantics in Properties/C01.v) gives a different answer'},
                   listcorr.CODES[code])
    return res, mm


def main(tier, prop='C01', anp=False):
    run = core.Run(prop, tier)
    run.cov['rule'] = ('random worlds (1-3 namespaces with/without Namespace objects, 1-5 workloads of all kinds incl. bare/owned Pods, 0-4 NetworkPolicies with all '
                       'policyTypes shapes, selector operators, nested CIDRs with excepts, numeric/range/named/protocol-only ports from a boundary-heavy set%s) written as manifests, '
                       'analysed by the real `list` (ConnlistFromDirPath) and by the Gallina model; whole report compared (peers, IP partition, every (src,dst) connection set); '
                       'non-trivial = analysis succeeded, at least one policy, at least one partial (non-all) connection reported; distinct by scenario hash'
                       % ('; plus 0-4 ANPs and optional BANP' if anp else ''))
    run.stage_proofs()
    b = core.build_go(['verifapi'], run.log)
    if not b['verifapi'][0]:
        run.proof_ok = False
        run.proof_notes.append('harness verifapi does not build against this tree: ' + b['verifapi'][1][-600:])
        return run.finish()
    n = 320 if tier == 'quick' else 6000
    h = listcorr.Harness()
    try:
        shard = 120
        k = 0
        while k < n and len(run.violations) < 3:
            worlds = [(k + i, gen.gen_world(run.rng, anp=anp, big=(tier != 'quick'))) for i in range(min(shard, n - k))]
            if k == 0:
                run.sample({'world': worlds[0][1]})
            run_worlds(run, h, worlds)
            k += shard
    finally:
        h.close()
    return run.finish()


def replay(payload):
    run = core.Run(payload['property'], 'quick')
    run.stage_proofs()
    core.build_go(['verifapi'], run.log)
    h = listcorr.Harness()
    try:
        run_worlds(run, h, [(1, payload['world'])], wf_prop=(payload['property'] == 'C05'),
                   focus_of=(lambda a, b: payload.get('focus', '')))
    finally:
        h.close()
    return run.finish()
