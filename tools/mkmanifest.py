#!/usr/bin/env python3
"""Regenerates /verif/MANIFEST.json from the table below (kept in one place so it stays valid)."""
import json, os
V = os.path.dirname(os.path.dirname(os.path.abspath(__file__)))
PROPS = [json.loads(l)['id'] for l in open(os.path.join(V, 'properties.jsonl'))]

TB = ("Trusted base: Coq 8.16.1 kernel (full .vo build, vm_compute for evaluating cases and Example/_refuted proofs, no native_compute); "
      "no axioms (Print Assumptions under every property theorem is checked to say 'Closed under the global context' on every run); "
      "the hand-written Gallina model is tied to /repo by this check's correspondence run (differential testing against the Go code rebuilt "
      "from the current working tree; generator-bounded); Python generators/emitters, the Go harness injected with go build -overlay, canonicalisers; "
      "third-party libraries (np-guard/models interval+netset, apimachinery selectors, YAML/JSON decoding, cli-runtime) are represented by their results.")

CHECKS = {
 'C01': dict(
   text="Machine-checked proof (Coq) that the set-based evaluation the Go code performs (mirrored function by function in Model/Eval.v, Model/Connlist.v) computes, whenever it succeeds, "
        "exactly the pointwise NetworkPolicy semantics of Model/Spec.v for every pair of peers, every protocol and every port (no bound on policies, rules, peers, ports), that every listed entry is the "
        "non-empty connection set of an included pair and every such pair is listed, and that the named-port-on-IP error arises only as documented; the mirror is tied to /repo by comparing whole `list` "
        "reports (peers, IP partition, every connection set) of the real ConnlistFromDirPath with the model on generated manifest directories.",
   design_ref='DESIGN.md section 6 / C01',
   technique='Coq proof (refinement of the set-based mirror to a pointwise spec) + model/implementation correspondence on generated manifests',
   note=TB + " Partial: uniformity of the connectivity inside one reported IP range (every address of a range behaves like the range) is checked through the IP partition comparison, not yet proved; "
        "label-selector matching and CIDR parsing are modelled, not verified."),
 'C02': dict(
   text="Machine-checked proof (Coq) that the Allowed/Denied/Pass triple built by the mirror of UpdateWithRuleConns/CollectANPConns denotes exactly 'first matching rule of the first matching ANP', that "
        "the per-direction and two-direction connection sets equal the pointwise ANP > NetworkPolicy > BANP semantics of Model/Spec.v for all inputs, that admin policies never select IPs, and that the sorted ANP list "
        "does not depend on the input order (any permutation); tied to /repo by whole-report comparison on generated worlds with ANPs/BANP given out of priority order.",
   design_ref='DESIGN.md section 6 / C02',
   technique='Coq proof (invariant over rules and ANPs, refinement to pointwise spec, uniqueness of sorted permutation) + model/implementation correspondence',
   note=TB),
 'C03': dict(
   text="Machine-checked proof (Coq) that the rule walkers `eval` uses (mirrored in Model/EvalPoint.v: ruleConnsContain, anpPortContains, Check{In,E}gressConnAllowed, CheckIfAllowed's direction logic), whenever they answer, "
        "answer exactly the pointwise semantics, hence exactly membership in the connection set `list` computes for the same peers (for every protocol and port 1..65535, any NetworkPolicy/ANP/BANP set), and that a pod to itself is allowed; "
        "tied to /repo by running CheckIfAllowed (engine built from objects and engine filled with InsertObject as the CLI does) on all peer pairs x protocols x boundary ports and comparing with the mirror, with the real list of the same directory, and with the real binary on a sample.",
   design_ref='DESIGN.md section 6 / C03',
   technique='Coq proof (walker = spec = set membership) + eval/list/model three-way correspondence',
   note=TB + " Partial: 'where list can analyse, eval must answer' is checked on every generated query (an eval error with a successful list is a violation), not proved. Eight defects found by this check and C15's were repaired by fix: commits (known_findings.json)."),
 'C04': dict(
   text="Machine-checked proof (Coq) of what the boolean checker diff_exact_b decides for diffs and reports of any size: at every pair of points (all workloads, first and one-past-last address of every IP range named anywhere) no covering entry "
        "when both reports have none, otherwise exactly one entry of the right type carrying exactly c1 and c2 with the new/lost flags set iff the workload is absent from the other side; plus classification and range-merging lemmas of the mirror of diff.go. "
        "The checker runs on the real `diff` against the real `list` of both sides for generated pairs with different policies, workloads and IP partitions; diff(A,A) empty and diff(B,A)=swap(diff(A,B)) are checked on the implementation; the implementation's diff is also compared with the mirror.",
   design_ref='DESIGN.md section 6 / C04',
   technique='Coq-verified pointwise checker applied to implementation outputs + mirror of diff.go compared with the implementation',
   note=TB + " Partial: that agreement on the boundary points implies agreement on every address inside the ranges (common-refinement argument), and exactness of the mirror diff_model for all inputs, are not yet theorems; they are covered by the boundary-point choice (first / one-past-last address of every range) and by the per-run correspondence."),
 'C05': dict(
   text="Machine-checked proof (Coq) that the boolean checker wf_report_b decides well-formedness of a report of any size (one entry per ordered pair, no self or IP-IP pair, no empty connection, canonical "
        "connections with 'all' flagged, IP peers tiling 0.0.0.0-255.255.255.255 disjointly) and that the model's own entries satisfy the per-entry clauses for all inputs; the checker is then run on every "
        "report the real implementation produces for generated worlds (with/without ANP/BANP, focus) and the peer list is compared with the model's partition.",
   design_ref='DESIGN.md section 6 / C05',
   technique='Coq-verified checker applied to implementation outputs + proof of the invariant on the model + correspondence',
   note=TB + " Partial: that the model's own peer list tiles the address space (elementary partition) is established by the verified checker on every run, not yet by a theorem."),
 'C12': dict(
   text="PARTIAL. Fault enumeration is the deciding technique here: every JSON path of 16 seed manifests (all kinds the tool reads) x {drop, null, empty, wrong type, odd addresses} through list, list --exposure, diff and eval with recovered panics, "
        "the real binary on a sample, and damaged files (quick: the pointer-field mutants plus a seeded sample; thorough: all). The Coq part (Model/Total.v) models the sites where an optional field is read with an explicit Panic outcome and proves "
        "that for every combination of present/absent fields none panics when status.hostIP is IPv4 or absent, and exhibits the remaining failing input (hostIP IPv6/garbage) as a _refuted theorem.",
   design_ref='DESIGN.md section 6 / C12',
   technique='fault enumeration over structural mutations (all four commands, recovered panics) + Coq proof of totality of the optional-field sites',
   note=TB + " Partial: arbitrary bytes and the third-party decoders are outside any theorem. Three panics were repaired by fix: commits; the hostIP panic is a known finding (its repair changes reports)."),
 'C13': dict(
   text="PARTIAL. Machine-checked proof (Coq) on the pipeline model (document classification, error accumulation, stop-on-error and fatal-error control flow of parser.go/connlist.go over the analysis model) that documents of unused kinds, schema-bad resources and broken files "
        "placed anywhere never change the connections, that each malformed item is a severe entry of Errors(), that stop-on-error with a severe error yields no partial report and a fatal error no result; on the implementation, junk injection at every placement x stop on/off x list/diff against the real run on the clean input.",
   design_ref='DESIGN.md section 6 / C13',
   technique='Coq proof of the control flow over the analysis model + junk-injection metamorphic check on the implementation',
   note=TB + " Partial: the behaviour of the cli-runtime resource builder on broken files is assumed in the model and sampled."),
 'C14': dict(
   text="Machine-checked proof (Coq) of the additivity, locality and spelling-equivalence laws on the pointwise NetworkPolicy semantics (which the computed report equals on every point by C01): adding a rule in a governed "
        "direction or a policy on already-governed pods never removes, a policy on ungoverned pods never adds, unselected pairs are unchanged; matchLabels = single-value In, range split, CIDR halves, policy split, explicit = defaulted policyTypes. "
        "On the implementation, (world, typed edit) pairs are analysed by the real `list` and the two reports related pointwise by a Coq-evaluated checker (<=, >=, =, = outside the selected pods).",
   design_ref='DESIGN.md section 6 / C14',
   technique='Coq proof of the laws on the Spec (transferred by the C01 refinement) + metamorphic relation between two implementation runs decided by a Coq checker',
   note=TB + " The oracle on the implementation side is the implementation itself (two runs); the pointwise checker compares on all workloads and the lower end points of both IP partitions."),
 'C15': dict(
   text="Machine-checked proof (Coq) over ALL finite histories of InsertObject / DeleteObject / SetResources / ClearResources / CheckIfAllowed on the engine state machine (Model/Engine.v, with the owner-keyed verdict cache): "
        "an invariant (every cache entry equals the cache-less verdict of the current objects) is kept by every operation, hence every answer equals the fresh answer; ANPs inserted in any order yield the same applied list; deletes of absent objects are no-ops. "
        "Tied to /repo by random histories (biased to query / update a dependency / same query, in-place updates, fresh-copy deletes) answered by the real engine, by a fresh real engine holding the current objects, and by the model.",
   design_ref='DESIGN.md section 6 / C15',
   technique='Coq proof (cache invariant by induction over operation histories, refinement to cache-less evaluation) + history correspondence with fresh-engine oracle',
   note=TB + " Hypotheses of the theorem: pods sharing namespace/owner/labels share container ports where the cache is consulted (the engine's own assumption; a _needed example shows it is necessary); histories contain pods, not workload objects. "
        "The LRU is modelled as a map without eviction (a superset). Ten defects found by this check were repaired by fix: commits (known_findings.json)."),
 'C16': dict(
   text="Machine-checked proof (Coq) on the model of connlist.go that the focused report is exactly the unfocused report restricted to entries whose source or destination matches the focus (same connections, both inclusions), "
        "and that a focus matching nothing yields an empty result with a warning, not an error; on the implementation, the real `list --focusworkload W` is related to the real unfocused `list` by a Coq-evaluated filter checker for every workload name (both spellings), shared names, absent names and ingress-controller.",
   design_ref='DESIGN.md section 6 / C16',
   technique='Coq proof (filter characterisation from soundness/completeness of the report) + metamorphic relation between two implementation runs',
   note=TB + " One defect (focus on a real workload named ingress-controller) was repaired by a fix: commit."),
 'C17': dict(
   text="Machine-checked proof (Coq) that the semantics and the computed canonical connection sets depend on a pod only through namespace, labels and container ports (so controller kind, replica count and pod names cannot change a reported connection), "
        "that all controller kinds/replica counts expand one template to pods with one view and owner, that every workload string is exactly one peer and no entry pairs a workload with itself; on the implementation, worlds and their re-expressions "
        "(kind, replicas, bare pods with a shared controller owner) are analysed by the real `list` and compared modulo the [Kind] suffix.",
   design_ref='DESIGN.md section 6 / C17',
   technique='Coq proof (view congruence + canonical-form uniqueness) + metamorphic relation between two implementation runs',
   note=TB + " Known finding (not repaired): generated pod names collide for two workloads with one namespace/name (C17_distinct_workloads_shadow_refuted); the check prints KNOWN-FINDING for collision worlds only."),
 'C18': dict(
   text="PARTIAL. Machine-checked proof (Coq) of the CLI decision logic (flags -> options, validation, stdout, -f file, exit status) with the library call as a parameter: for every flag combination and library behaviour stdout is the library string for the mapped options, "
        "the file holds the same bytes and the exit status is non-zero exactly when the library (or flag validation) fails. The real binary is run with random flag combinations on clean / severe / fatal directories and compared with in-process library calls (stdout bytes, file bytes, exit status); ConnlistFromResourceInfos is compared with ConnlistFromDirPath.",
   design_ref='DESIGN.md section 6 / C18',
   technique='Coq proof of the CLI decision logic + binary-vs-library differential check',
   note=TB + " Partial: process behaviour (cobra parsing, real stdout/file) is sampled."),
 'C19': dict(
   text="Machine-checked proof (Coq): (1) for ANY correct comparison sort modelled as a decision tree, running it with the Go callback records an error whenever two priorities are equal and (n>=2) whenever one is "
        "out of range — so detection cannot depend on sort.Slice internals; (2) in the model of addObjectsByKind every listed conflict (same priority, out-of-range priority, same ANP name, same NetworkPolicy name, "
        "second BANP, BANP not named default, inconsistent owner labels) is rejected for arbitrary surrounding resources and positions; no false priority conflicts. Tied to /repo by conflict injection through the real list and diff.",
   design_ref='DESIGN.md section 6 / C19',
   technique='Coq proof (decision-tree argument over all comparison sorts; insertion-position-independent rejection) + conflict-injection correspondence',
   note=TB + " Assumed of sort.Slice: it is a deterministic comparison sort, correct on injective keys, comparing only indices in range."),
 'C08': dict(
   text="PARTIAL. Machine-checked proof (Coq) that two successful evaluations over worlds differing only in the order of the NetworkPolicies (Go's map-iteration order included), of the rules of a policy, of the peers and ports of a rule and of "
        "policyTypes return the identical canonical connection set for every pair of peers; that every modelled formatter - byte-exact models of list txt/md/csv/json/dot, of list --exposure txt/md/csv/json/dot and of diff txt/md/csv/dot - "
        "is a function of the multiset of result entries (and of the set of peers / exposed workloads and the multiset of entries of each) for ANY correct sort, not only the model's, including the unstable sort.Slice on (workload, other end) "
        "under a no-ties condition and the dot node de-duplication under a node-name consistency condition, both evaluated on every implementation result; sorting strings/rows is order-independent (transitivity of Coq's string order proved); together with C01/C02 "
        "(the report is the Spec), C11 canonical forms and the order-independent ANP list this makes the model's output a function of the resource set. "
        "Real map-iteration schedules and Errors() order are only sampled: every world is analysed repeatedly per format unchanged / reordered / re-partitioned into files / with rules, peers, ports permuted; all outputs, and the answers of eval to 80 queries, must be identical.",
   design_ref='DESIGN.md section 6 / C08',
   technique='Coq proof (permutation invariance of the byte-exact format models for any correct sort) + repeated-run byte comparison under input permutations',
   note=TB + " Partial: the theorem is about the model's explicit order parameter; the Go runtime's map order is sampled (Go randomises it per run). Defects found and repaired by fix: commits: named-port-on-IP error depending on rule order (list) and on policy/rule/port order (eval), two order dependences of the printed exposure connection; one recorded known finding (representative spelling)."),
 'C09': dict(
   text="PARTIAL. Byte-exact Gallina models of list txt/md/csv/json/dot, list --exposure txt/md/csv/json/dot and diff txt/md/csv/dot as functions of the API result, with machine-checked proofs that each lists every entry exactly once, that the row formats share their rows, "
        "that the printed connection is a function of the denoted set and - injectivity - that the printed connection determines the canonical set, a printed peer determines the peer, each of list txt/md/csv/json/dot determines the report and each of diff txt/md/csv determines the diff "
        "(on a decidable domain evaluated on every implementation result; the model's own reports are proved to lie in it); "
        "on every run the real formatter's bytes are compared with the model applied to the real API result in all 14 command/format combinations, and every format is also parsed back and compared with the API result and with every other format.",
   design_ref='DESIGN.md section 6 / C09',
   technique='Coq format models (byte-exact) compared with the implementation + proofs of row exactness and of injectivity of the rendering + parse-back of every format',
   note=TB + " Partial: injectivity is not proved for the diff dot and exposure dot outputs and the exposure sections (byte-exact models and parse-back); encoding/json and encoding/csv are modelled on the alphabet the analysis produces; a printed exposure connection is taken from ConnectionSet.String (modelled in ConnSet.v, compared by C11/C06) and checked against ProtocolsAndPortsMap()."),
 'C06': dict(
   text="Machine-checked proof (Coq), on the model of exposure mode (policy pre-scan, representative peers with unique keys and refinement, evaluation against a representative peer, protected flags, entire-cluster sets, "
        "exposure_map.go): (1) whenever list produces a report, exposure mode produces the same report (the pre-scan shortcuts change no connection between real peers); (2) 'not protected' iff no NetworkPolicy governs the workload in that direction; "
        "(3) every reported entry is realizable: for ANY hypothetical pod whose labels and namespace labels satisfy the entry's selectors (any pod at all for entire-cluster) the pointwise NetworkPolicy semantics allows every reported "
        "connection, a named port of an egress entry meaning that name as the pod declares it and an ingress named port being the workload's own. Tied to /repo by comparing the whole ExposedPeers() result with the model, list --exposure with list, "
        "and by a realizability probe on the implementation (a pod satisfying a reported entry is added and the real list must allow the reported connections).",
   design_ref='DESIGN.md section 6 / C06',
   technique='Coq proof (soundness of exposure entries against the pointwise NetworkPolicy semantics, for all hypothetical pods) + model/implementation correspondence + realizability probe',
   note=TB + " Assumed of a hypothetical pod: its namespace labels carry kubernetes.io/metadata.name = its namespace (Kubernetes sets it). Focus-workload filtering and ingress-controller lines under --exposure are not in the exposure model (they are C16/C10's)."),
 'C07': dict(
   text="Machine-checked proof (Coq) on the exposure model: every rule of a policy governing a workload that matches a hypothetical pod (arbitrary labels, existing or new namespace) is covered - its connections are in the "
        "entire-cluster entry, or in a reported entry whose selectors the pod satisfies, or the entry's representative peer was refined away, which happens only for selectors made solely of label equalities satisfied by an existing workload "
        "(the documented omission, proved exactly). Covered means: for ingress the full rule semantics with named ports resolved on the workload; for egress the numbered ports, and for a named egress port the entry holds the pod's declared "
        "number or stores the name. De-duplication by key never loses a selector pair, the registered peer stands for every pod the rule entry matches whichever rule generated it, and the containment test that suppresses an entry is sound "
        "(named ports included). Tied to /repo by the model correspondence and by a completeness probe: hypothetical pods are added to the input and every connection the real analysis then allows must be covered by an entry of the run without the pod.",
   design_ref='DESIGN.md section 6 / C07',
   technique='Coq proof (completeness of representative-peer generation, matching and reporting, with the documented refinement) + model/implementation correspondence + completeness probe',
   note=TB + " Assumed of a hypothetical pod: its namespace labels carry kubernetes.io/metadata.name = its namespace. Four defects of the implementation were repaired by fix: commits (see known_findings.json)."),
 'C10': dict(
   text="Machine-checked proof (Coq) that in the model of ingress_analyzer.go + getIngressAllowedConnections every {ingress-controller} line is the line of a workload targeted by a Route/Ingress of its namespace through a kept Service, "
        "carries exactly the (TCP, n) with n a TCP container port reached through the targetPort (number, or name resolved on the workload; the port when unset) of the designated service port and allowed by the pointwise policy "
        "semantics from the ingress-controller pod, is canonical and non-empty; that a blocked target gets no line and a warning naming an object that does target it; and that every targeted workload in focus has a line or a warning. "
        "Tied to /repo by comparing the whole `list` report and the blocked-ingress warnings of random Service/Ingress/Route worlds with the model. The stated designation rule (Ingress: number or name) differs from the code "
        "(also targetPort): known finding c10-ingress-backend-by-targetport, with a theorem that the two rules agree unless an Ingress backend port equals a targetPort.",
   design_ref='DESIGN.md section 6 / C10',
   technique='Coq proof (refinement of the Ingress/Route/Service analysis to the pointwise statement) + model/implementation correspondence on generated worlds',
   note=TB + " Services/Ingress/Route YAML decoding and label-selector validation are outside the model."),
 'C11': dict(
   text="Machine-checked proof (Coq) that the Gallina mirror of ConnectionSet/PortSet denotes exactly the right (protocol,port) set under every operation, "
        "that the canonical form is unique (equal sets are identical and print identically), that the full set is flagged AllowAll, and that the canonical-form invariant "
        "is preserved by Union/Intersection/Subtract; the mirror is tied to the Go type by running random operation sequences on both and comparing the whole state after each step, "
        "plus a verified semantic oracle and operand-mutation/aliasing probes on the Go side.",
   design_ref='DESIGN.md section 6 / C11',
   technique='Coq proof (set-algebra denotation + canonical-form invariant) + model/implementation correspondence on operation sequences',
   note=TB + " Named ports are a symbolic residue: only the two clauses of the property text are checked for them."),
}

def main():
    checks = []
    for pid in PROPS:
        if pid not in CHECKS:
            continue
        c = CHECKS[pid]
        checks.append({
            'property_id': pid,
            'quick_cmd': 'python3 checks/check.py %s quick' % pid,
            'thorough_cmd': 'python3 checks/check.py %s thorough' % pid,
            'evidence_file': 'evidence/%s.json' % pid,
            'replay_cmd_template': 'python3 checks/check.py --replay {path}',
            'engine': 'coq-model+go-correspondence',
            'level_claimed': {'category': 'proof', 'text': c['text'], 'design_ref': c['design_ref']},
            'level_note': c['note'],
            'technique': c['technique'],
        })
    na = [{'property_id': p, 'reason': 'check not built yet in this snapshot (planned: see DESIGN.md section 6); nothing is claimed for it'}
          for p in PROPS if p not in CHECKS]
    m = {
        'version': 1,
        'setup_cmd': 'make -C /verif setup',
        'hooks': {'guard': 'verif',
                  'enable': 'cd /repo && go build -tags verif -overlay /verif/build/overlay.json ./pkg/netpol/<harness> (hook and harness files live under /verif/harness/go and are injected by the overlay; nothing of ours is on disk in /repo)',
                  'baseline_off_cmd': 'cd /repo && go test -vet=off -count=1 -timeout 25m ./...',
                  'source_commits': [], 'add_only': True},
        'engines': [{'name': 'coq-model+go-correspondence', 'path': 'checks/check.py', 'serves_properties': sorted(CHECKS),
                     'kind_free_text': 'Coq 8.16.1 development (coq/) with one Properties/Cxx.v per property; Python driver that rebuilds the Go harness from /repo with -overlay, generates cases, evaluates the Gallina model with vm_compute and compares'}],
        'checks': checks,
        'notes': 'See DESIGN.md. Known findings: known_findings.json.',
        'not_applicable': na,
    }
    with open(os.path.join(V, 'MANIFEST.json'), 'w') as f:
        json.dump(m, f, indent=1)
    print('MANIFEST.json: %d checks, %d not claimed' % (len(checks), len(na)))

if __name__ == '__main__':
    main()
