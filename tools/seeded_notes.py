#!/usr/bin/env python3
"""seeded_notes.py : add to every seeded/<id>/meta.json which check catches the mutant and what had to be strengthened for it
(the table of DESIGN.md section 9 in machine-readable form)."""
import json, os
NOTES = {
 'C02-m3': ('C02 (eval part), C03', 'precedence-stack motif; C02 now also runs the eval correspondence on ANP worlds'),
 'C03-m2': ('C03', 'precedence-stack motif'), 'C03-m3': ('C03', 'BANP with a named port; the numbers of named ports are always queried'),
 'C04-m1': ('C04', 'edit: the same connection moves to a disjoint IP range'), 'C04-m2': ('C04', 'edit: workload kind changed, same namespace and name'),
 'C05-m1': ('C05', 'multi-range IP peer bias'), 'C05-m2': ('C05', 'port-cover bias'),
 'C08-m1': ('C08', 'rules with 3-5 named ports towards peers outside the input (exposure output)'), 'C08-m2': ('C08', 'Services / Ingresses / Routes in the worlds, documents reordered'),
 'C09-m1': ('C09', 'exposure sections parsed back (IP rows)'), 'C09-m2': ('C09', 'exposure sections parsed back (selector rendering)'),
 'C13-m2': ('C13', 'rule: a fatal entry in Errors() never comes with connections; a decodable Service with an illegal selector value'),
 'C13-m3': ('C13', 'diff with the junk on the second side'),
 'C14-m2': ('C14', 'more spelling edits, mixed selectors'), 'C14-m3': ('C14', 'checker ids kept small (nat literal overflow in the harness)'),
 'C15-m2': ('C15', 'ANP sandwich history motif'), 'C15-m3': ('C15', 'two-NetworkPolicy history motif'),
 'C16-m1': ('C16', 'workload names that are suffixes of one another'),
 'C17-m2': ('C17', 'extra non-controller ownerReference listed first'), 'C17-m3': ('C17', 'namespace omitted in the manifest (default)'),
 'C18-m1': ('C18', 'the -f output file exists beforehand and is longer'),
 'C19-m2': ('C19', 'empty-valued label in the owner-consistency injection'),
 'C07-m1': ('C07, C06', 'refinement-boundary motif (label equalities satisfied by an existing workload, with/without a failing expression)'),
 'C07-m3': ('C07, C06', 'entire-cluster connection with a one-port hole next to a named-port rule'),
}
base = '/verif/seeded'
for sid in sorted(os.listdir(base)):
    p = os.path.join(base, sid, 'meta.json')
    m = json.load(open(p)) if os.path.exists(p) else {}
    prop = sid.split('-')[0]
    cb, note = NOTES.get(sid, (prop, None))
    m['caught_by'] = cb
    m['strengthening_needed'] = note
    json.dump(m, open(p, 'w'), indent=1)
print('ok')
