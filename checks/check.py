#!/usr/bin/env python3
"""check.py <Cxx> <quick|thorough>   |   check.py --replay <path>
Decides one property of /verif/properties.jsonl for /repo's current working tree.
Exit 0 = held on everything explored; exit 1 + `VIOLATION property=<id> replay=<path>` otherwise."""
import importlib, json, os, sys
sys.path.insert(0, os.path.dirname(os.path.dirname(os.path.abspath(__file__))))


def main():
    args = sys.argv[1:]
    if args == ['--warm']:
        from checks.lib import core
        log = []
        names = [n for n in sorted(os.listdir(os.path.join(core.VERIF, 'harness', 'go')))
                 if os.path.isdir(os.path.join(core.VERIF, 'harness', 'go', n)) and n.startswith('verif')]
        print(core.build_go(names + ['k8snetpolicy'], log), log)
        sys.exit(0)
    if len(args) == 2 and args[0] == '--replay':
        payload = json.load(open(args[1]))
        prop = payload['property']
        mod = importlib.import_module('checks.%s' % prop.lower())
        sys.exit(mod.replay(payload))
    if len(args) != 2 or args[1] not in ('quick', 'thorough'):
        print(__doc__)
        sys.exit(2)
    prop, tier = args[0].upper(), os.environ.get('VERIF_TIER', args[1])
    if tier not in ('quick', 'thorough'):
        tier = args[1]
    mod = importlib.import_module('checks.%s' % prop.lower())
    sys.exit(mod.main(tier))


if __name__ == '__main__':
    main()
