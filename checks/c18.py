# C18 — CLI, directory API and resource-info API give the same answer.
# The real binary `k8snetpolicy list|diff` with flag combinations (-o, --exposure, --focusworkload, --fail, -q/-v, -f) on
# directories that analyse cleanly, with severe errors (junk) and with fatal errors (conflicts), against in-process library
# calls with the mapped options: stdout bytes, -f file bytes, exit status; ConnlistFromResourceInfos vs ConnlistFromDirPath.
import json, os, subprocess
from . import c13, c19
from .lib import core, gen, listcorr

LIST_FORMATS = ['txt', 'json', 'csv', 'md', 'dot']
DIFF_FORMATS = ['txt', 'csv', 'md', 'dot']


def make_dir(h, r, name, flavour):
    W = gen.gen_world(r, anp=(r.random() < 0.3))
    docs = [m for m, _ in gen.docs(W)]
    r.shuffle(docs)
    d = h.dir_for(name)
    if flavour == 'fatal':
        Wc, kind, order, _ = c19.gen_case(r, 'quick')
        docs = [m for m, _ in c19.docs_of(Wc, order, r)]
    gen.write_dir(d, docs)
    if flavour == 'severe':
        for i, j in enumerate(r.sample(c13.SCHEMA_BAD, r.randint(1, 2))):
            with open(os.path.join(d, 'zbad%d.yaml' % i), 'w') as f:
                f.write(json.dumps(j) + '\n')
        if r.random() < 0.5:
            nm, text = r.choice(c13.BROKEN_FILES)
            with open(os.path.join(d, nm), 'w') as f:
                f.write(text)
    if r.random() < 0.4:
        # part of the input lives in sub-directories (both APIs walk them, with every option)
        files = sorted(os.listdir(d))
        for fn in r.sample(files, len(files) // 2):
            sub = os.path.join(d, r.choice(['sub', 'sub/deeper']))
            os.makedirs(sub, exist_ok=True)
            os.rename(os.path.join(d, fn), os.path.join(sub, fn))
    return d, W


def main(tier):
    run = core.Run('C18', tier)
    run.cov['rule'] = ('directories (clean / with severe errors / with fatal conflicts) x commands {list, diff} x flag combinations (-o every format and an invalid one, --exposure, --focusworkload present/absent, '
                       '--fail, -q, -v, -q -v, -f FILE): the real binary\'s stdout, file and exit status against the in-process library call with the mapped options; plus ConnlistFromResourceInfos vs '
                       'ConnlistFromDirPath; non-trivial = the library produced a non-empty string; distinct by (directory flavour, command, flags, scenario hash)')
    run.stage_proofs()
    b = core.build_go(['verifapi', 'k8snetpolicy'], run.log)
    if not (b['verifapi'][0] and b['k8snetpolicy'][0]):
        run.proof_ok = False
        run.proof_notes.append('verifapi or the CLI does not build against this tree: ' + (b['verifapi'][1] + b['k8snetpolicy'][1])[-600:])
        return run.finish()
    n = 250 if tier == 'quick' else 2000
    binp = os.path.join(core.BUILD, 'k8snetpolicy')
    h = listcorr.Harness()
    r = run.rng
    try:
        for i in range(n):
            if len(run.violations) >= 3:
                break
            flavour = r.choice(['clean', 'clean', 'clean', 'severe', 'fatal'])
            d, W = make_dir(h, r, 'a%d' % i, flavour)
            cmd = r.choice(['list', 'list', 'diff'])
            flags, lib = [], {}
            stop = r.random() < 0.25
            if stop:
                flags.append('--fail')
            verb = r.choice(['', '', '-q', '-v', '-q -v'])
            flags += verb.split()
            use_file = r.random() < 0.4
            outf = os.path.join(h.tmp, 'out%d.txt' % i)
            if use_file:
                flags += ['-f', outf]
                if r.random() < 0.5:
                    # the output file already exists (an earlier, longer report): -f must replace it
                    with open(outf, 'w') as f:
                        f.write('stale line of an earlier run\n' * r.choice([1, 50, 2000]))
            if cmd == 'list':
                fmt_ = r.choice(LIST_FORMATS * 3 + ['xml', 'JSON', 'Txt'])      # format names are case sensitive in the library
                exposure = r.random() < 0.3
                focus = ''
                if r.random() < 0.45 and W['workloads']:
                    w = r.choice(W['workloads'])
                    focus = r.choice([w['name'], w['ns'] + '/' + w['name'], 'nosuch', 'default/' + w['name'], 'default/' + w['name']])
                args = ['list', '--dirpath', d, '-o', fmt_] + (['--exposure'] if exposure else []) + (['--focusworkload', focus] if focus else []) + flags
                lib = {'id': 'l', 'cmd': 'list', 'dir': d, 'format': fmt_, 'exposure': exposure, 'focus': focus, 'stop': stop, 'want_out': True}
            else:
                d2, _ = make_dir(h, r, 'b%d' % i, r.choice(['clean', 'clean', 'severe']))
                if r.random() < 0.2:
                    d2 = r.choice([d, d + '/', d + '/.'])      # a directory compared with itself (also when it cannot be analysed)
                    if r.random() < 0.3:
                        d = d2 = os.path.join(h.tmp, 'missing%d' % i)
                elif r.random() < 0.2:
                    # the second directory through a symbolic link, written with a trailing slash: both sides get the string as given
                    lk = os.path.join(h.tmp, 'lnk%d' % i)
                    os.symlink(d2, lk)
                    d2 = lk + '/'
                fmt_ = r.choice(DIFF_FORMATS * 3 + ['json', 'TXT', 'Dot'])
                args = ['diff', '--dir1', d, '--dir2', d2, '-o', fmt_] + flags
                lib = {'id': 'd', 'cmd': 'diff', 'dir': d, 'dir2': d2, 'format': fmt_, 'stop': stop, 'want_out': True}
            pr = subprocess.run([binp] + args, capture_output=True, text=True, timeout=300, cwd=h.tmp)
            o = h.run([lib])[0]
            run.count(1)
            run.dist('cmd:' + cmd)
            run.dist('dir:' + flavour)
            run.dist('fmt:' + fmt_)
            valid_fmt = fmt_ in (LIST_FORMATS if cmd == 'list' else DIFF_FORMATS)
            flag_err = (not valid_fmt) or (verb == '-q -v' and cmd == 'list')
            lib_err = o['outcome'] != 'ok' or bool(o.get('out_err'))
            lib_out = '' if lib_err else o.get('out', '')
            payload = {'kind': 'cli', 'args': args, 'flavour': flavour, 'exit': pr.returncode, 'stdout': pr.stdout[-3000:], 'stderr': pr.stderr[-800:],
                       'library': {'outcome': o['outcome'], 'err': o.get('err'), 'out_err': o.get('out_err'), 'out': lib_out[-3000:]},
                       'dir_listing': (sorted(os.path.relpath(os.path.join(dp, f), d) for dp, _, fs in os.walk(d) for f in fs)[:60] if os.path.isdir(d) else None)}
            if pr.returncode == 2 or 'panic:' in pr.stderr:
                run.report(None, 'crash-%d' % i, payload, 'the binary crashed')
                continue
            if flag_err:
                if pr.returncode == 0:
                    run.report(None, 'flags-%d' % i, payload, 'invalid flags accepted with exit status 0')
                continue
            if lib_out:
                run.nontrivial([flavour, args[0], fmt_, W])
            if (pr.returncode != 0) != lib_err:
                run.report(None, 'exit-%d' % i, payload, 'exit status %d but the library call %s an error' % (pr.returncode, 'returned' if lib_err else 'did not return'))
                continue
            if not lib_err and pr.stdout != lib_out:
                run.report(None, 'stdout-%d' % i, payload, 'stdout differs from the string the library returns for the same options')
                continue
            if not lib_err and use_file:
                got = open(outf).read() if os.path.exists(outf) else None
                if got != pr.stdout:
                    run.report(None, 'file-%d' % i, dict(payload, file=got if got is None else got[-2000:]), '-f FILE does not hold the bytes printed on stdout')
                    continue
            if lib_err and pr.stdout.strip() and cmd == 'list' and not use_file:
                # an error with a report on stdout would be a partial result
                run.report(None, 'partialout-%d' % i, payload, 'the command failed but printed a report')
                continue
            # resource-info API vs directory API
            if cmd == 'list':
                a, bb = h.run([{'id': 'x', 'cmd': 'list', 'dir': d, 'stop': stop, 'focus': focus, 'exposure': exposure},
                               {'id': 'y', 'cmd': 'infos', 'dir': d, 'stop': stop, 'focus': focus, 'exposure': exposure}])
                ck = lambda o: sorted(json.dumps(e, sort_keys=True) for e in (o.get('conns') or []))
                # with stop-on-error and an unreadable file the directory API fails while scanning; the resource-info API is then handed
                # whatever was scanned before the failure and has nothing to be compared with
                if stop and a['outcome'] == 'err':
                    pass
                elif a['outcome'] != bb['outcome'] or ck(a) != ck(bb):
                    run.report(None, 'infos-%d' % i, dict(payload, dirpath=a.get('conns'), infos=bb.get('conns')), 'ConnlistFromResourceInfos differs from ConnlistFromDirPath')
                    continue
        run.cov['traces_validated_against_impl'] = run.cov['evaluations']
        run.sample({'args': args, 'exit': pr.returncode})
    finally:
        h.close()
    return run.finish()


def replay(payload):
    run = core.Run('C18', 'quick')
    run.stage_proofs()
    run.count(1)
    print('replay: args', payload.get('args'), 'exit', payload.get('exit'))
    return run.finish()
