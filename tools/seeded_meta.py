#!/usr/bin/env python3
"""seeded_meta.py ID HEAD RC FIRST_REPLAY : record in seeded/ID/meta.json what was run against the mutant"""
import json, os, sys, datetime
sid, head, rc, first = sys.argv[1:5]
check = sys.argv[5] if len(sys.argv) > 5 else sid.split('-')[0]
p = os.path.join('/verif/seeded', sid, 'meta.json')
m = json.load(open(p)) if os.path.exists(p) else {}
prop = sid.split('-')[0]
m.setdefault('property', prop)
m['confirmed'] = {'how': 'tools/confirm_mutant.sh in a scratch git worktree of /repo: patch applies, go build ./... and the pinned suite pass '
                         '(only the baseline ipblockstest_4 failures), the demonstration fails with the change and passes without it',
                  'suite_passed': True, 'demo_clean': 'pass', 'demo_mutant': 'fail'}
v = {'repo_head': head, 'command': 'tools/run_seeded.sh %s   (scratch worktree of /repo + patch; VERIF_REPO=<worktree> python3 checks/check.py %s quick)' % (sid if check == prop else sid + ':' + check, check),
                 'check': check, 'exit_code': None if rc == '' else int(rc), 'caught': (rc not in ('', '0')),
                 'first_replay_kind': os.path.basename(first).rsplit('-', 1)[0] if first else None,
                 'date': datetime.datetime.utcnow().strftime('%Y-%m-%dT%H:%MZ')}
if check == prop:
    m['verified'] = v
else:
    m.setdefault('verified_other', {})[check] = v      # the check of another property run against this mutant
json.dump(m, open(p, 'w'), indent=1)
