# Readers for the output formats (used by C08/C09): every format is parsed back to rows.
import csv, io, json, re


def conn_str(c):
    """common.ConnStrFromConnProperties on an observed connection"""
    if c['all']:
        return 'All Connections'
    if not c['pp']:
        return 'No Connections'
    parts = []
    for proto, ranges in c['pp'].items():
        parts.append(proto + ' ' + ','.join(str(a) if a == b else '%d-%d' % (a, b) for a, b in ranges))
    return ','.join(sorted(parts))


def api_rows(obs):
    return sorted((e['src'], e['dst'], conn_str(e['conn'])) for e in obs['conns'])


def parse_list_txt(out):
    body = out.split('Exposure Analysis Result:')[0]
    rows = []
    for line in body.split('\n'):
        if not line.strip():
            continue
        m = re.match(r'^(.*) => (.*) : (.*)$', line)
        if not m:
            raise ValueError('txt line: ' + line)
        rows.append(m.groups())
    return sorted(rows)


def parse_list_md(out):
    body = out.split('## Exposure Analysis Result:')[0]
    lines = [l for l in body.split('\n') if l.strip()]
    if lines[0] != '| src | dst | conn |' or not lines[1].startswith('|-----'):
        raise ValueError('md header')
    rows = []
    for l in lines[2:]:
        parts = [x.strip() for x in l.strip().strip('|').split(' | ')]
        if len(parts) != 3:
            raise ValueError('md line: ' + l)
        rows.append(tuple(parts))
    return sorted(rows)


def parse_list_csv(out):
    rd = list(csv.reader(io.StringIO(out)))
    if rd[0] != ['src', 'dst', 'conn']:
        raise ValueError('csv header')
    rows = []
    for r in rd[1:]:
        if r and r[0] == 'Exposure Analysis Result:':
            break
        rows.append(tuple(r))
    return sorted(rows)


def parse_list_json(out):
    d = json.loads(out)
    if isinstance(d, dict):
        d = d['connlist_results']
    return sorted((x['src'], x['dst'], x['conn']) for x in (d or []))


EDGE = re.compile(r'^\s*"([^"]*)" -> "([^"]*)" \[label="([^"]*)"(.*)\]\s*$')


def parse_list_dot(out):
    rows = []
    for l in out.split('\n'):
        m = EDGE.match(l)
        if m and 'entire-cluster' not in l and 'color="gold2"' in l and '_in_' not in l and 'all pods' not in l and 'pod with' not in l:
            rows.append((m.group(1), m.group(2), m.group(3)))
    return sorted(rows)


LIST_PARSERS = {'txt': parse_list_txt, 'md': parse_list_md, 'csv': parse_list_csv, 'json': parse_list_json, 'dot': parse_list_dot}


# ---- diff
def api_diff_rows(od, with_unchanged=False):
    rows = []
    for t in ('added', 'removed', 'changed') + (('unchanged',) if with_unchanged else ()):
        for e in od['diff'].get(t) or []:
            c1 = 'No Connections' if t == 'added' else conn_str(e['c1'])
            c2 = 'No Connections' if t == 'removed' else conn_str(e['c2'])
            info = ''
            if e['src_new_or_lost'] or e['dst_new_or_lost']:
                info = 'workload ' + (e['src'] if e['src_new_or_lost'] else '') + (' and ' if e['src_new_or_lost'] and e['dst_new_or_lost'] else '') + \
                       (e['dst'] if e['dst_new_or_lost'] else '') + ' ' + t
            rows.append((t, e['src'], e['dst'], c1, c2, info))
    return sorted(rows)


def parse_diff_txt(out):
    if out == '':
        return []
    lines = out.split('\n')
    if lines[0] != 'Connectivity diff:':
        raise ValueError('diff txt header')
    rows = []
    for l in lines[1:]:
        if not l.strip():
            continue
        m = re.match(r'^diff-type: (\w+), source: (.*), destination: (.*), dir1: (.*), dir2: (.*?)(?:, workloads-diff-info: (.*))?$', l)
        if not m:
            raise ValueError('diff txt line: ' + l)
        g = list(m.groups())
        g[5] = g[5] or ''
        rows.append(tuple(g))
    return sorted(rows)


def parse_diff_md(out):
    if out == '':
        return []
    lines = [l for l in out.split('\n') if l.strip()]
    rows = []
    for l in lines[2:]:
        inner = l.strip()[1:-1]
        parts = [x.strip() for x in inner.split(' | ')]
        if len(parts) != 6:
            parts = [x.strip() for x in inner.split('|')]
        rows.append(tuple(parts))
    return sorted(rows)


def parse_diff_csv(out):
    if out == '':
        return []
    rd = list(csv.reader(io.StringIO(out)))
    return sorted(tuple(r) for r in rd[1:])


DOT_COLORS = {'#008000': 'added', 'red2': 'removed', 'magenta': 'changed', 'grey': 'unchanged'}


def parse_diff_dot(out):
    """rows (type, src, dst, c1, c2) incl. unchanged"""
    rows = []
    for l in out.split('\n'):
        m = EDGE.match(l)
        if not m or l.startswith('\t\t'):
            continue
        src, dst, label, rest = m.groups()
        cm = re.search(r'color="([^"]*)"', rest)
        t = DOT_COLORS.get(cm.group(1)) if cm else None
        if t is None:
            continue
        if t == 'changed':
            mm = re.match(r'^(.*) \(dir1: (.*)\)$', label)
            c2, c1 = (mm.group(1), mm.group(2)) if mm else (label, '?')
        elif t == 'added':
            c1, c2 = 'No Connections', label
        elif t == 'removed':
            c1, c2 = label, 'No Connections'
        else:
            c1 = c2 = label
        rows.append((t, src, dst, c1, c2))
    return sorted(rows)


NODE = re.compile(r'^\t+"((?:[^"\\]|\\.)*)" \[label="((?:[^"\\]|\\.)*)" color="([^"]*)" fontcolor="([^"]*)"\]$')


def parse_dot_nodes(out):
    """{peer string: [(label, color), ...]} of the node declarations of a dot output (legend nodes aside)"""
    nodes = {}
    for l in out.split('\n'):
        m = NODE.match(l)
        if m and m.group(3) == m.group(4):
            nodes.setdefault(m.group(1), []).append((m.group(2), m.group(3)))
    return nodes


def api_diff_nodes(od):
    """the node declarations the diff dot output must hold: one per peer of any entry (unchanged included); label name[Kind] for a
    workload, the peer string otherwise; green if the workload is new, red if lost, blue otherwise"""
    want = {}
    for t in ('unchanged', 'changed', 'added', 'removed'):
        for e in od['diff'].get(t) or []:
            for side, flag in (('src', e['src_new_or_lost']), ('dst', e['dst_new_or_lost'])):
                s = e[side]
                m = re.match(r'^[^/{}]+/(.+\[[A-Za-z]+\])$', s)
                label = m.group(1) if m else s
                color = ('#008000' if t == 'added' else 'red') if (flag and t in ('added', 'removed')) else 'blue'
                if s not in want or want[s][1] == 'blue':
                    want[s] = (label, color)
    return want


# ---------------------------------------------------------------- exposure sections (list --exposure; txt md csv json)
NSKEY = 'kubernetes.io/metadata.name'


def render_selector(sel):
    """writeLabelSelectorAsString on the API selector as the harness reports it"""
    ml = ','.join('%s=%s' % (k, v) for k, v in sorted((sel.get('matchLabels') or {}).items()))
    ex = sorted('{Key:%s,Operator:%s,Values:[%s],}' % (e['key'], e['op'], ' '.join(e.get('values') or [])) for e in sel.get('exprs') or [])
    return ','.join([x for x in [ml] + ex if x])


def sel_size(sel):
    return len(sel.get('matchLabels') or {}) + len(sel.get('exprs') or [])


def render_rep(ns_sel, pod_sel):
    ml = ns_sel.get('matchLabels') or {}
    if len(ml) == 1 and not (ns_sel.get('exprs') or []) and NSKEY in ml:
        ns = ml[NSKEY]
    elif sel_size(ns_sel) == 0:
        ns = '[all namespaces]'
    else:
        ns = '[namespace with {%s}]' % render_selector(ns_sel)
    pod = '[all pods]' if sel_size(pod_sel) == 0 else '[pod with {%s}]' % render_selector(pod_sel)
    return ns + '/' + pod


def api_exposure_rows(obs):
    """(direction, workload, other end, connection) rows the exposure sections must hold, and the unprotected lines"""
    rows, unprot = [], []
    ips = {p['str'] for p in obs['peers'] if p['ip']}
    for x in obs.get('exposure') or []:
        w = x['peer']
        for d in ('ingress', 'egress'):
            if not x[d + '_protected']:
                rows.append((d, w, 'entire-cluster', 'All Connections'))
                unprot.append('%s is not protected on %s' % (w, 'Ingress' if d == 'ingress' else 'Egress'))
            else:
                for e in x[d]:
                    other = 'entire-cluster' if e['cluster'] else render_rep(e['ns_sel'], e['pod_sel'])
                    rows.append((d, w, other, e['conn_str']))
            for c in obs['conns']:
                if d == 'egress' and c['src'] == w and c['dst'] in ips:
                    rows.append((d, w, c['dst'], conn_str(c['conn'])))
                if d == 'ingress' and c['dst'] == w and c['src'] in ips:
                    rows.append((d, w, c['src'], conn_str(c['conn'])))
    return sorted(rows), sorted(unprot)


def numeric_part(conn_string):
    """{protocol: [[lo, hi], ...]} of the numeric ranges in a printed connection; None for All / No Connections"""
    if conn_string in ('All Connections', 'No Connections'):
        return None
    res, cur = {}, None
    for tok in conn_string.split(','):
        m = re.match(r'^(TCP|UDP|SCTP) (.*)$', tok)
        if m:
            cur = m.group(1)
            res.setdefault(cur, [])
            tok = m.group(2)
        r = re.match(r'^(\d+)(?:-(\d+))?$', tok)
        if r and cur is not None:
            res[cur].append([int(r.group(1)), int(r.group(2) or r.group(1))])
    return res


def exposure_conn_consistent(e):
    """the printed potential connectivity holds exactly the numeric ranges ProtocolsAndPortsMap() reports (named ports, which the
    API shows only in the string, aside); All Connections iff IsAllConnections()"""
    c, s = e['conn'], e['conn_str']
    if c.get('all'):
        return s == 'All Connections'
    got = numeric_part(s)
    if got is None:
        return s == 'No Connections' and not any(c.get('pp', {}).values())
    want = {k: [list(r) for r in v] for k, v in (c.get('pp') or {}).items() if v}
    return {k: v for k, v in got.items() if v} == want


def parse_exposure_txt(out):
    if 'Exposure Analysis Result:' not in out:
        return [], []
    body = out.split('Exposure Analysis Result:', 1)[1]
    rows, unprot, sec = [], [], None
    for line in body.split('\n'):
        if not line.strip():
            continue
        if line.startswith('Egress Exposure:'):
            sec = 'egress'
        elif line.startswith('Ingress Exposure:'):
            sec = 'ingress'
        elif line.startswith('Workloads not protected by network policies:'):
            sec = 'unprot'
        elif sec == 'unprot':
            unprot.append(line.strip())
        else:
            m = re.match(r'^(.*?)\s*\t(=>|<=) \t(.*) : (.*)$', line)
            if not m or (m.group(2) == '=>') != (sec == 'egress'):
                raise ValueError('exposure txt line: ' + repr(line))
            rows.append((sec, m.group(1).strip(), m.group(3).strip(), m.group(4).strip()))
    return sorted(rows), sorted(unprot)


def parse_exposure_md(out):
    if '## Exposure Analysis Result:' not in out:
        return []
    body = out.split('## Exposure Analysis Result:', 1)[1]
    rows, sec = [], None
    for line in body.split('\n'):
        if not line.strip():
            continue
        if line.startswith('### Egress Exposure:'):
            sec = 'egress'
        elif line.startswith('### Ingress Exposure:'):
            sec = 'ingress'
        elif line.startswith('|---') or line.strip() in ('| src | dst | conn |', '| dst | src | conn |'):
            if line.strip() == '| dst | src | conn |' and sec != 'ingress' or line.strip() == '| src | dst | conn |' and sec != 'egress':
                raise ValueError('exposure md header in the wrong section')
        else:
            parts = [p.strip() for p in line.strip().strip('|').split(' | ')]
            if len(parts) != 3:
                raise ValueError('exposure md line: ' + line)
            rows.append((sec, parts[0], parts[1], parts[2]))
    return sorted(rows)


def parse_exposure_csv(out):
    rd = list(csv.reader(io.StringIO(out)))
    rows, sec, started = [], None, False
    for r in rd:
        if r and r[0] == 'Exposure Analysis Result:':
            started = True
            continue
        if not started or not r:
            continue
        if r[0] == 'Egress Exposure:':
            sec = 'egress'
        elif r[0] == 'Ingress Exposure:':
            sec = 'ingress'
        elif r in (['src', 'dst', 'conn'], ['dst', 'src', 'conn']):
            if (r[0] == 'dst') != (sec == 'ingress'):
                raise ValueError('exposure csv header in the wrong section')
        else:
            rows.append((sec, r[0], r[1], r[2]))
    return sorted(rows)


def parse_exposure_json(out):
    d = json.loads(out)
    if not isinstance(d, dict) or 'exposure_results' not in d:
        return []
    ex = d['exposure_results'] or {}
    rows = [('egress', x['src'], x['dst'], x['conn']) for x in ex.get('egress_exposure') or []]
    rows += [('ingress', x['dst'], x['src'], x['conn']) for x in ex.get('ingress_exposure') or []]
    return sorted(rows)
