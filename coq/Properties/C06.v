(* C06 — exposure analysis is sound and leaves base connectivity untouched.
   Statements only; proofs in Proofs/ExposureProofs.v, on the model of exposure mode (Model/Exposure.v: pre-scan of the
   policies, representative peers with their unique keys and refinement, evaluation against a representative peer, the
   pod's protected flag and entire-cluster connection, the entries of exposure_map.go).
   A hypothetical pod is any [PPod hp hnsl]: pod labels [p_labels hp], named ports [p_ports hp], namespace name [p_ns hp],
   namespace labels [hnsl]; the only thing assumed of it is that its namespace labels carry the automatic name label
   (lookup kubernetes.io/metadata.name = its namespace's name), as Kubernetes guarantees.
   [s_np_layer w src dst ingress pr n = Some true]: some NetworkPolicy governs the workload in that direction and a rule of a
   governing policy matches the other end and the point (Model/Spec.v, the plain NetworkPolicy semantics). *)
From Coq Require Import List ZArith Bool String.
From NP Require Import IntervalSet ConnSet ConnSetProofs World Eval Spec EvalProofs Build Connlist Exposure ExposureProofs.
Import ListNotations.
Open Scope Z_scope.

(* the same workload/IP connectivity as without the flag: whenever list produces a report, exposure mode produces that report *)
Theorem C06_base_report_unchanged w r :
  w_anps w = [] -> w_banp w = None -> forallb netpol_okb (w_nps w) = true -> forallb pod_okb (w_pods w) = true ->
  list_world w EmptyString false = Ok r -> list_world_x w = Ok r.
Proof. exact (exposure_base_report_unchanged w r). Qed.
Print Assumptions C06_base_report_unchanged.

(* 'not protected' in a direction iff no NetworkPolicy governs the workload in that direction *)
Theorem C06_protected_iff_governed w p nsl ingress reps d :
  dir_data w p nsl ingress reps = Ok (Some d) ->
  xd_protected d = negb (match filter (fun np => s_np_governs np p (dir_of ingress)) (w_nps w) with [] => true | _ => false end).
Proof. exact (protected_iff_governed w p nsl ingress reps d). Qed.
Print Assumptions C06_protected_iff_governed.

(* every reported entry is realizable: for ANY pod whose labels and namespace labels satisfy the entry's selectors (any pod
   at all for the entire-cluster entry) the workload's policies allow every reported connection with it; a named port of an
   egress entry means that name as declared by the hypothetical pod *)
Theorem C06_reported_entry_is_realizable w reps p nsl ingress d e hp hnsl :
  forallb netpol_okb (w_nps w) = true -> pod_okb p = true ->
  dir_data w p nsl ingress reps = Ok (Some d) -> In e (xd_entries d) ->
  (xe_cluster e = true \/
   (sel_matches_raw (xe_nssel e) hnsl = true /\ sel_matches_raw (xe_podsel e) (p_labels hp) = true /\
    lookup K8sNsNameLabelKey hnsl = Some (p_ns hp))) ->
  let W := PPod p nsl in let X := PPod hp hnsl in
  (forall pr n, cs_denote (xe_conn e) pr n = true ->
     s_np_layer w (x_src W X ingress) (x_dst W X ingress) ingress pr n = Some true) /\
  (ingress = false -> forall q nm n, has_name (xe_conn e) q nm = true -> pod_named_port (p_ports hp) nm = Some (q, n) ->
     s_np_layer w W X false q n = Some true).
Proof. exact (reported_entry_realizable w reps p nsl ingress d e hp hnsl). Qed.
Print Assumptions C06_reported_entry_is_realizable.

(* what a representative peer stands for: selectors with the same requirement list select the same label sets *)
Theorem C06_same_requirements_same_pods a b l :
  creqs_eqb (sel_canon a) (sel_canon b) = true -> sel_matches_raw a l = sel_matches_raw b l.
Proof. exact (same_requirements_same_meaning a b l). Qed.
Print Assumptions C06_same_requirements_same_pods.

(* an ingress entire-cluster connection holds, for each named port of the rules, exactly the workload's own port of that name *)
Theorem C06_ingress_named_ports_are_the_workloads_own p c :
  pod_okb p = true -> cs_wf c ->
  cs_wf (convert_named p c) /\
  forall pr n, cs_denote (convert_named p c) pr n
               = cs_denote c pr n
                 || (valid_port n && negb (cs_all c)
                     && existsb (fun pn => proto_eqb (fst pn) pr && existsb (fun nm => resolves p (fst pn) nm n) (snd pn)) (cs_named_ports c)).
Proof. exact (convert_named_ok p c). Qed.
Print Assumptions C06_ingress_named_ports_are_the_workloads_own.

(* non-vacuity: a workload governed on ingress by a policy with one selector rule and one entire-cluster rule *)
Example C06_example :
  let os := [OWorkload (mkWl "Deployment" "ns1" "w" None [("app", "a")] [mkCPort "http" 8080 TCP]);
             ONetpol (mkNetpol "ns1" "p" (mkSel [] []) [Ingress]
                        [mkNpRule [NPSel None (Some (mkSel [("app", "x")] []))] [mkNpPort TCP (PNum 80) None];
                         mkNpRule [NPSel (Some (mkSel [] [])) None] [mkNpPort TCP (PName "http") None]] [])] in
  match exposure_objs os with
  | Ok r => map (fun x => (xp_peer x, xd_protected (xp_in x), xd_protected (xp_eg x),
                           map (fun e => (xe_cluster e, cs_string (xe_conn e))) (xd_entries (xp_in x)))) (xr_exposed r)
            = [("ns1/w[Deployment]"%string, true, false, [(true, "TCP 8080"%string); (false, "TCP 80,8080"%string)])]
  | Err _ => False
  end.
Proof. vm_compute. reflexivity. Qed.
