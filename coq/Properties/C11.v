(* C11 — connection sets form a correct, canonical set algebra over protocol x port.
   Statements only; proofs are in Proofs/ConnSetProofs.v. *)
From Coq Require Import List ZArith Bool String.
From NP Require Import IntervalSet ConnSet ConnSetProofs FactsPorts SrcFacts.
Import ListNotations.
Open Scope Z_scope.

Theorem C11_src_constants :
  fact_ok src_minPort minPort /\ fact_ok src_maxPort maxPort /\ fact_ok src_NoPort NoPort /\
  fact_ok src_allConnsStr allConnsStr /\ fact_ok src_noConnsStr noConnsStr.
Proof. exact ports_facts_ok. Qed.
Print Assumptions C11_src_constants.
