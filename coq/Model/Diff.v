(* Diff.v — the connectivity diff (mirror of /repo/pkg/netpol/diff/diff.go computeDiffFromConnlistResults:
   refine both reports by the common disjoint IP blocks, key by src;dst, classify, group by
   (other end, conn1, conn2) and re-merge touching ranges, new/lost flags) and the pointwise
   exactness checker that is run on the IMPLEMENTATION's diff against its two list reports.
   Executable definitions only. *)
From Coq Require Import List ZArith Bool String.
From NP Require Import IntervalSet ConnSet World Build Connlist.
Import ListNotations.
Open Scope string_scope.
Open Scope list_scope.
Open Scope Z_scope.

Inductive dtype := DUnchanged | DChanged | DAdded | DRemoved.
Definition dtype_eqb (a b : dtype) : bool :=
  match a, b with
  | DUnchanged, DUnchanged | DChanged, DChanged | DAdded, DAdded | DRemoved, DRemoved => true
  | _, _ => false
  end.

(* a diff entry: the connection on either side is the empty set when that side has none *)
Record dentry := mkDE { de_src : rpeer; de_dst : rpeer; de_c1 : connset; de_c2 : connset;
                        de_type : dtype; de_src_flag : bool; de_dst_flag : bool }.

(* ---------- the pointwise exactness checker (C04) ---------- *)
Definition d_covering (d : list dentry) (s t : pt) : list dentry :=
  filter (fun e => covers (de_src e) s && covers (de_dst e) t) d.

Definition is_ingress_controller (p : pt) : bool :=
  match p with PW s => String.eqb s "{ingress-controller}" | PA _ => false end.

(* the flag a workload end must carry: it is absent from the workloads of the other side *)
Definition want_flag (other_workloads : list string) (p : pt) : bool :=
  match p with
  | PW s => negb (is_ingress_controller p) && negb (str_mem s other_workloads)
  | PA _ => false
  end.

Definition workloads_of_peers (ps : list rpeer) : list string :=
  flat_map (fun p => match p with RW s => [s] | RIP _ _ => [] end) ps.

Definition empty_cs : connset := cs_make false.

Definition point_exact (es1 : list rentry) (ps1 : list rpeer) (es2 : list rentry) (ps2 : list rpeer)
           (d : list dentry) (s t : pt) : bool :=
  let c1 := lookup_pt es1 s t in
  let c2 := lookup_pt es2 s t in
  match c1, c2, d_covering d s t with
  | None, None, [] => true
  | None, None, _ => false
  | _, _, [e] =>
      let w1 := workloads_of_peers ps1 in
      let w2 := workloads_of_peers ps2 in
      match c1, c2 with
      | Some a, Some b =>
          dtype_eqb (de_type e) (if cs_struct_eqb a b then DUnchanged else DChanged)
          && cs_struct_eqb (de_c1 e) a && cs_struct_eqb (de_c2 e) b
          && negb (de_src_flag e) && negb (de_dst_flag e)
      | None, Some b =>
          dtype_eqb (de_type e) DAdded && cs_isempty (de_c1 e) && cs_struct_eqb (de_c2 e) b
          && Bool.eqb (de_src_flag e) (want_flag w1 s) && Bool.eqb (de_dst_flag e) (want_flag w1 t)
      | Some a, None =>
          dtype_eqb (de_type e) DRemoved && cs_struct_eqb (de_c1 e) a && cs_isempty (de_c2 e)
          && Bool.eqb (de_src_flag e) (want_flag w2 s) && Bool.eqb (de_dst_flag e) (want_flag w2 t)
      | None, None => false
      end
  | _, _, _ => false
  end.

(* points: every workload named anywhere, and for every IP range named anywhere its first address and
   the address after its last one (so that a range that is too long or too short is noticed) *)
Definition dpts (ps1 ps2 : list rpeer) (d : list dentry) : list pt :=
  let peers := ps1 ++ ps2 ++ flat_map (fun e => [de_src e; de_dst e]) d in
  flat_map (fun p => match p with
                     | RW s => [PW s]
                     | RIP lo hi => PA lo :: (if hi <? maxIP then [PA (hi + 1)] else [])
                     end) peers.

Fixpoint pt_mem (x : pt) (l : list pt) : bool :=
  match l with
  | [] => false
  | y :: t => (match x, y with
               | PW a, PW b => String.eqb a b
               | PA a, PA b => a =? b
               | _, _ => false
               end) || pt_mem x t
  end.
Fixpoint pt_dedup (l : list pt) : list pt :=
  match l with
  | [] => []
  | x :: t => if pt_mem x t then pt_dedup t else x :: pt_dedup t
  end.

Definition diff_exact_b (es1 : list rentry) (ps1 : list rpeer) (es2 : list rentry) (ps2 : list rpeer)
           (d : list dentry) : bool :=
  let pts := pt_dedup (dpts ps1 ps2 d) in
  forallb (fun s => forallb (fun t =>
     match s, t with
     | PA _, PA _ => match d_covering d s t with [] => true | _ => false end
     | _, _ => point_exact es1 ps1 es2 ps2 d s t
     end) pts) pts.

Record diff_case := mkDC { dc_id : nat; dc_es1 : list rentry; dc_ps1 : list rpeer;
                           dc_es2 : list rentry; dc_ps2 : list rpeer; dc_diff : list dentry }.

Definition diff_mismatches (cs : list diff_case) : list (nat * nat) :=
  flat_map (fun c => if diff_exact_b (dc_es1 c) (dc_ps1 c) (dc_es2 c) (dc_ps2 c) (dc_diff c) then [] else [(dc_id c, 1%nat)]) cs.

(* ---------- the mirror of diff.go ---------- *)
Definition ip_of (p : rpeer) : option ivl := match p with RIP a b => Some (a, b) | RW _ => None end.

(* getIPblocksFromConnList: the IP peers that occur in connections *)
Definition conn_ip_peers (es : list rentry) : list ivl :=
  flat_map (fun e => match ip_of (re_src e), ip_of (re_dst e) with
                     | Some v, _ => [v]
                     | None, Some v => [v]
                     | None, None => []
                     end) es.

(* netset.DisjointIPBlocks(set1, set2): the elementary pieces, by all end points, of the union of the
   input ranges (pieces outside every input range are not part of the result) *)
Definition disjoint_of (inputs : list ivl) : list ivl :=
  let cuts := fold_left (fun acc b => zinsert (fst b) (zinsert (snd b + 1) acc)) inputs [] in
  filter (fun blk => existsb (fun v => (fst v <=? fst blk) && (snd blk <=? snd v)) inputs) (blocks_of_cuts cuts).

Definition within (blk v : ivl) : bool := (fst v <=? fst blk) && (snd blk <=? snd v).

(* RefineConnListByDisjointPeers *)
Definition refine_entry (blocks : list ivl) (e : rentry) : list rentry :=
  match ip_of (re_src e), ip_of (re_dst e) with
  | Some v, _ => map (fun b => mkRE (RIP (fst b) (snd b)) (re_dst e) (re_conn e)) (filter (fun b => within b v) blocks)
  | None, Some v => map (fun b => mkRE (re_src e) (RIP (fst b) (snd b)) (re_conn e)) (filter (fun b => within b v) blocks)
  | None, None => [e]
  end.

(* diffMap: src;dst -> (first, second) *)
Record dpair := mkDP { dp_src : rpeer; dp_dst : rpeer; dp_c1 : option connset; dp_c2 : option connset }.

Fixpoint dmap_update (first : bool) (e : rentry) (m : list dpair) : list dpair :=
  match m with
  | [] => [if first then mkDP (re_src e) (re_dst e) (Some (re_conn e)) None
           else mkDP (re_src e) (re_dst e) None (Some (re_conn e))]
  | p :: t =>
      if rpeer_eqb (dp_src p) (re_src e) && rpeer_eqb (dp_dst p) (re_dst e)
      then (if first then mkDP (dp_src p) (dp_dst p) (Some (re_conn e)) (dp_c2 p)
            else mkDP (dp_src p) (dp_dst p) (dp_c1 p) (Some (re_conn e))) :: t
      else p :: dmap_update first e t
  end.

Definition copt_struct_eqb (a b : option connset) : bool :=
  match a, b with
  | None, None => true
  | Some x, Some y => cs_struct_eqb x y
  | _, _ => false
  end.

(* mergeIPblocks: pairs whose IP end differs but whose other end and both connections coincide are
   merged into the maximal runs of the union of their ranges *)
Definition same_group (ip_is_dst : bool) (p q : dpair) : bool :=
  rpeer_eqb (if ip_is_dst then dp_src p else dp_dst p) (if ip_is_dst then dp_src q else dp_dst q)
  && copt_struct_eqb (dp_c1 p) (dp_c1 q) && copt_struct_eqb (dp_c2 p) (dp_c2 q).

Fixpoint merge_groups (fuel : nat) (ip_is_dst : bool) (l : list dpair) : list dpair :=
  match fuel, l with
  | O, _ => l
  | _, [] => []
  | S f, p :: t =>
      let grp := p :: filter (same_group ip_is_dst p) t in
      let rest := filter (fun q => negb (same_group ip_is_dst p q)) t in
      let ranges := flat_map (fun q => match ip_of (if ip_is_dst then dp_dst q else dp_src q) with Some v => [v] | None => [] end) grp in
      map (fun v => if ip_is_dst then mkDP (dp_src p) (RIP (fst v) (snd v)) (dp_c1 p) (dp_c2 p)
                    else mkDP (RIP (fst v) (snd v)) (dp_dst p) (dp_c1 p) (dp_c2 p)) (icanon_of ranges)
      ++ merge_groups f ip_is_dst rest
  end.

Definition classify (w1 w2 : list string) (p : dpair) : list dentry :=
  let flag (other : list string) (x : rpeer) :=
      match x with
      | RW s => negb (String.eqb s "{ingress-controller}") && negb (str_mem s other)
      | RIP _ _ => false
      end in
  match dp_c1 p, dp_c2 p with
  | Some a, Some b => [mkDE (dp_src p) (dp_dst p) a b (if cs_equal a b then DUnchanged else DChanged) false false]
  | Some a, None => [mkDE (dp_src p) (dp_dst p) a empty_cs DRemoved (flag w2 (dp_src p)) (flag w2 (dp_dst p))]
  | None, Some b => [mkDE (dp_src p) (dp_dst p) empty_cs b DAdded (flag w1 (dp_src p)) (flag w1 (dp_dst p))]
  | None, None => []
  end.

Definition diff_model (es1 : list rentry) (ps1 : list rpeer) (es2 : list rentry) (ps2 : list rpeer) : list dentry :=
  let blocks := disjoint_of (conn_ip_peers es1 ++ conn_ip_peers es2) in
  let r1 := flat_map (refine_entry blocks) es1 in
  let r2 := flat_map (refine_entry blocks) es2 in
  let m := fold_left (fun acc e => dmap_update false e acc) r2 (fold_left (fun acc e => dmap_update true e acc) r1 []) in
  let plain := filter (fun p => negb (rpeer_is_ip (dp_src p)) && negb (rpeer_is_ip (dp_dst p))) m in
  let dst_ip := filter (fun p => rpeer_is_ip (dp_dst p)) m in
  let src_ip := filter (fun p => negb (rpeer_is_ip (dp_dst p)) && rpeer_is_ip (dp_src p)) m in
  let merged := plain ++ merge_groups (List.length dst_ip) true dst_ip ++ merge_groups (List.length src_ip) false src_ip in
  flat_map (classify (workloads_of_peers ps1) (workloads_of_peers ps2)) merged.

(* comparison of the implementation's diff with the model's, as sets of entries *)
Definition dentry_eqb (a b : dentry) : bool :=
  rpeer_eqb (de_src a) (de_src b) && rpeer_eqb (de_dst a) (de_dst b)
  && cs_struct_eqb (de_c1 a) (de_c1 b) && cs_struct_eqb (de_c2 a) (de_c2 b)
  && dtype_eqb (de_type a) (de_type b) && Bool.eqb (de_src_flag a) (de_src_flag b) && Bool.eqb (de_dst_flag a) (de_dst_flag b).
Definition dentries_eqb (a b : list dentry) : bool :=
  forallb (fun x => existsb (dentry_eqb x) b) a && forallb (fun x => existsb (dentry_eqb x) a) b
  && Nat.eqb (List.length a) (List.length b).

(* 1: not pointwise exact (property); 2: differs from the model (correspondence) *)
Definition diff_codes (cs : list diff_case) : list (nat * nat) :=
  flat_map (fun c =>
    (if diff_exact_b (dc_es1 c) (dc_ps1 c) (dc_es2 c) (dc_ps2 c) (dc_diff c) then [] else [(dc_id c, 1%nat)]) ++
    (if dentries_eqb (dc_diff c) (diff_model (dc_es1 c) (dc_ps1 c) (dc_es2 c) (dc_ps2 c)) then [] else [(dc_id c, 2%nat)])) cs.
