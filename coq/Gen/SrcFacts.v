(* GENERATED on every check run from /repo by checks/lib/srcfacts.py — do not edit. *)
From Coq Require Import ZArith String.
Open Scope Z_scope.

Definition src_minPort : option Z := Some (1).
Definition src_maxPort : option Z := Some (65535).
Definition src_NoPort : option Z := Some (-1).
Definition src_MinANPPriority : option Z := Some (0).
Definition src_MaxANPPriority : option Z := Some (1000).
Definition src_allConnsStr : option string := Some "All Connections"%string.
Definition src_noConnsStr : option string := Some "No Connections"%string.
Definition src_K8sNsNameLabelKey : option string := Some "kubernetes.io/metadata.name"%string.
Definition src_IngressPodName : option string := Some "ingress-controller"%string.
Definition src_IngressPodNamespace : option string := Some "ingress-controller-ns"%string.
Definition src_defaultCacheSize : option Z := Some (500).
Definition src_IPv4LoopbackAddr : option string := Some "127.0.0.1"%string.
Definition src_RepresentativePodName : option string := Some "representative-pod"%string.
