(* C17 — connectivity is per workload, independent of replicas and controller kind.
   Statements only; proofs in Proofs/ReexpressProofs.v (and WfProofs.v for the no-self-entry clause).
   [vw x]: a peer seen through namespace, labels, namespace labels and container ports only. *)
From Coq Require Import List ZArith Bool String.
From NP Require Import IntervalSet ConnSet ConnSetProofs World Eval Spec EvalProofs EvalPoint Build Connlist ListProofs WfProofs EngineProofs ReexpressProofs.
Import ListNotations.
Open Scope Z_scope.

(* the semantics look at a pod only through its view *)
Theorem C17_semantics_per_view w s d pr n : s_allows w (vw s) (vw d) pr n = s_allows w s d pr n.
Proof. exact (s_allows_vw w s d pr n). Qed.
Print Assumptions C17_semantics_per_view.

(* hence two pairs of pods with the same views get identical (canonical) connection sets: replica
   count, controller kind and pod names cannot change a reported connection *)
Theorem C17_reexpress_conn_equal w s d s' d' c c' :
  vw s = vw s' -> vw d = vw d' ->
  pod_to_itself s d = false -> pod_to_itself s' d' = false ->
  peer_okb d = true -> peer_okb d' = true -> world_okb w = true ->
  all_conns w s d = Ok c -> all_conns w s' d' = Ok c' -> c = c'.
Proof. exact (reexpress_conn_equal w s d s' d' c c'). Qed.
Print Assumptions C17_reexpress_conn_equal.

(* the same pod template under any controller kind / replica count expands to pods with one view,
   one owner name and one namespace (only the recorded kind and the pod names differ) *)
Theorem C17_workload_pods_same_view wl1 wl2 p1 p2 :
  wl_ns wl1 = wl_ns wl2 -> wl_name wl1 = wl_name wl2 -> wl_labels wl1 = wl_labels wl2 -> wl_ports wl1 = wl_ports wl2 ->
  In p1 (pods_of_workload (norm_workload wl1)) -> In p2 (pods_of_workload (norm_workload wl2)) ->
  view p1 = view p2 /\ p_owner_name p1 = p_owner_name p2 /\ p_ns p1 = p_ns p2.
Proof. exact (workload_pods_same_view wl1 wl2 p1 p2). Qed.
Print Assumptions C17_workload_pods_same_view.

(* every workload string is represented by exactly one peer (pods of one owner collapse into it) *)
Theorem C17_one_peer_per_workload pods : NoDup (map fst (workloads_of pods [])).
Proof. exact (one_peer_per_workload pods). Qed.
Print Assumptions C17_one_peer_per_workload.

(* a workload is never listed as connecting to itself *)
Theorem C17_no_self_entry w focus hi r :
  list_world w focus hi = Ok r -> world_okb w = true -> forallb pod_okb (w_pods w) = true ->
  forall e, In e (lr_entries r) -> re_src e <> re_dst e.
Proof. intros H Hw Hp e He. apply (list_world_entries_wf w focus hi r H Hw Hp e He). Qed.
Print Assumptions C17_no_self_entry.

(* the finding recorded for the unchanged code: the pods map is keyed by the generated pod name, so a
   Deployment ns/a and a StatefulSet ns/a shadow each other: only one of the two workloads is a peer *)
Example C17_distinct_workloads_shadow_refuted :
  let d := OWorkload (mkWl "Deployment" "ns" "a" None [("app", "x")] []) in
  let s := OWorkload (mkWl "StatefulSet" "ns" "a" None [("app", "y")] []) in
  match build_world [d; s] with
  | Ok w => map fst (workloads_of (w_pods w) []) = ["ns/a[StatefulSet]"%string]
  | Err _ => False
  end.
Proof. vm_compute. reflexivity. Qed.
