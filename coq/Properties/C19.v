(* C19 — conflicting policy sets are always rejected, never resolved by input order.
   Statements only; proofs in Proofs/AbstractSort.v, Proofs/BuildProofs.v.
   Part 1 is about ANY correct comparison sort run with the Go callback of
   sortAdminNetpolsByPriority (a decision tree [t] over element indices, [sorts n t]: correct on
   every injective key, [wf n t]: indices in range): the detection cannot depend on pivoting,
   insertion-sort cutoffs or fallbacks of sort.Slice.
   Part 2 is about the model of addObjectsByKind (Model/Build.v): [l1], [l2], [l3] are arbitrary
   lists of other resources, so position and quantity of other resources are irrelevant. *)
From Coq Require Import List ZArith Bool String.
From NP Require Import IntervalSet ConnSet World Eval Build Connlist AbstractSort BuildProofs.
Import ListNotations.
Open Scope Z_scope.

Theorem C19_sort_detects_equal_priorities n t lo hi prio :
  sorts n t -> wf n t -> err lo hi prio t = false ->
  forall i j, (i < n)%nat -> (j < n)%nat -> i <> j -> prio i <> prio j.
Proof. exact (no_err_no_dup n lo hi t prio). Qed.
Print Assumptions C19_sort_detects_equal_priorities.

Theorem C19_sort_detects_out_of_range n t lo hi prio :
  sorts n t -> wf n t -> err lo hi prio t = false -> (2 <= n)%nat ->
  forall i, (i < n)%nat -> valid lo hi (prio i) = true.
Proof. exact (no_err_all_valid n lo hi t prio). Qed.
Print Assumptions C19_sort_detects_out_of_range.

(* the model's sort verdict is exactly "no two equal priorities and all in range" *)
Theorem C19_sort_verdict l :
  is_ok (sort_anps l) = negb (has_dup_prio l) && forallb (fun a => valid_priority (a_prio a)) l.
Proof. exact (sort_anps_ok_iff l). Qed.
Print Assumptions C19_sort_verdict.

Theorem C19_same_priority_rejected a1 a2 l1 l2 l3 :
  a_prio a1 = a_prio a2 -> is_ok (build_world (l1 ++ OAnp a1 :: l2 ++ OAnp a2 :: l3)) = false.
Proof. exact (same_priority_rejected a1 a2 l1 l2 l3). Qed.
Print Assumptions C19_same_priority_rejected.

Theorem C19_priority_out_of_range_rejected a l1 l2 :
  valid_priority (a_prio a) = false -> is_ok (build_world (l1 ++ OAnp a :: l2)) = false.
Proof. exact (priority_out_of_range_rejected a l1 l2). Qed.
Print Assumptions C19_priority_out_of_range_rejected.

Theorem C19_same_anp_name_rejected a1 a2 l1 l2 l3 :
  a_name a1 = a_name a2 -> is_ok (build_world (l1 ++ OAnp a1 :: l2 ++ OAnp a2 :: l3)) = false.
Proof. exact (dup_anp_name_rejected a1 a2 l1 l2 l3). Qed.
Print Assumptions C19_same_anp_name_rejected.

Theorem C19_same_netpol_name_rejected np1 np2 l1 l2 l3 :
  np_ns (np_default_ns np1) = np_ns (np_default_ns np2) -> np_name np1 = np_name np2 ->
  is_ok (build_world (l1 ++ ONetpol np1 :: l2 ++ ONetpol np2 :: l3)) = false.
Proof. exact (dup_netpol_name_rejected np1 np2 l1 l2 l3). Qed.
Print Assumptions C19_same_netpol_name_rejected.

Theorem C19_second_banp_rejected b1 b2 l1 l2 l3 :
  is_ok (build_world (l1 ++ OBanp b1 :: l2 ++ OBanp b2 :: l3)) = false.
Proof. exact (second_banp_rejected b1 b2 l1 l2 l3). Qed.
Print Assumptions C19_second_banp_rejected.

Theorem C19_banp_not_named_default_rejected b l1 l2 :
  String.eqb (b_name b) "default" = false -> is_ok (build_world (l1 ++ OBanp b :: l2)) = false.
Proof. exact (banp_name_rejected b l1 l2). Qed.
Print Assumptions C19_banp_not_named_default_rejected.

Theorem C19_inconsistent_owner_labels_rejected w focus hi :
  w_pods w <> [] -> owners_consistent (w_pods w) = false -> is_ok (list_world w focus hi) = false.
Proof. exact (inconsistent_owner_rejected w focus hi). Qed.
Print Assumptions C19_inconsistent_owner_labels_rejected.

(* no false conflict from the priorities *)
Theorem C19_no_false_priority_conflict l :
  has_dup_prio l = false -> forallb (fun a => valid_priority (a_prio a)) l = true ->
  sort_anps l = Ok (sort_by_prio l) \/ exists a, l = [a].
Proof. exact (no_false_priority_conflict l). Qed.
Print Assumptions C19_no_false_priority_conflict.
