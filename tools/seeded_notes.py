#!/usr/bin/env python3
"""seeded_notes.py : add to every seeded/<id>/meta.json which check catches the mutant and what had to be strengthened for it
(the table of DESIGN.md section 9 in machine-readable form)."""
import json, os
NOTES = {
 'C02-m3': ('C02 (eval part), C03', 'precedence-stack motif; C02 now also runs the eval correspondence on ANP worlds'),
 'C03-m2': ('C03', 'precedence-stack motif'), 'C03-m3': ('C03', 'BANP with a named port; the numbers of named ports are always queried'),
 'C04-m1': ('C04', 'edit: the same connection moves to a disjoint IP range'), 'C04-m2': ('C04', 'edit: workload kind changed, same namespace and name'),
 'C05-m1': ('C05', 'multi-range IP peer bias'), 'C05-m2': ('C05', 'port-cover bias'),
 'C08-m1': ('C08', 'rules with 3-5 named ports towards peers outside the input (exposure output)'), 'C08-m2': ('C08', 'Services / Ingresses / Routes in the worlds, documents reordered'),
 'C09-m1': ('C09', 'exposure sections parsed back (IP rows)'), 'C09-m2': ('C09', 'exposure sections parsed back (selector rendering)'),
 'C13-m2': ('C13', 'rule: a fatal entry in Errors() never comes with connections; a decodable Service with an illegal selector value'),
 'C13-m3': ('C13', 'diff with the junk on the second side'),
 'C14-m2': ('C14', 'more spelling edits, mixed selectors; a dedicated policy whose peer has labels plus a narrowing expression'), 'C14-m3': ('C14', 'checker ids kept small (nat literal overflow in the harness)'),
 'C15-m2': ('C15', 'ANP sandwich history motif'), 'C15-m3': ('C15', 'two-NetworkPolicy history motif'),
 'C16-m1': ('C16', 'workload names that are suffixes of one another'),
 'C17-m2': ('C17', 'extra non-controller ownerReference listed first'), 'C17-m3': ('C17', 'namespace omitted in the manifest (default)'),
 'C18-m1': ('C18', 'the -f output file exists beforehand and is longer'),
 'C19-m2': ('C19', 'empty-valued label in the owner-consistency injection'),
 'C07-m1': ('C07, C06', 'refinement-boundary motif (label equalities satisfied by an existing workload, with/without a failing expression)'),
 'C07-m3': ('C07, C06', 'entire-cluster connection with a one-port hole next to a named-port rule'),
 # round 2
 'C01-m4': ('C01', 'CIDRs equal to the host address of the pods'), 'C01-m6': ('C01', 'workloads with two containers; a policy naming exactly the declared port names'),
 'C02-m5': ('C15', 'a history defect (cache kept over an ANP insertion): caught by the C15 check, C02 has no histories'),
 'C03-m4': ('C03', 'the same workload (name, kind, owner) in two namespaces under one engine'), 'C03-m6': ('C03', 'ANP rules with a present but empty ports list'),
 'C05-m3': ('C05, C11', 'an ANP completely shadowed by a higher one over a default-deny NetworkPolicy (detection was marginal)'),
 'C05-m4': ('C05, C10', 'the verified checker also on 200 reports with Services/Ingresses/Routes'),
 'C06-m5': ('C06', 'one policy for both directions, wide in one and specific in the other'),
 'C08-m6': ('C08, C07', 'two policies of which one already allows everything; eval answers compared as well'),
 'C09-m3': ('C09', 'four separate ranges of one protocol (detection was marginal)'),
 'C09-m4': ('C09, C06, C07, C11', 'printed exposure connection vs ProtocolsAndPortsMap()'), 'C09-m5': ('C09', 'exposure worlds governed by ipBlock rules only'),
 'C09-m6': ('C09', 'diff dot node declarations (now also the byte-exact model Model/DiffDot.v); a twin workload in another namespace'),
 'C11-m1': ('C11', 'aliasing motif: full set intersected with a set, then updated (detection was marginal)'), 'C11-m5': ('C11', 'exclude-a-name-then-reunite motif'),
 'C12-m5': ('C12, C06', 'phase of well-formed worlds through every command'), 'C12-m6': ('C12, C03', 'phase of well-formed worlds through every command (Namespace objects dropped)'),
 'C14-m4': ('C14, C01', 'empty label values in selectors and on workloads; the spelling edit prefers them'),
 'C16-m5': ('C16, C18', 'the real binary for default/NAME and a sample of other focus values'), 'C16-m6': ('C16', 'the focus in another letter case'),
 'C17-m4': ('C17', 'one port number under two protocols with two names'), 'C17-m5': ('C17', 'workloads X and X-1; a controller and a bare Pod sharing namespace/name'),
 'C17-m6': ('C17', 'a controller and a bare Pod sharing namespace/name in a policy-free world'),
 'C18-m4': ('C18', 'inputs with sub-directories'), 'C18-m5': ('C18, C16', 'default/NAME focus values'), 'C18-m6': ('C18', 'a directory diffed with itself, incl. a missing one'),
 'C19-m4': ('C19', 'the same BANP manifest twice'), 'C19-m6': ('C19', 'an ANP duplicated with the same name and priority'),
 # round 3
 'C01-m7': ('C01', 'a workload without any label facing a rule whose selector only excludes'), 'C01-m8': ('C01', 'host ports on named container ports'),
 'C06-m7': ('C06', 'two whole-cluster policies, one selecting every workload of the namespace and one a single workload; motif selection made uniform'),
 'C06-m9': ('C06, C09', 'the printed exposure section read back against ExposedPeers() in C06 too; the nsexpr motif forced in part of the C09 exposure worlds'),
 'C10-m9': ('C10', 'Services / Ingresses / Routes of the default namespace written without namespace'),
 'C18-m7': ('C18', 'format names in another letter case'), 'C18-m8': ('C18', 'a directory given through a symbolic link with a trailing slash'),
 'C05-m8': ('C05', 'a lower ANP with two ports inside the range a higher one denies, over deny-all NetworkPolicies'),
 'C08-m9': ('C08, C06, C07', 'two whole-cluster policies of different reach (the C06 alias motif) in the C08 worlds'),
 'C09-m7': ('C09', 'diff edits in which two workloads appear or disappear together'), 'C09-m8': ('C09', 'an exposed workload with a 62-character name'),
 'C09-m9': ('C09', 'two new/lost workloads with long names (info text longer than 64 characters)'),
 'C11-m7': ('C11', 'two sets differing only in the name of their named port'), 'C11-m8': ('C11', 'copy of a set with an excluded name, the name re-allowed in the copy'),
 'C12-m8': ('C12', 'an ANP peer with an In expression in the seed set; `values: []` among the always-tried faults'),
 'C14-m7': ('C14', 'defaulted policyTypes with an explicit empty egress list vs explicit [Ingress]'), 'C14-m8': ('C14', 'one policy mentioning one CIDR with and without except'),
 'C14-m9': ('C14', 'a CIDR written as [C except H, H] in one rule'),
 'C15-m8': ('C15, C03', 'one port asked about on all three protocols in a row'),
 'C16-m7': ('C16', 'Services/Ingresses/Routes in the focus worlds, every workload targeted'), 'C16-m8': ('C16', 'the dot output under focus read back against the focused report'),
 'C16-m9': ('C16', 'focus values with more than one slash'),
 'C17-m7': ('C17', 'a Job with an unlabelled template and a labelled object; object-level labels on every controller'), 'C17-m9': ('C17', 'ReplicationController owners (apiVersion v1)'),
 'C19-m7': ('C19', 'the controller reference after a non-controller owner in the owner-labels injection'), 'C19-m8': ('C19', 'priorities 0 and 1000 in conflict-free controls'),
 'C19-m9': ('C19', 'an ANP named like the BANP in conflict-free controls'),
 # round 4
 'C02-m12': ('C15', 'a history defect (cache kept over an ANP insertion): caught by the C15 check, C02 has no histories'),
 'C08-m11': ('C08', 'peers and ports of (B)ANP rules permuted; an ANP rule mixing a named port with numbered ports'),
 'C11-m11': ('C11', 'a set with a named port against sets holding nearly every port number'),
 'C12-m11': ('C12', 'eval queries whose destination the seed NetworkPolicy governs'),
 'C14-m12': ('C14', 'edit: rules added in a direction that explicit policyTypes leave out'),
 'C14-m10': ('C14', 'edit: defaulted vs explicit [Ingress, Egress] forced on policies with egress rules only'),
}
base = '/verif/seeded'
for sid in sorted(os.listdir(base)):
    p = os.path.join(base, sid, 'meta.json')
    m = json.load(open(p)) if os.path.exists(p) else {}
    prop = sid.split('-')[0]
    cb, note = NOTES.get(sid, (prop, None))
    m['caught_by'] = cb
    m['strengthening_needed'] = note
    json.dump(m, open(p, 'w'), indent=1)
print('ok')
