(* C10 — ingress-controller lines follow Ingress/Route -> Service -> workload + policies.
   Statements only; proofs in Proofs/IngressProofs.v, on the model of ingress_analyzer.go and of
   connlist.go's getIngressAllowedConnections (Model/Ingress.v).
   [ia] is the analyzer state: the Services kept (non-nil selector, selecting at least one workload of their
   namespace), and per Route / Ingress the backends that are Services.
   [spec_ing_targeted ia k]: some Route or Ingress has a backend naming a kept Service of its own namespace that selects k.
   [spec_ing_port true ia k n]: ... and n is reached: n is a TCP container port of k and is what the targetPort
   (number, or name resolved on k; the port itself when unset) of the designated service port means on k;
   a Route designates by name, number or targetPort, a k8s-Ingress by name or number only (strict = true).
   [policy_allows w dp pr n]: the pointwise policy semantics of Model/Spec.v (s_allows) from the ingress-controller
   pod (no labels, namespace ingress-controller-ns with only its automatic name label unless the input declares it). *)
From Coq Require Import List ZArith Bool String.
From NP Require Import IntervalSet ConnSet ConnSetProofs World Eval Spec EvalProofs Build Connlist Ingress IngressProofs IngressUnique.
Import ListNotations.
Open Scope Z_scope.

Theorem C10_lines_and_warnings_are_exactly_the_statement w ios focus r :
  world_okb w = true -> forallb pod_okb (w_pods w) = true ->
  list_world_ing true w ios focus = Ok r ->
  let wls := workloads_of (w_pods w) [] in
  let ia := analyze wls ios in
  exists base lines,
    list_world w focus (negb (ia_empty ia)) = Ok base /\
    lr_entries (ir_list r) = lr_entries base ++ lines /\
    lr_peers (ir_list r) = lr_peers base /\ lr_warn (ir_list r) = lr_warn base /\
    (forall e, In e lines ->
       exists k p dp, In (k, p) wls /\ spec_ing_targeted ia k = true /\
         include_pair focus ingress_mpeer (wl_mpeer k p) = true /\
         re_src e = ing_src /\ re_dst e = RW k /\ pod_peer w p = Ok dp /\ cs_ninv (re_conn e) /\
         (exists pr n, cs_denote (re_conn e) pr n = true) /\
         forall pr n, cs_denote (re_conn e) pr n
                      = proto_eqb TCP pr && spec_ing_port true ia k n && policy_allows w dp pr n) /\
    (forall x, In x (ir_warns r) ->
       exists k p dp, In (k, p) wls /\ spec_ing_targeted ia k = true /\ iw_peer x = k /\ pod_peer w p = Ok dp /\
         (forall pr n, proto_eqb TCP pr && spec_ing_port true ia k n && policy_allows w dp pr n = false) /\
         iw_objs x <> [] /\
         forall nm, In nm (iw_objs x) -> names_target ia (if iw_is_ing x then ia_ings ia else ia_routes ia) k nm) /\
    (forall k p, In (k, p) wls -> spec_ing_targeted ia k = true -> lr_warn base = false ->
       include_pair focus ingress_mpeer (wl_mpeer k p) = true ->
       (exists e, In e lines /\ re_src e = ing_src /\ re_dst e = RW k) \/
       (exists x, In x (ir_warns r) /\ iw_peer x = k)).
Proof. exact (list_world_ing_ok true w ios focus r). Qed.
Print Assumptions C10_lines_and_warnings_are_exactly_the_statement.

(* what "reached" means *)
Theorem C10_reached_through_a_table bt ia tbl k n :
  table_reaches bt ia tbl k n = true <->
  exists o r peers ports e,
    In o tbl /\ In r (snd o) /\ lookup2 (fst (fst o), sr_svc r) (ia_svcs ia) = Some (peers, ports) /\
    find (fun e => String.eqb (fst e) k) peers = Some e /\ reaches bt (snd e) ports (sr_port r) n = true.
Proof. exact (table_reaches_iff bt ia tbl k n). Qed.
Print Assumptions C10_reached_through_a_table.

Theorem C10_reached_port bt p sps req n :
  reaches bt p sps req n = true <->
  exists a, In a (access_ports bt sps req) /\ resolve_access p a = Some n /\ tcp_container_port p n = true.
Proof. exact (reaches_iff bt p sps req n). Qed.
Print Assumptions C10_reached_port.

Theorem C10_designated_service_port bt sps req :
  ios_unset req = false ->
  access_ports bt sps req = match find (fun sp => designates bt sp req) sps with
                            | Some sp => [access_port sp]
                            | None => []
                            end.
Proof. exact (access_ports_designated bt sps req). Qed.
Print Assumptions C10_designated_service_port.

Theorem C10_no_required_port_means_all_service_ports bt sps req :
  ios_unset req = true -> access_ports bt sps req = map access_port sps.
Proof. exact (access_ports_all bt sps req). Qed.
Print Assumptions C10_no_required_port_means_all_service_ports.

(* only TCP lines, canonical, never empty: part of the first theorem; the set kept for a target stores TCP only *)
Theorem C10_targets_store_tcp_only wls ia strict t :
  (forall k p, In (k, p) wls -> pod_okb p = true) -> svcs_from wls (ia_svcs ia) ->
  In t (ing_targets strict wls ia) ->
  In (it_key t, it_pod t) wls /\ spec_ing_targeted ia (it_key t) = true /\ tcp_only (it_conn t) /\
  (forall q m, cs_denote (it_conn t) q m = proto_eqb TCP q && spec_ing_port strict ia (it_key t) m) /\
  it_ings t = kind_names (negb strict) ia (ia_ings ia) (it_key t) /\
  it_routes t = kind_names true ia (ia_routes ia) (it_key t).
Proof. exact (fun H1 H2 => ing_targets_in wls ia H1 H2 strict t). Qed.
Print Assumptions C10_targets_store_tcp_only.

(* the implementation's designation rule (an Ingress backend also matches a targetPort: known finding
   c10-ingress-backend-by-targetport) gives the stated report whenever no Ingress backend port equals a targetPort
   of a kept Service *)
Theorem C10_implementation_rule_agrees_without_targetport_coincidence w ios focus :
  no_target_coincidence (analyze (workloads_of (w_pods w) []) ios) ->
  list_world_ing false w ios focus = list_world_ing true w ios focus.
Proof. exact (list_world_ing_agree w ios focus). Qed.
Print Assumptions C10_implementation_rule_agrees_without_targetport_coincidence.

(* at most one line and at most one warning per workload *)
Theorem C10_one_line_per_workload strict w ios focus es ws :
  ingress_lines w focus (ing_targets strict (workloads_of (w_pods w) []) (analyze (workloads_of (w_pods w) []) ios)) = Ok (es, ws) ->
  NoDup (map re_dst es) /\ NoDup (map iw_peer ws).
Proof. exact (one_ingress_line_per_workload strict w ios focus es ws). Qed.
Print Assumptions C10_one_line_per_workload.

(* non-vacuity: a Service selecting a workload through a named targetPort, an Ingress by port number, no policies *)
Example C10_example :
  let os := [OWorkload (mkWl "Deployment" "ns1" "w" None [("app", "a")] [mkCPort "http" 8080 TCP; mkCPort "dns" 53 UDP])] in
  let ios := [ISvc (mkSvc "ns1" "s" (Some [("app", "a")]) [mkSP "web" 80 (ios_name "http"); mkSP "" 53 (ios_num 53)]);
              IIng (mkIngDoc "ns1" "i" None [Some [Some (mkBR "s" "" 80)]])] in
  match list_objs_ing true os ios "" with
  | Ok r => map (fun e => (re_src e, re_dst e, cs_string (re_conn e)))
                (filter (fun e => rpeer_eqb (re_src e) ing_src) (lr_entries (ir_list r)))
            = [(ing_src, RW "ns1/w[Deployment]", "TCP 8080"%string)] /\ ir_warns r = []
  | Err _ => False
  end.
Proof. vm_compute. split; reflexivity. Qed.
