(* Cli.v — the decision logic of the command line (pkg/cli/list.go, diff.go, root.go): flags -> library
   options, stdout, the -f file and the exit status, with the library call as a parameter.
   Executable definitions only. *)
From Coq Require Import List Bool String.
Import ListNotations.
Open Scope string_scope.

Record list_flags := mkLF { lf_format : string; lf_exposure : bool; lf_focus : string; lf_fail : bool;
                            lf_quiet : bool; lf_verbose : bool; lf_file : option string }.
Record list_opts := mkLO { lo_format : string; lo_exposure : bool; lo_focus : string; lo_stop : bool }.

Definition list_options (f : list_flags) : list_opts :=
  mkLO (lf_format f) (lf_exposure f) (lf_focus f) (lf_fail f).         (* getConnlistOptions *)

Definition valid_list_format (s : string) : bool :=
  existsb (String.eqb s) ["txt"; "json"; "dot"; "csv"; "md"].
Definition valid_diff_format (s : string) : bool :=
  existsb (String.eqb s) ["txt"; "csv"; "md"; "dot"].

(* what running the process produces *)
Record proc := mkProc { pr_stdout : string; pr_file : option (string * string) (* path, bytes *); pr_exit_zero : bool }.

Inductive lib_result := LibOut (s : string) | LibErr.

(* runListCommand behind PersistentPreRunE (format validation, -q with -v) *)
Definition run_list (lib : list_opts -> lib_result) (f : list_flags) : proc :=
  if negb (valid_list_format (lf_format f)) then mkProc "" None false
  else if lf_quiet f && lf_verbose f then mkProc "" None false
  else match lib (list_options f) with
       | LibErr => mkProc "" None false
       | LibOut s => mkProc s (match lf_file f with Some p => Some (p, s) | None => None end) true
       end.

Record diff_flags := mkDF { df_dir1 : string; df_dir2 : string; df_format : string; df_fail : bool; df_file : option string }.
Definition run_diff (lib : string -> string -> string -> bool -> lib_result) (f : diff_flags) : proc :=
  if String.eqb (df_dir1 f) "" || String.eqb (df_dir2 f) "" then mkProc "" None false
  else if negb (valid_diff_format (df_format f)) then mkProc "" None false
  else match lib (df_dir1 f) (df_dir2 f) (df_format f) (df_fail f) with
       | LibErr => mkProc "" None false
       | LibOut s => mkProc s (match df_file f with Some p => Some (p, s) | None => None end) true
       end.
